import Driver.Common
import PanqecVerif.Model.Sim
-- import PanqecVerif.Model.Spec
open Panqec

/-! ops for `Model/Sim.lean` (C11) and `Model/Spec.lean` (C13) -/
namespace Drv.Sim

open Panqec.Sim

def parseRat (s : String) : Rat :=
  match s.splitOn "/" with
  | [a] => (a.toInt?.getD 0 : Int)
  | [a, b] => mkRat (a.toInt?.getD 0) (b.toNat?.getD 1)
  | _ => 0

def showRat (q : Rat) : String := s!"{q.num}/{q.den}"

def showOptRat : Option Rat → String
  | none => "nan"
  | some q => showRat q

def showBools (l : List Bool) : String :=
  if l.isEmpty then "-" else String.ofList (l.map fun b => if b then '1' else '0')

def parseProbs (s : String) : List QubitProbs :=
  if s == "-" then [] else
  (s.splitOn ";").map fun q =>
    match (q.splitOn ",").map parseRat with
    | [a, b, c, d] => ⟨a, b, c, d⟩
    | _ => ⟨1, 0, 0, 0⟩

def parseRats (s : String) : List Rat :=
  if s == "-" then [] else (s.splitOn ",").map parseRat

/-- `syn~corr;syn~corr;…` -/
def parsePairs (s : String) : List (List Nat × List Nat) :=
  if s == "-" then [] else
  (s.splitOn ";").map fun t =>
    match t.splitOn "~" with
    | [a, b] => (parseVec a, parseVec b)
    | _ => ([], [])

def mats (h lx lz : String) : CodeMats := ⟨parseStack h, parseStack lx, parseStack lz⟩

def showTrial (t : Trial) : String :=
  s!"{showVec t.syndrome},{showVec t.effectiveError},{if t.success then 1 else 0},{if t.codespace then 1 else 0}"

def showSummary (r : Summary) : String :=
  s!"{r.nSuccess},{r.nFail},{r.nRuns},{showOptRat r.pEst},{showOptRat r.seRadicand}"

def showState (s : State) : String :=
  s!"nruns={s.nRuns} eff={showStack s.effectiveError} succ={showBools s.success} " ++
  s!"code={showBools s.codespace} pos={s.pos}"

/-- the recorded decoder: trial `i` answers `corr i` when asked about `syn i` -/
def recorded (tbl : Array (List Nat × List Nat)) (i : Nat) (s : List Nat) : List Nat :=
  match tbl[i]? with
  | some (syn, corr) => if syn == s then corr else []
  | none => []

def lookupDec (tbl : List (List Nat × List Nat)) (s : List Nat) : List Nat :=
  match tbl.find? (·.1 == s) with
  | some (_, c) => c
  | none => []

def execOps (cfg : Config) (u : Nat → Rat) : List String → State → List String → List String
  | [], s, acc => (showState s :: acc).reverse
  | op :: ops, s, acc =>
    if op == "g" then execOps cfg u ops s (showSummary (getResults s) :: acc)
    else if op.startsWith "r" then
      match run cfg u (op.drop 1).toString.toNat! s with
      | .ok s' => execOps cfg u ops s' ("ok" :: acc)
      -- `run` raises before the state is touched (`C11.run_raises_iff`)
      | .error _ => execOps cfg u ops s ("ERR rate" :: acc)
    else execOps cfg u ops s ("bad" :: acc)

def handleSim : List String → Option String
  | ["trials", dt, h, lx, lz, rate, pairs] =>
    if !rateOk (parseRat rate) then some "ERR rate" else
    let c := mats h lx lz
    some (";".intercalate ((parsePairs pairs).map fun (e, corr) =>
      showTrial (classify (parseDT dt) c e (fun _ => corr))))
  | ["dsim", dt, h, lx, lz, rate, probs, us, pairs, ops] =>
    let ua := (parseRats us).toArray
    let u : Nat → Rat := fun i => ua[i]?.getD 0
    let cfg : Config := ⟨parseDT dt, mats h lx lz, parseProbs probs, parseRat rate,
                         recorded (parsePairs pairs).toArray⟩
    some (" ".intercalate (execOps cfg u (ops.splitOn ",") State.init []))
  | ["exactfail", dt, h, lx, lz, probs, table] =>
    some (showRat (exactFailProb (parseDT dt) (mats h lx lz) (parseProbs probs)
      (lookupDec (parsePairs table))))
  | ["sample", probs, u] =>
    match parseProbs probs with
    | [q] => some (String.singleton (samplePauli q (parseRat u)).toChar)
    | _ => some "bad"
  | _ => none

end Drv.Sim
