import Driver.Common
import PanqecVerif.Model.Sim
import PanqecVerif.Model.Spec
open Panqec

/-! ops for `Model/Sim.lean` (C11) and `Model/Spec.lean` (C13) -/
namespace Drv.Sim

open Panqec.Sim

def parseRat (s : String) : Rat :=
  match s.splitOn "/" with
  | [a] => (a.toInt?.getD 0 : Int)
  | [a, b] => mkRat (a.toInt?.getD 0) (b.toNat?.getD 1)
  | _ => 0

def showRat (q : Rat) : String := s!"{q.num}/{q.den}"

def showOptRat : Option Rat → String
  | none => "nan"
  | some q => showRat q

def showBools (l : List Bool) : String :=
  if l.isEmpty then "-" else String.ofList (l.map fun b => if b then '1' else '0')

def parseProbs (s : String) : List QubitProbs :=
  if s == "-" then [] else
  (s.splitOn ";").map fun q =>
    match (q.splitOn ",").map parseRat with
    | [a, b, c, d] => ⟨a, b, c, d⟩
    | _ => ⟨1, 0, 0, 0⟩

def parseRats (s : String) : List Rat :=
  if s == "-" then [] else (s.splitOn ",").map parseRat

/-- `syn~corr;syn~corr;…` -/
def parsePairs (s : String) : List (List Nat × List Nat) :=
  if s == "-" then [] else
  (s.splitOn ";").map fun t =>
    match t.splitOn "~" with
    | [a, b] => (parseVec a, parseVec b)
    | _ => ([], [])

def mats (h lx lz : String) : CodeMats := ⟨parseStack h, parseStack lx, parseStack lz⟩

def showTrial (t : Trial) : String :=
  s!"{showVec t.syndrome},{showVec t.effectiveError},{if t.success then 1 else 0},{if t.codespace then 1 else 0}"

def showSummary (r : Summary) : String :=
  s!"{r.nSuccess},{r.nFail},{r.nRuns},{showOptRat r.pEst},{showOptRat r.seRadicand}"

def showState (s : State) : String :=
  s!"nruns={s.nRuns} eff={showStack s.effectiveError} succ={showBools s.success} " ++
  s!"code={showBools s.codespace} pos={s.pos}"

/-- the recorded decoder: trial `i` answers `corr i` when asked about `syn i` -/
def recorded (tbl : Array (List Nat × List Nat)) (i : Nat) (s : List Nat) : List Nat :=
  match tbl[i]? with
  | some (syn, corr) => if syn == s then corr else []
  | none => []

def lookupDec (tbl : List (List Nat × List Nat)) (s : List Nat) : List Nat :=
  match tbl.find? (·.1 == s) with
  | some (_, c) => c
  | none => []

def execOps (cfg : Config) (u : Nat → Rat) : List String → State → List String → List String
  | [], s, acc => (showState s :: acc).reverse
  | op :: ops, s, acc =>
    if op == "g" then execOps cfg u ops s (showSummary (getResults s) :: acc)
    else if op.startsWith "r" then
      match run cfg u (op.drop 1).toString.toNat! s with
      | .ok s' => execOps cfg u ops s' ("ok" :: acc)
      -- `run` raises before the state is touched (`C11.run_raises_iff`)
      | .error _ => execOps cfg u ops s ("ERR rate" :: acc)
    else execOps cfg u ops s ("bad" :: acc)

def handle : List String → Option String
  | ["trials", dt, h, lx, lz, rate, pairs] =>
    if !rateOk (parseRat rate) then some "ERR rate" else
    let c := mats h lx lz
    some (";".intercalate ((parsePairs pairs).map fun (e, corr) =>
      showTrial (classify (parseDT dt) c e (fun _ => corr))))
  | ["dsim", dt, h, lx, lz, rate, probs, us, pairs, ops] =>
    let ua := (parseRats us).toArray
    let u : Nat → Rat := fun i => ua[i]?.getD 0
    let cfg : Config := ⟨parseDT dt, mats h lx lz, parseProbs probs, parseRat rate,
                         recorded (parsePairs pairs).toArray⟩
    some (" ".intercalate (execOps cfg u (ops.splitOn ",") State.init []))
  | ["exactfail", dt, h, lx, lz, probs, table] =>
    some (showRat (exactFailProb (parseDT dt) (mats h lx lz) (parseProbs probs)
      (lookupDec (parsePairs table))))
  | ["sample", probs, u] =>
    match parseProbs probs with
    | [q] => some (String.singleton (samplePauli q (parseRat u)).toChar)
    | _ => some "bad"
  | _ => none

end Drv.Sim

/-! ### C13: specifications -/
namespace Drv.Spec

open Panqec.Spec

def isDelim (c : Char) : Bool := c == ';' || c == ']' || c == '}' || c == '='

def unescape (s : String) : String := s.map fun c => if c == '~' then ' ' else c
def escape (s : String) : String := s.map fun c => if c == ' ' then '~' else c

/-- compact JSON-like syntax without spaces:
    `N` `T` `F` `i-3` `q1/8` `s:text` `[v;v]` `{k=v;k=v}` -/
partial def parseValue : List Char → Option (PV × List Char)
  | 'N' :: r => some (.none, r)
  | 'T' :: r => some (.bool true, r)
  | 'F' :: r => some (.bool false, r)
  | 'i' :: r =>
    let tok := r.takeWhile (!isDelim ·)
    (String.ofList tok).toInt?.map fun i => (.int i, r.drop tok.length)
  | 'q' :: r =>
    let tok := r.takeWhile (!isDelim ·)
    some (.num (Drv.Sim.parseRat (String.ofList tok)), r.drop tok.length)
  | 's' :: ':' :: r =>
    let tok := r.takeWhile (!isDelim ·)
    some (.str (unescape (String.ofList tok)), r.drop tok.length)
  | '[' :: ']' :: r => some (.list [], r)
  | '[' :: r => parseItems r []
  | '{' :: '}' :: r => some (.dict [], r)
  | '{' :: r => parseFields r []
  | _ => none
where
  parseItems (cs : List Char) (acc : List PV) : Option (PV × List Char) :=
    match parseValue cs with
    | some (v, ';' :: r) => parseItems r (v :: acc)
    | some (v, ']' :: r) => some (.list (v :: acc).reverse, r)
    | _ => none
  parseFields (cs : List Char) (acc : List (String × PV)) : Option (PV × List Char) :=
    let key := cs.takeWhile (· != '=')
    match cs.drop key.length with
    | '=' :: r =>
      match parseValue r with
      | some (v, ';' :: r') => parseFields r' ((unescape (String.ofList key), v) :: acc)
      | some (v, '}' :: r') => some (.dict ((unescape (String.ofList key), v) :: acc).reverse, r')
      | _ => none
    | _ => none

def parsePV (s : String) : Option PV :=
  match parseValue s.toList with
  | some (v, []) => some v
  | _ => none

partial def showPV : PV → String
  | .none => "N"
  | .bool true => "T"
  | .bool false => "F"
  | .int i => s!"i{i}"
  | .num q => s!"q{q.num}/{q.den}"
  | .str s => "s:" ++ escape s
  | .list l => "[" ++ ";".intercalate (l.map showPV) ++ "]"
  | .dict d => "{" ++ ";".intercalate (d.map fun (k, v) => escape k ++ "=" ++ showPV v) ++ "}"

def showOptStr : Option String → String
  | none => "N"
  | some s => "s:" ++ escape s

def sortKeys (d : List (String × PV)) : List (String × PV) :=
  d.mergeSort fun a b => !(b.1 < a.1)

def showInst (i : Inst) : String := i.cls ++ showPV (.dict (sortKeys i.params))

def showSim (s : SimT) : String :=
  s!"{showInst s.code}|{showInst s.noise}|{showInst s.decoder}|{showPV s.errorRate}" ++
    (if s.splitting then "|splitting" else "")

def showErr : Err → String
  | .key => "ERR key" | .type => "ERR type" | .value => "ERR value"
  | .unbound => "ERR unbound" | .unsupported => "ERR unsupported"

def field (d : List (String × PV)) (k : String) : Option PV := lookupKw d k

def asStr : PV → Option String
  | .str s => some s
  | _ => none

def toBlock : PV → Option Block
  | .dict d => some ⟨(field d "name").bind asStr, field d "parameters"⟩
  | _ => none

/-- `none` = the value has a shape the model does not describe -/
def optBlock (d : List (String × PV)) (k : String) : Option (Option Block) :=
  match field d k with
  | none => some none
  | some v => (toBlock v).map some

def toRanges : PV → Option Ranges
  | .dict d => do
    let code ← optBlock d "code"
    let noise ← optBlock d "error_model"
    let dec ← optBlock d "decoder"
    let meth : Option Method := match field d "method" with
      | some (.dict m) => some ⟨(field m "name").bind asStr, field m "parameters"⟩
      | _ => none
    let inner : Option (Option String) := match field d "ranges" with
      | some (.dict r) => some ((field r "label").bind asStr)
      | _ => none
    some ⟨(field d "label").bind asStr, meth, code, noise, dec, field d "error_rate", inner⟩
  | _ => none

def toRun : PV → Option Run
  | .dict d => do
    let code ← optBlock d "code"
    let noise ← optBlock d "error_model"
    let dec ← optBlock d "decoder"
    some ⟨code, noise, dec, field d "error_rate"⟩
  | _ => none

def toSpec : PV → Option Spec
  | .dict d => do
    let ranges : Option RangesField ← match field d "ranges" with
      | none => some none
      | some (.list l) => (l.mapM toRanges).map fun rs => some (.many rs)
      | some v => (toRanges v).map fun r => some (.single r)
    let runs : Option (List Run) ← match field d "runs" with
      | none => some none
      | some (.list l) => (l.mapM toRun).map some
      | some _ => none
    some ⟨ranges, runs⟩
  | _ => none

def showRunOut (r : RunOut) : String :=
  s!"{showOptStr r.codeName}|{showPV r.codeParams}|{showOptStr r.noiseName}|{showPV r.noiseParams}|" ++
  s!"{showOptStr r.decoderName}|{showPV r.decoderParams}|{showPV r.errorRate}"

def showRuns : Except Err (List RunOut) → String
  | .error e => showErr e
  | .ok rs => " ".intercalate (s!"n={rs.length}" :: rs.map showRunOut)

def handle : List String → Option String
  | ["sims", spec] =>
    match (parsePV spec).bind toSpec with
    | none => some "bad-spec"
    | some s =>
      some (match readInputDict s with
        | .error e => showErr e
        | .ok b => " ".intercalate
            (s!"label={escape b.label}" :: s!"method={escape b.method}" :: s!"n={b.sims.length}" ::
              b.sims.map showSim))
  | ["expand", ranges] =>
    match (parsePV ranges).bind toRanges with
    | none => some "bad-spec"
    | some r => some (showRuns (expandInputRanges r))
  | ["getruns", spec] =>
    match (parsePV spec).bind toSpec with
    | none => some "bad-spec"
    | some s => some (showRuns (getRuns s))
  | ["reinst", kind, blk] =>
    match (parsePV blk).bind toBlock with
    | none => some "bad-spec"
    | some b =>
      let r := if kind == "code" then instCode b else if kind == "noise" then instNoise b
               else instDecoder b
      some (match r with
        | .error e => showErr e
        | .ok i => showInst i)
  | ["find", keys, target] =>
    let ks := if keys == "-" then [] else keys.splitOn ";"
    let data := ks.zipIdx
    some (match findCurrent data target with
      | some (_, i) => toString i
      | none => "-1")
  | _ => none

end Drv.Spec

/-- the handler `Driver/Main.lean` registers for this file (C11 ops, then C13 ops) -/
def Drv.handleSim (toks : List String) : Option String :=
  match Drv.Sim.handle toks with
  | some r => some r
  | none => Drv.Spec.handle toks
