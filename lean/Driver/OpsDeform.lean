import Driver.Common
import Driver.OpsCode
import PanqecVerif.Model.Deform
open Panqec

/-! ops for `Model/Deform.lean`: the `deform` object-history state machine (C08) -/
namespace Drv

def showOptStack : Option (List (List Nat)) → String
  | none => "ERR key"
  | some m => showStack m

/-- steps separated by `/`: `d=<table>` (deform with the per-coordinate table), `aH`, `aX`, `aZ` -/
def parseSteps (s : String) : List Deform.Step :=
  if s == "_" then []
  else (s.splitOn "/").filterMap fun t =>
    if t == "aH" then some .accessH
    else if t == "aX" then some .accessLx
    else if t == "aZ" then some .accessLz
    else if t.startsWith "d=" then
      let tbl := parseDeform (t.drop 2).toString
      some (.deform (lookupDeform tbl))
    else none

def handleDeform : List String → Option String
  | ["objrun", qs, ops, lx, lz, steps] =>
    let c : CodeData := { qubits := parseCoords qs, stabs := [], stabOps := parseOps ops,
                          logX := parseOps lx, logZ := parseOps lz }
    let o := Deform.Obj.run false (Deform.Obj.init c) (parseSteps steps)
    let m := o.observe
    some s!"{showOptStack m.H} {showOptStack m.Lx} {showOptStack m.Lz}"
  | _ => none

end Drv
