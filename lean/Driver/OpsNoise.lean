import Driver.Common
import PanqecVerif.Model.Noise
open Panqec

/-! ops for `Model/Noise.lean` (C07, C18).

Rationals are written `num/den` (always with a denominator, lowest terms, sign on the
numerator).  A channel is six tokens `p rx ry rz n dspec`; `dspec` is `-` (error model
without deformation name) or a comma-separated list with one three-letter word per qubit:
the images of X, Y, Z under the dict `get_deformation` returned for that qubit. -/
namespace Drv

def parseRat (s : String) : Option Rat :=
  match s.splitOn "/" with
  | [a] => a.toInt?.map fun i => (i : Rat)
  | [a, b] =>
    match a.toInt?, b.toNat? with
    | some i, some d => if d = 0 then none else some ((i : Rat) / (d : Rat))
    | _, _ => none
  | _ => none

def showRat (q : Rat) : String := s!"{q.num}/{q.den}"

def parseRats (s : String) : Option (List Rat) :=
  if s == "-" then some [] else (s.splitOn ",").mapM parseRat

def showRats (l : List Rat) : String :=
  if l.isEmpty then "-" else ",".intercalate (l.map showRat)

def parseMap (s : String) : Option PauliMap :=
  match s.toList.mapM Pauli.ofChar? with
  | some [a, b, c] => some ⟨a, b, c⟩
  | _ => none

def parseDspec (s : String) : Option (Option (List PauliMap)) :=
  if s == "-" then some none
  else if s == "_" then some (some [])
  else ((s.splitOn ",").mapM parseMap).map some

/-- `some (some ds)` = distribution, `some none` = the implementation raises KeyError,
    `none` = unparsable op -/
def parseChannel (p rx ry rz n d : String) : Option (Option (List Dist)) :=
  match parseRat p, parseRat rx, parseRat ry, parseRat rz, n.toNat?, parseDspec d with
  | some p, some rx, some ry, some rz, some n, some Ds =>
    some (probabilityDistribution p rx ry rz n Ds)
  | _, _, _, _, _, _ => none

def showDist (d : Dist) : String :=
  ",".intercalate [showRat d.i, showRat d.x, showRat d.y, showRat d.z]

def showOdds : Option Rat → String
  | none => "inf"
  | some q => showRat q

def showOddsList (l : List (Option Rat)) : String :=
  if l.isEmpty then "-" else ",".intercalate (l.map showOdds)

def showUpd : UpdVal → String
  | .val q => showRat q
  | .inf => "inf"
  | .neginf => "-inf"
  | .nan => "nan"

def showUpds (l : List UpdVal) : String :=
  if l.isEmpty then "-" else ",".intercalate (l.map showUpd)

def showSector : Sector → String
  | .Hx => "Hx" | .Hz => "Hz"

def showBpDec : BpDec → String
  | .x => "x" | .z => "z" | .joint => "joint"

def showBpCall : BpCall → String
  | .update d ps => s!"upd.{showBpDec d}:{showUpds ps}"
  | .decode d => s!"dec.{showBpDec d}"

def parseErrType (s : String) : Option ErrType :=
  if s == "None" then some .both else if s == "X" then some .X
  else if s == "Z" then some .Z else none

def parseDir (s : String) : Option UpdDir :=
  if s == "z->x" then some .zToX else if s == "x->z" then some .xToZ else none

/-- run `f` on a parsed channel; KeyError and parse failures are reported uniformly -/
def withChannel (p rx ry rz n d : String) (f : List Dist → String) : String :=
  match parseChannel p rx ry rz n d with
  | none => "bad-args"
  | some none => "ERR KeyError"
  | some (some ds) => f ds

def handleNoise : List String → Option String
  | ["n.dist", p, rx, ry, rz, n, d] =>
    some (withChannel p rx ry rz n d fun ds =>
      if ds.isEmpty then "-" else ";".intercalate (ds.map showDist))
  | ["n.choice", u, pi, px, py, pz] =>
    some (match parseRat u, parseRat pi, parseRat px, parseRat py, parseRat pz with
      | some u, some a, some b, some c, some d =>
        String.singleton (fastChoice u ⟨a, b, c, d⟩).toChar
      | _, _, _, _, _ => "bad-args")
  | ["n.gen", p, rx, ry, rz, n, d, us] =>
    some (withChannel p rx ry rz n d fun ds =>
      match parseRats us with
      | some us => showVec (generate ds us)
      | none => "bad-args")
  | ["n.pvec", p, rx, ry, rz, n, d, e] =>
    some (withChannel p rx ry rz n d fun ds =>
      match probVector ds (parseVec e) with
      | some v => showRats v
      | none => "ERR shape")
  | ["n.eprob", p, rx, ry, rz, n, d, e] =>
    some (withChannel p rx ry rz n d fun ds =>
      match errorProbability ds (parseVec e) with
      | some v => showRat v
      | none => "ERR shape")
  | ["n.weights", p, rx, ry, rz, n, d] =>
    some (withChannel p rx ry rz n d fun ds =>
      let w := getWeightOdds ds
      s!"{showOddsList w.1}|{showOddsList w.2}")
  | ["n.match", t, p, rx, ry, rz, n, d] =>
    some (withChannel p rx ry rz n d fun ds =>
      match parseErrType t with
      | none => "ERR error_type"
      | some t =>
        let calls := matchingCalls t ds
        ";".intercalate (calls.map fun c => s!"{showSector c.1}:{showOddsList c.2}"))
  | ["n.upd", dir, corr, pxs, pys, pzs] =>
    some (match parseRats pxs, parseRats pys, parseRats pzs with
      | some pxs, some pys, some pzs =>
        match parseDir dir with
        | none => "ERR direction"
        | some dir =>
          match updateProbabilities dir (parseVec corr) pxs pys pzs with
          | some v => showUpds v
          | none => "ERR IndexError"
      | _, _, _ => "bad-args")
  | ["n.bpcss", cu, p, rx, ry, rz, n, d, zc, xc] =>
    some (withChannel p rx ry rz n d fun ds =>
      match bposdCss (cu == "1") ds (parseVec zc) (parseVec xc) with
      | none => "ERR IndexError"
      | some (calls, corr) => ";".intercalate (calls.map showBpCall) ++ " -> " ++ showVec corr)
  | ["n.bpnon", p, rx, ry, rz, n, d, c] =>
    some (withChannel p rx ry rz n d fun ds =>
      let (calls, corr) := bposdNonCss ds (parseVec c)
      ";".intercalate (calls.map showBpCall) ++ " -> " ++ showVec corr)
  | ["n.letters", p, rx, ry, rz, n, d, idx] =>
    some (withChannel p rx ry rz n d fun ds =>
      match idx.toNat?.bind (ds[·]?) with
      | none => "ERR index"
      | some dq => showPaulis (proposalLetters dq))
  | ["n.split", p, rx, ry, rz, n, d, prev, idx, σ] =>
    some (withChannel p rx ry rz n d fun ds =>
      match idx.toNat?, parsePaulis σ with
      | some idx, some [σ] =>
        match splittingStep ds (parseVec prev) idx σ with
        | some (e, q) => s!"{showVec e} {showRat q}"
        | none => "ERR shape"
      | _, _ => "bad-args")
  | _ => none

end Drv
