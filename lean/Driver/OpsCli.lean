import PanqecVerif.Model.Cli
import Driver.Common
open Panqec Panqec.Cli

/-! ops for `Model/Cli.lean` (C14: `plan`; C19: `range`, `etas`, `dir`, `geninput`, `readback`) -/
namespace Drv

def showPlanErr : PlanErr → String
  | .assertJob => "ERR assert-job"
  | .assertCores => "ERR assert-cores"
  | .noInputs => "ERR no-inputs"
  | .zeroDivision => "ERR zerodiv"

def showTask (t : Task) : String :=
  s!"{t.input}:{t.nRuns}:{String.ofList t.resultFile}:{String.ofList t.logFile}"

def showCliErr : CliErr → String
  | .value => "ERR value"
  | .zeroDivision => "ERR zerodiv"
  | .index => "ERR index"

def showRatCli (q : Rat) : String := s!"{q.num}/{q.den}"

def showRatsCli (vs : List Rat) : String :=
  if vs.isEmpty then "-" else ",".intercalate (vs.map showRatCli)

def hexVal (c : Char) : Nat :=
  if '0' ≤ c && c ≤ '9' then c.toNat - 48
  else if 'a' ≤ c && c ≤ 'f' then c.toNat - 87
  else if 'A' ≤ c && c ≤ 'F' then c.toNat - 55
  else 0

/-- percent-decoding of an op token (the harness quotes every string argument) -/
def pctDecode : List Char → List Char
  | '%' :: a :: b :: rest => Char.ofNat (16 * hexVal a + hexVal b) :: pctDecode rest
  | c :: rest => c :: pctDecode rest
  | [] => []

/-- optional argument: `~` = None, `=<quoted>` = a value -/
def optArg (s : String) : Option (List Char) :=
  match s.toList with
  | '=' :: r => some (pctDecode r)
  | _ => none

def showEta (e : Eta) : String :=
  match e with
  | .inf => "inf"
  | .int v => s!"i{v}"
  | .flt .. => "f" ++ String.ofList e.str ++ "=" ++ (match e.toRat? with | some q => showRatCli q | none => "?")

def showDir : Option Direction → String
  | none => "{}"
  | some d => s!"r_x={showRatCli d.rx} r_y={showRatCli d.ry} r_z={showRatCli d.rz}"

def showParams (ps : List (List Char × Nat)) : String :=
  "{" ++ ",".intercalate (ps.map fun (k, v) => String.ofList k ++ s!"={v}") ++ "}"

def showOpt : Option (List Char) → String
  | none => "None"
  | some s => "=" ++ String.ofList s

def showSpec (sp : InputSpec) : String :=
  "label=" ++ String.ofList sp.label ++
  "|method=" ++ String.ofList sp.methodName ++ showParams sp.methodParams ++
  "|code=" ++ showOpt sp.codeName ++ "[" ++
    ",".intercalate (sp.codeParams.map fun (x, y, z) => s!"{x}x{y}x{z}") ++ "]" ++
  "|noise=" ++ String.ofList sp.noiseName ++ "{" ++ showDir sp.direction ++ "}" ++
  "|deformation=" ++ showOpt sp.deformationName ++
  "|decoder=" ++ String.ofList sp.decoderName ++ showParams sp.decoderParams ++
  "|rates=" ++ showRatsCli sp.errorRates

/-- rates of one simulation in ascending order (a SplittingSimulation sorts them itself) -/
def showSim : SimKey → String
  | (c, rs) =>
    let known := (rs.filterMap id).mergeSort (fun a b => a ≤ b)
    let unknown := rs.filter Option.isNone
    (match c with | none => "{}" | some (x, y, z) => s!"{x}x{y}x{z}") ++ "@" ++
    ",".intercalate (unknown.map (fun _ => "{}") ++ known.map showRatCli)

def sortFiles (fs : List (List Char × InputSpec)) : List (List Char × InputSpec) :=
  fs.mergeSort fun a b => String.ofList a.1 ≤ String.ofList b.1

def mkArgs (sizes dec bias eta prob code noise deform method label : String) : GenArgs :=
  { sizes := pctDecode sizes.toList, decoderClass := pctDecode dec.toList
    bias := bias.toList.headD '?', eta := pctDecode eta.toList, prob := pctDecode prob.toList
    codeClass := optArg code, noiseClass := pctDecode noise.toList
    deformationName := optArg deform, method := pctDecode method.toList, label := optArg label }

def handleCli : List String → Option String
  -- plan <n_inputs> <n_nodes> <n_cores option, 0 = absent> <cpu_count> <trials> <job_idx>
  | ["plan", i, n, c, cpu, t, job] =>
    some (match runParallel i.toNat! n.toNat! c.toNat! cpu.toNat! t.toNat! job.toNat! with
      | .error e => showPlanErr e
      | .ok ts => if ts.isEmpty then "-" else ";".intercalate (ts.map showTask))
  | ["range", spec] =>
    some (match readRange (pctDecode spec.toList) with
      | .error e => showCliErr e
      | .ok vs => showRatsCli vs)
  | ["etas", str] =>
    some (match readBiasRatios (pctDecode str.toList) with
      | .error e => showCliErr e
      | .ok es => if es.isEmpty then "-" else ",".intercalate (es.map showEta))
  | ["dir", p, tok] =>
    some (match parseEta (pctDecode tok.toList) with
      | .error e => showCliErr e
      | .ok eta => match getDirection (p.toList.headD '?') eta with
        | .error e => showCliErr e
        | .ok d => showDir d)
  | ["geninput", sizes, dec, bias, eta, prob, code, noise, deform, method, label] =>
    let a := mkArgs sizes dec bias eta prob code noise deform method label
    let (ws, err) := generateInput a
    let files := sortFiles (finalFiles ws)
    some (s!"writes={ws.length} " ++ " ;; ".intercalate (files.map fun (n, sp) => String.ofList n ++ "|" ++ showSpec sp)
      ++ (match err with | none => "" | some e => " ;; " ++ showCliErr e))
  | ["readback", sizes, dec, bias, eta, prob, code, noise, deform, method, label] =>
    let a := mkArgs sizes dec bias eta prob code noise deform method label
    let (ws, _) := generateInput a
    let files := sortFiles (finalFiles ws)
    some (" ;; ".intercalate (files.map fun (n, sp) =>
      String.ofList n ++ "|" ++ String.ofList sp.label ++ "|" ++ String.ofList sp.methodName ++ "|" ++
        (let sims := expand sp
         s!"{sims.length}:" ++ " ".intercalate (sims.map showSim))))
  | _ => none

end Drv
