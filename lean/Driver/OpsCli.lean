import PanqecVerif.Model.Cli
import Driver.Common
open Panqec Panqec.Cli

/-! ops for `Model/Cli.lean` (C14: `plan`) -/
namespace Drv

def showPlanErr : PlanErr → String
  | .assertJob => "ERR assert-job"
  | .assertCores => "ERR assert-cores"
  | .noInputs => "ERR no-inputs"
  | .zeroDivision => "ERR zerodiv"

def showTask (t : Task) : String :=
  s!"{t.input}:{t.nRuns}:{String.ofList t.resultFile}:{String.ofList t.logFile}"

def handleCli : List String → Option String
  -- plan <n_inputs> <n_nodes> <n_cores option, 0 = absent> <cpu_count> <trials> <job_idx>
  | ["plan", i, n, c, cpu, t, job] =>
    some (match runParallel i.toNat! n.toNat! c.toNat! cpu.toNat! t.toNat! job.toNat! with
      | .error e => showPlanErr e
      | .ok ts => if ts.isEmpty then "-" else ";".intercalate (ts.map showTask))
  | _ => none

end Drv
