import Driver.ColorCommon
import PanqecVerif.Model.Lattices.Color3DCode
open Panqec

/-! `lat Color3DCode <Lx> <Ly> <Lz> qubits|stabs|stab <coord>|logx|logz|axis <coord>|
    type <coord>|deform <name> <coord>|hmat|lxmat|lzmat|bundle|n|k|rankfamilyz` -/
namespace Drv

def color3DCodeModel (Lx Ly Lz : Nat) : ColorModel where
  lat := fun _ => Color3DCode.lattice Lx Ly Lz
  getStabilizer? := Color3DCode.getStabilizer? Lx Ly Lz
  stabilizerType := fun c => (Color3DCode.stabilizerType Lx Ly Lz c).map (·.toString)
  qubitAxis := Color3DCode.qubitAxis
  getDeformation := Color3DCode.getDeformation

def handleLatColor3DCode : List String → Option String
  | "lat" :: "Color3DCode" :: lx :: ly :: lz :: rest =>
    match lx.toNat?, ly.toNat?, lz.toNat? with
    | some Lx, some Ly, some Lz =>
      match rest with
      | ["rankfamilyz"] =>
        let cs := Color3DCode.selCells Lx Ly Lz
        some (if cs.isEmpty then "_" else ";".intercalate (cs.map showCoord))
      | _ => colorAnswer (color3DCodeModel Lx Ly Lz) rest
    | _, _, _ => none
  | _ => none

end Drv
