import Driver.OpsNoise
import PanqecVerif.Generated.Gui
import PanqecVerif.Generated.GuiRoutes
import PanqecVerif.Model.GuiRoutesLib
open Panqec Panqec.Gui Panqec.GuiRepr Panqec.GuiRoutes

/-! ops for the library routes of the visualizer backend (C20): `guiroute <what> … <field>*`.
    A request field is one token `key:T:value` — `i` int, `s` string (`~` for a blank), `d` decimal
    `m/e` (= m / 10^e), `n` null, `b` bool, `l` list of ints (comma separated, may be empty); an
    absent field is simply not sent. -/
namespace Drv

def grParseField (tok : String) : Option (String × JV) :=
  match tok.splitOn ":" with
  | key :: typ :: rest =>
    let v := ":".intercalate rest
    match typ with
    | "i" => v.toInt?.map fun i => (key, JV.i i)
    | "s" => some (key, .str (v.replace "~" " "))
    | "d" => match v.splitOn "/" with
      | [m, e] => match m.toInt?, e.toNat? with
        | some m, some e => some (key, JV.d m e)
        | _, _ => none
      | _ => none
    | "n" => some (key, .null)
    | "b" => some (key, .bool (v == "1"))
    | "l" => if v == "" then some (key, .arr []) else
        ((v.splitOn ",").mapM fun (t : String) => t.toInt?).map fun l => (key, JV.ints l)
    | _ => none
  | _ => none

def grParseReq (toks : List String) : Option Req := toks.mapM grParseField

def grInts (s : String) : Option (List Int) :=
  if s == "-" then some [] else (s.splitOn ",").mapM fun (t : String) => t.toInt?

def grRat (q : Rat) : String := if q.den == 1 then toString q.num else s!"{q.num}/{q.den}"

def grKw (kw : List (String × JV)) : String :=
  if kw.isEmpty then "-" else ";".intercalate (kw.map fun (k, v) => k ++ "=" ++ v.render)

def grCode (c : CodeSel) : String :=
  c.cls ++ "(" ++ ",".intercalate (c.args.map JV.render) ++ ") deform=" ++
    (match c.deformation with | none => "-" | some d => d.render)

def grRes : Except String JV → String
  | .ok v => v.render
  | .error e => "ERR " ++ e

def grNames : Except String (List String) → String
  | .ok l => if l.isEmpty then "-" else "|".intercalate l
  | .error e => "ERR " ++ e

abbrev gCodes := Panqec.Generated.Gui.codes
abbrev gDecs := Panqec.Generated.Gui.decoders
abbrev gDirs := Panqec.Generated.GuiRoutes.noiseDirections

def handleGuiRoutes : List String → Option String
  | "guiroute" :: "decodesel" :: fields =>
    match grParseReq fields with
    | none => some "ERR parse"
    | some req => some (match selectDecode gCodes gDecs gDirs req with
      | .error e => "ERR " ++ e
      | .ok s => s!"cls={s.decoderCls} code={grCode s.code} dir={grRat s.direction.1},{grRat s.direction.2.1},{grRat s.direction.2.2} nd={s.noiseDeformation.render} p={s.p.render} kw={grKw s.kwargs} syn={s.syndrome.render}")
  | "guiroute" :: "noisesel" :: fields =>
    match grParseReq fields with
    | none => some "ERR parse"
    | some req => some (match selectNoise gCodes gDirs req with
      | .error e => "ERR " ++ e
      | .ok s => s!"code={grCode s.code} dir={grRat s.direction.1},{grRat s.direction.2.1},{grRat s.direction.2.2} nd={s.noiseDeformation.render} p={s.p.render}")
  | "guiroute" :: "decode" :: n :: corr :: fields =>
    match grParseReq fields, n.toNat?, grInts corr with
    | some req, some n, some corr => some (grRes (sendCorrection (recLib n corr []) gCodes gDecs gDirs req))
    | _, _, _ => some "ERR parse"
  | "guiroute" :: "newerrors-planted" :: n :: errs :: fields =>
    match grParseReq fields, n.toNat?, grInts errs with
    | some req, some n, some errs => some (grRes (sendRandomErrors (recLib n [] errs) gCodes gDirs req))
    | _, _, _ => some "ERR parse"
  | "guiroute" :: "newerrors" :: us :: fields =>
    match grParseReq fields, parseRats us with
    | some req, some us =>
      some (grRes (sendRandomErrors (modelLib us fun _ _ => .error "unsupported") gCodes gDirs req))
    | _, _ => some "ERR parse"
  | "guiroute" :: "decodernames" :: fields =>
    match grParseReq fields with
    | none => some "ERR parse"
    | some req => some (grNames (sendDecoderNames gCodes gDecs req))
  | "guiroute" :: "codenames" :: fields =>
    match grParseReq fields with
    | none => some "ERR parse"
    | some req => some (grNames (sendCodeNames gCodes req))
  | _ => none

end Drv
