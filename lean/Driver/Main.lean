import PanqecVerif.Model.Bits
import PanqecVerif.Model.Code
open Panqec

/-! Line protocol: one operation per input line, one output line per input line. -/

namespace Drv

def parseVec (s : String) : List Nat :=
  if s == "-" then []
  else if s.contains ',' || s.startsWith "v:" then
    let body := if s.startsWith "v:" then (s.drop 2).toString else s
    (body.splitOn ",").filterMap fun t => t.toNat?
  else s.toList.map fun c => c.toNat - '0'.toNat

def parseStack (s : String) : List (List Nat) :=
  if s == "_" then [] else (s.splitOn "|").map parseVec

def showVec (v : List Nat) : String :=
  if v.isEmpty then "-"
  else if v.all (· < 10) then String.ofList (v.map fun d => Char.ofNat (d + '0'.toNat))
  else "v:" ++ ",".intercalate (v.map toString)

def showStack (m : List (List Nat)) : String :=
  if m.isEmpty then "_" else "|".intercalate (m.map showVec)

def parseDT (s : String) : DType := if s == "u8" then .u8 else .wide

def showErr : BsErr → String
  | .oddLength => "ERR odd"
  | .lengthMismatch => "ERR mismatch"

def parsePaulis (s : String) : Option (List Pauli) :=
  if s == "-" then some [] else s.toList.mapM Pauli.ofChar?

def showPaulis (ps : List Pauli) : String :=
  if ps.isEmpty then "-" else String.ofList (ps.map Pauli.toChar)

def handleBits : List String → Option String
  | ["bsprod", dt, sp, ad, bd, a, b] =>
    let r := bsProdFull (parseDT dt) (sp == "1") ad.toNat! bd.toNat! (parseStack a) (parseStack b)
    some (match r with
      | .error e => showErr e
      | .ok (shape, data) => s!"{showVec shape} {showVec data}")
  | ["symp", a, b] => some (toString (symp (parseVec a) (parseVec b)))
  | ["p2b", p] => some ((parsePaulis p).elim "ERR pauli" fun ps => showVec (pauliToBsf ps))
  | ["b2p", v] => some (showPaulis (bsfToPauli (parseVec v)))
  | ["wt", v] => some (toString (bsfWt (parseVec v)))
  | ["b2i", v] => some (toString (bvectorToInt (parseVec v)))
  | ["i2b", k, n] => some (showVec (intToBvector k.toNat! n.toNat!))
  | ["brank", m] => some (toString (brank (parseStack m)))
  | ["gf2rank", rows] => some (toString (gf2Rank (parseVec rows)))
  | ["applydef", flags, v] =>
    some (match applyDeformation ((parseVec flags).map (· != 0)) (parseVec v) with
      | none => "ERR shape"
      | some r => showVec r)
  | _ => none

end Drv

def handle (line : String) : String :=
  let toks := (line.trimAscii.toString.splitOn " ").filter (· ≠ "")
  match Drv.handleBits toks with
  | some r => r
  | none => "bad-op"

partial def loop (h : IO.FS.Stream) (out : IO.FS.Stream) : IO Unit := do
  let line ← h.getLine
  if line.isEmpty then return ()
  out.putStrLn (handle line)
  loop h out

def main : IO Unit := do
  let out ← IO.getStdout
  loop (← IO.getStdin) out
  out.flush
