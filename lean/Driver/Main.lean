import Std.Data.HashMap
import Driver.Common
import Driver.OpsAnalysis
import Driver.OpsAnalysisWindow
import Driver.OpsBSparse
import Driver.OpsBatch
import Driver.OpsBits
import Driver.OpsCli
import Driver.OpsCode
import Driver.OpsDecoders
import Driver.OpsDeform
import Driver.OpsDist
import Driver.OpsGui
import Driver.OpsGuiRepr
import Driver.OpsGuiRoutes
import Driver.OpsLatColor3DCode
import Driver.OpsLatColor488Code
import Driver.OpsLatColor666PlanarCode
import Driver.OpsLatColor666ToricCode
import Driver.OpsLatHollowPlanar3DCode
import Driver.OpsLatHollowRhombicCode
import Driver.OpsLatPlanar2DCode
import Driver.OpsLatPlanar3DCode
import Driver.OpsLatRhombicPlanarCode
import Driver.OpsLatRhombicToricCode
import Driver.OpsLatRotatedPlanar2DCode
import Driver.OpsLatRotatedPlanar3DCode
import Driver.OpsLatRotatedToric3DCode
import Driver.OpsLatToric2DCode
import Driver.OpsLatToric3DCode
import Driver.OpsLatXCubeCode
import Driver.OpsMask
import Driver.OpsMbp
import Driver.OpsNoise
import Driver.OpsRunFile
import Driver.OpsSim
import Driver.OpsSplitting
import Driver.OpsSweep
import Driver.OpsUnionFind
import Driver.OpsUtilsPure
import Driver.OpsXCube
open Panqec

/-! Line protocol: one operation per input line, one output line per input line.
    Each `Driver/Ops*.lean` contributes a handler `List String → Option String`
    (`none` = not my op); the first that answers wins. -/

def handlers : List (List String → Option String) :=
  [Drv.handleAnalysis, Drv.handleAnalysisWindow, Drv.handleBSparse, Drv.handleBatch, Drv.handleBits, Drv.handleCli, Drv.handleCode, Drv.handleDecoders, Drv.handleDeform, Drv.handleDist, Drv.handleGui, Drv.handleGuiRepr, Drv.handleGuiRoutes, Drv.handleLatColor3DCode, Drv.handleLatColor488Code, Drv.handleLatColor666PlanarCode, Drv.handleLatColor666ToricCode, Drv.handleLatHollowPlanar3DCode, Drv.handleLatHollowRhombicCode, Drv.handleLatPlanar2DCode, Drv.handleLatPlanar3DCode, Drv.handleLatRhombicPlanarCode, Drv.handleLatRhombicToricCode, Drv.handleLatRotatedPlanar2DCode, Drv.handleLatRotatedPlanar3DCode, Drv.handleLatRotatedToric3DCode, Drv.handleLatToric2DCode, Drv.handleLatToric3DCode, Drv.handleLatXCubeCode, Drv.handleMask, Drv.handleMbp, Drv.handleNoise, Drv.handleRunFile, Drv.handleSim, Drv.handleSplitting, Drv.handleSweep, Drv.handleUnionFind, Drv.handleUtilsPure, Drv.handleXCube]

def handleToks (toks : List String) : String :=
  match handlers.findSome? (fun h => h toks) with
  | some r => r
  | none => "bad-op"

/-- `set NAME value` stores a token; later tokens `$NAME` are replaced by it
    (keeps long matrices out of repeated lines). -/
partial def loop (h : IO.FS.Stream) (out : IO.FS.Stream)
    (vars : Std.HashMap String String) : IO Unit := do
  let line ← h.getLine
  if line.isEmpty then return ()
  let toks := (line.trimAscii.toString.splitOn " ").filter (· ≠ "")
  match toks with
  | ["set", name, value] =>
    out.putStrLn "ok"
    loop h out (vars.insert name value)
  | _ =>
    let toks := toks.map fun t =>
      if t.startsWith "$" then (vars.get? (t.drop 1).toString).getD t else t
    out.putStrLn (handleToks toks)
    loop h out vars

def main : IO Unit := do
  let out ← IO.getStdout
  loop (← IO.getStdin) out {}
  out.flush
