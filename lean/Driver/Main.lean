import Driver.Common
import Driver.OpsBits
import Driver.OpsDecoders
open Panqec

/-! Line protocol: one operation per input line, one output line per input line.
    Each `Driver/Ops*.lean` contributes a handler `List String → Option String`
    (`none` = not my op); the first that answers wins. -/

def handlers : List (List String → Option String) :=
  [Drv.handleBits, Drv.handleDecoders]

def handle (line : String) : String :=
  let toks := (line.trimAscii.toString.splitOn " ").filter (· ≠ "")
  match handlers.findSome? (fun h => h toks) with
  | some r => r
  | none => "bad-op"

partial def loop (h : IO.FS.Stream) (out : IO.FS.Stream) : IO Unit := do
  let line ← h.getLine
  if line.isEmpty then return ()
  out.putStrLn (handle line)
  loop h out

def main : IO Unit := do
  let out ← IO.getStdout
  loop (← IO.getStdin) out
  out.flush
