import Driver.ColorCommon
import PanqecVerif.Model.Lattices.Color666ToricCode
open Panqec

/-! `lat Color666ToricCode <Lx> <Ly> qubits|stabs|stab <coord>|logx|logz|axis <coord>|
    type <coord>|deform <name> <coord>|hmat|lxmat|lzmat|rankfamily|n|k` -/
namespace Drv

def color666ToricCodeModel (Lx Ly : Nat) : ColorModel where
  lat := fun _ => Color666ToricCode.lattice Lx Ly
  getStabilizer? := Color666ToricCode.getStabilizer? Lx Ly
  stabilizerType := Color666ToricCode.stabilizerType Lx Ly
  qubitAxis := Color666ToricCode.qubitAxis
  getDeformation := Color666ToricCode.getDeformation
  -- the family `sel L` of `C01Color666ToricCode.rank_family` (square sizes `L × L`; asked for `Lx = Ly` only)
  rankFamily := fun _ => some (Color666ToricCode.sel Lx)

def handleLatColor666ToricCode : List String → Option String
  | "lat" :: "Color666ToricCode" :: lx :: ly :: rest =>
    match lx.toNat?, ly.toNat? with
    | some Lx, some Ly => colorAnswer (color666ToricCodeModel Lx Ly) rest
    | _, _ => none
  | _ => none

end Drv
