import Driver.Common
import Driver.OpsCode
import Driver.OpsDecoders
import PanqecVerif.Model.XCubeDecoder
open Panqec Panqec.XCube

/-! ops for `Model/XCubeDecoder.lean` (C05, C06): `XCubeMatchingDecoder`.

`dec.xcube Lx Ly Lz <deformation axis|none> px py pz errorRate dict table syndromes`
replays the model glue on the solver answers recorded by the harness's boundary spies; per
`decode` call of the history the output is `events=>result~~trace` where the trace lists the
results of `get_matched_pairs`, `find_connected_components`, `get_toric_loop`, `decode_plane`
in program order, the three `possible_correction` vectors, their weights and the chosen index.

`dec.xcube.struct Lx Ly Lz <deformation axis|none> px py pz dict`: the sub-problem structure built
by `__init__`.

`list(set)` order: ascending (CPython, at most four small ints below 8: every side ≤ 4) unless the
optional last token `orders` (`9,1,3/5,7` …: the `list(nodes_in_component)` values the harness
recorded from CPython, used for sides ≥ 5 where a plane index ≥ 8 wraps in the set's hash table)
lists the set: the model is parametric in `order` and the theorems hold for every `order`.
-/
namespace Drv

def showXErr : XErr → String
  | .dec e => showDecErr e
  | .keyError k => "ERR KeyError (" ++ ",".intercalate (k.map toString) ++ ")"
  | .valueError => "ERR ValueError"
  | .hang => "EXC:DecoderTimeout"

def xcShowCoordP (c : Coord) : String := "(" ++ ",".intercalate (c.map toString) ++ ")"

def xcShowCoords (cs : List Coord) : String :=
  if cs.isEmpty then "-" else ";".intercalate (cs.map xcShowCoordP)

def coordLe : Coord → Coord → Bool
  | [], _ => true
  | _ :: _, [] => false
  | a :: as, b :: bs => a < b || (a == b && coordLe as bs)

def insertSorted {α : Type} (le : α → α → Bool) (a : α) : List α → List α
  | [] => [a]
  | b :: rest => if le a b then a :: b :: rest else b :: insertSorted le a rest

def sortBy {α : Type} (le : α → α → Bool) (l : List α) : List α := l.foldr (insertSorted le) []

def showTrace : Trace → String
  | .pairs _ _ ps =>
    "P:" ++ (if ps.isEmpty then "-" else ",".intercalate (ps.map fun p => s!"{p.1}-{p.2}"))
  | .comps _ cs =>
    "C:" ++ "/".intercalate (cs.map fun c => ",".intercalate (c.map toString))
  | .loop _ l => "L:" ++ xcShowCoords (sortBy coordLe l)
  | .coords _ l => "K:" ++ xcShowCoords l
  | .possible pc w i =>
    "Q:" ++ "|".intercalate (pc.map showVec) ++ ":" ++ ",".intercalate (w.map toString) ++ s!":{i}"

def showTraces (t : List Trace) : String :=
  if t.isEmpty then "-" else " ".intercalate (t.map showTrace)

def xcDefaultCfg (er : Rat) : BpCfg :=
  { errorRate := er, maxIter := 1000, osdOrder := 10, bpMethod := "minimum_sum", channelUpdate := false }

def xcParseDeform (s : String) : Option String := if s == "none" then none else some s

/-- recorded `list(set)` orders: `a,b/c,d,e` -/
def parseOrders (s : String) : List (List Int) :=
  if s == "-" then [] else (s.splitOn "/").map fun c => (c.splitOn ",").filterMap fun t => t.toInt?

/-- `list(set)` as recorded (same elements), ascending when the set was not recorded -/
def recordedOrder (tab : List (List Int)) (l : List Int) : List Int :=
  match tab.find? (fun o => ascending o == ascending l) with
  | some o => o
  | none => ascending l

def xcubeHistory (D : Dict) (T : Table) (d : XCubeDec Rat) (order : List Int → List Int) :
    BpSt → List Vec → List String
  | _, [] => []
  | st, s :: rest =>
    let S : BpSolver := { decode := fun m _ p s => tableSolve D T m p s,
                          converged := fun _ _ _ _ => true }
    let r := d.decode (tableSolve D T) S id order st s
    (showEvents D r.2.events ++ "=>" ++ (match r.2.val with
      | .ok c => showVec c
      | .error e => showXErr e) ++ "~~" ++ showTraces r.2.trace) :: xcubeHistory D T d order r.1 rest

def showMatcher (D : Dict) (m : Option (Matcher Rat)) : String :=
  match m with
  | none => "none"
  | some M => s!"{dec_showKey D M.matrix}:{dec_showRats M.weights}"

def handleXCube : List String → Option String
  | ["dec.xcube", lx, ly, lz, df, px, py, pz, er, dict, table, syns] =>
    let D := parseDict dict
    let T := parseTable table
    some (match XCubeDec.new (fun p => p) lx.toNat! ly.toNat! lz.toNat! (xcParseDeform df)
        (dec_parseRats px) (dec_parseRats py) (dec_parseRats pz) (xcDefaultCfg (dec_parseRat er)) with
      | .error e => showXErr e
      | .ok d => joinCalls (xcubeHistory D T d ascending BpSt.init ((parseList ";" syns).map parseVec)))
  | ["dec.xcube", lx, ly, lz, df, px, py, pz, er, dict, table, syns, orders] =>
    let D := parseDict dict
    let T := parseTable table
    some (match XCubeDec.new (fun p => p) lx.toNat! ly.toNat! lz.toNat! (xcParseDeform df)
        (dec_parseRats px) (dec_parseRats py) (dec_parseRats pz) (xcDefaultCfg (dec_parseRat er)) with
      | .error e => showXErr e
      | .ok d => joinCalls (xcubeHistory D T d (recordedOrder (parseOrders orders)) BpSt.init
          ((parseList ";" syns).map parseVec)))
  | ["dec.xcube.struct", lx, ly, lz, df, px, py, pz, dict] =>
    let D := parseDict dict
    some (match XCubeDec.new (fun p => p) lx.toNat! ly.toNat! lz.toNat! (xcParseDeform df)
        (dec_parseRats px) (dec_parseRats py) (dec_parseRats pz) (xcDefaultCfg 0) with
      | .error e => showXErr e
      | .ok d =>
        s!"n={d.n} m={d.stabs.length} rows={d.H.length} css={isCss d.H} " ++
        " ".intercalate (Axis.all.map fun a =>
          let t := d.toric.get a
          let m := d.matching.get a
          s!"[{t.La},{t.Lb} n={t.n} m={t.stabs.length} planes={(emptyPlanes d a).length} " ++
          s!"X={showMatcher D m.matcherX} Z={showMatcher D m.matcherZ}]"))
  | ["dec.xcube.planestate", loops, lx, ly] =>
    let o : Out Rat (List Coord) := decodePlane (parseCoords loops) lx.toNat! ly.toNat!
    some (match o.val with
      | .ok c => xcShowCoords c
      | .error e => showXErr e)
  | _ => none

end Drv
