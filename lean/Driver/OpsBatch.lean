import PanqecVerif.Model.Batch
open Panqec Panqec.Batch

/-! ops for `Model/Batch.lean` (C12)

`batch <j|g> <0|1 atomic> <event>*` → the snapshots taken at the `O` events, joined by ` ; `.

events:
* `S:<n>:<sf>:<id,id,…|->`  new process (specification = list of input identities)
* `T` / `T<k>`   one / k micro-steps
* `A<k>`         run until just before hook operation k (0-based, counted since the last `S`;
                 hooks = a trial that really runs, opening the file to be written, the rename)
* `R`            run until the process has ended
* `K`            KeyboardInterrupt now;  `X` kill now
* `P:a` `P:e` `P:t` `P:c:<doc>`  the results file is replaced from outside
* `O`            observe (`o`: without the state of the temporary file)
doc = records joined by `|`, record = `inputs/nRuns/ee/suLen/csLen`, `ee` = ids joined by `.` or `-`.
-/
namespace Drv

def fuelB : Nat := 1000000

def parseIds (sep : String) (s : String) : List Nat :=
  if s == "-" || s == "" then [] else (s.splitOn sep).filterMap (fun t => t.toNat?)

def showIds (l : List Nat) : String :=
  if l.isEmpty then "-" else ".".intercalate (l.map toString)

def parseRec (s : String) : Option Sim :=
  match s.splitOn "/" with
  | [a, b, c, d, e] =>
    match a.toNat?, b.toNat?, d.toNat?, e.toNat? with
    | some x, some n, some ls, some lc => some ⟨x, n, parseIds "." c, List.range ls, List.range lc⟩
    | _, _, _, _ => none
  | _ => none

def parseDoc (s : String) : Doc :=
  if s == "_" then [] else (s.splitOn "|").filterMap parseRec

def showRec (r : Sim) : String :=
  s!"{r.inputs}/{r.nRuns}/{showIds r.ee}/{r.su.length}/{r.cs.length}"

def showDoc (d : Doc) : String :=
  if d.isEmpty then "_" else "|".intercalate (d.map showRec)

def showFile : FileSt → String
  | .absent => "A"
  | .empty => "E"
  | .torn => "T"
  | .complete d => s!"C[{showDoc d}]"

def showPc : Pc → String
  | .trial i => s!"trial{i}"
  | .save .. => "save"
  | .done => "done"
  | .paused => "paused"
  | .failed .eof => "failed:eof"
  | .failed .emptySpec => "failed:emptySpec"
  | .failed .zeroDiv => "failed:zeroDiv"
  | .killed => "killed"

def snapshot (withTmp : Bool) (w : World) : String :=
  let mem := if w.proc.pc == .killed then "-" else showDoc w.proc.mem
  s!"file={showFile w.disk.file} tmp={if withTmp then showFile w.disk.tmp else "?"} pc={showPc w.proc.pc} mem={mem}"

structure BSt where
  w : World
  cnt : Nat
  out : List String
  bad : Bool

/-- one micro-step; hook operations are counted -/
def stepC (st : BSt) : BSt :=
  { st with w := step st.w, cnt := if nextIsHook st.w then st.cnt + 1 else st.cnt }

def iter (k : Nat) (f : BSt → BSt) (w : BSt) : BSt :=
  match k with
  | 0 => w
  | k + 1 => iter k f (f w)

def batchEv (st : BSt) (tok : String) : BSt :=
  if tok == "O" then { st with out := st.out ++ [snapshot true st.w] }
  else if tok == "o" then { st with out := st.out ++ [snapshot false st.w] }
  else if tok == "K" then { st with w := kbint st.w }
  else if tok == "X" then { st with w := crash st.w }
  else if tok == "R" then { st with w := runToEnd fuelB st.w }
  else if tok == "T" then stepC st
  else if tok.startsWith "T" then
    match (tok.drop 1).toString.toNat? with
    | some k => iter k stepC st
    | none => { st with bad := true }
  else if tok.startsWith "A" then
    match (tok.drop 1).toString.toNat? with
    | some k =>
      let (w', c') := advance fuelB k st.cnt st.w
      { st with w := w', cnt := c' }
    | none => { st with bad := true }
  else if tok.startsWith "S:" then
    match tok.splitOn ":" with
    | [_, n, sf, ids] =>
      match n.toNat?, sf.toNat? with
      | some n, some sf => { st with w := startProc st.w (parseIds "," ids) n sf, cnt := 0 }
      | _, _ => { st with bad := true }
    | _ => { st with bad := true }
  else if tok.startsWith "P:" then
    match tok.splitOn ":" with
    | [_, "a"] => { st with w := apply st.w (.put .absent) }
    | [_, "e"] => { st with w := apply st.w (.put .empty) }
    | [_, "t"] => { st with w := apply st.w (.put .torn) }
    | [_, "c", d] => { st with w := apply st.w (.put (.complete (parseDoc d))) }
    | _ => { st with bad := true }
  else { st with bad := true }

def handleBatch : List String → Option String
  | "batch" :: fmt :: atomic :: evs =>
    let w0 := World.init (if fmt == "g" then .gz else .json) (atomic == "1")
    let st := evs.foldl batchEv ⟨w0, 0, [], false⟩
    some (if st.bad then "ERR parse" else " ; ".intercalate st.out)
  | _ => none

end Drv
