import Driver.Lat2DCommon
import PanqecVerif.Model.Lattices.ColorBase
open Panqec

/-! shared answer function of the `lat <Class> <Lx> <Ly> …` ops of the 2-D colour-code lattice
    models (`OpsLatColor666PlanarCode`, `OpsLatColor488Code`, `OpsLatColor666ToricCode`) -/
namespace Drv

/-- what a colour-code lattice model exposes to the driver, at one size -/
structure ColorModel where
  /-- thunk: the derived qubit list is only computed by the ops that need it -/
  lat : Unit → Lattice
  getStabilizer? : Coord → Option Op
  stabilizerType : Coord → Option String
  qubitAxis : Coord → Option String
  /-- `get_deformation(location, name, **kwargs)`: keyword arguments are ignored by the classes -/
  getDeformation : String → Coord → Color.DeformResult
  /-- the explicit independent family of `n − k` stabilizer locations of the class's rank theorem
      (`C01<Class>.rank_family` / `generators_independent`); `none`: the class has no such theorem
      (Color3DCode: Z-type half only, op `rankfamilyz`) -/
  rankFamily : Unit → Option (List Coord) := fun _ => none

def colorShowDeform : Color.DeformResult → String
  | .map m => lat2dShowMap m
  | .valueError => lat2dErr
  | .keyError => "EXC:KeyError"
  | .returnsNotImplementedError => "RET:NotImplementedError"

/-- the sub-command after `lat <Class> <Lx> <Ly>` -/
def colorAnswer (m : ColorModel) : List String → Option String
  | ["qubits"] => some (lat2dShowCoords (m.lat ()).qubits)
  | ["stabs"] => some (lat2dShowCoords (m.lat ()).stabs)
  | ["stab", c] => some (match m.getStabilizer? (parseCoord c) with
      | some op => showOp op | none => lat2dErr)
  | ["logx"] => some (lat2dShowOps (m.lat ()).logX)
  | ["logz"] => some (lat2dShowOps (m.lat ()).logZ)
  | ["axis", c] => some ((m.qubitAxis (parseCoord c)).getD lat2dErr)
  | ["type", c] => some ((m.stabilizerType (parseCoord c)).getD lat2dErr)
  | ["deform", name, c] => some (colorShowDeform (m.getDeformation name (parseCoord c)))
  -- the matrices the generic code model (`Model/Code.lean`) assembles from the lattice model
  | ["hmat"] => some (match stabilizerMatrix (m.lat ()).toCodeData with
      | some H => showStack H | none => "ERR key")
  | ["lxmat"] => some (match logicalsX (m.lat ()).toCodeData with
      | some L => showStack L | none => "ERR key")
  | ["lzmat"] => some (match logicalsZ (m.lat ()).toCodeData with
      | some L => showStack L | none => "ERR key")
  -- everything that needs the (derived) qubit list, computed once: used for the large sizes
  | ["bundle"] =>
    let l := m.lat ()
    let c := l.toCodeData
    let mat := fun (o : Option (List (List Nat))) => match o with
      | some H => showStack H | none => "ERR key"
    some (" # ".intercalate [lat2dShowCoords l.qubits, lat2dShowCoords l.stabs, toString c.n,
      toString c.k, lat2dShowOps l.logX, lat2dShowOps l.logZ, mat (stabilizerMatrix c),
      mat (logicalsX c), mat (logicalsZ c)])
  -- evaluated by the harness on the IMPLEMENTATION's parity-check matrix (members, rank)
  | ["rankfamily"] => (m.rankFamily ()).map lat2dShowCoords
  | ["n"] => some (toString (m.lat ()).toCodeData.n)
  | ["k"] => some (toString (m.lat ()).toCodeData.k)
  | _ => none

end Drv
