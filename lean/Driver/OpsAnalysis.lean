import Driver.Common
import PanqecVerif.Model.Analysis
open Panqec Panqec.An

/-! ops for `Model/Analysis.lean` (C15, C16).

Numbers are exact: integers, or rationals `a/b` (a float of the implementation is passed as
its exact value `float.as_integer_ratio()`), `nan` for NaN.  -/
namespace Drv

def parseInt? (s : String) : Option Int :=
  if s.startsWith "-" then (s.drop 1).toString.toNat?.map fun n => -(n : Int)
  else s.toNat?.map fun n => (n : Int)

/-- `a`, `-a`, `a/b`, `-a/b`; anything else (e.g. `nan`) is `none` -/
def parseRat? (s : String) : Option Rat :=
  match s.splitOn "/" with
  | [a] => (parseInt? a).map fun n => (n : Rat)
  | [a, b] =>
    match parseInt? a, b.toNat? with
    | some n, some d => if d = 0 then none else some (mkRat n d)
    | _, _ => none
  | _ => none

def parseBools (s : String) : List Bool :=
  if s == "-" then [] else s.toList.map (· == '1')

/-- entry token `E:<id>:<rate>:<k>:<wall>:<ee rows a|b|c or _>:<success bits>:<codespace bits>` -/
def parseEntry? (tok : String) : Option Entry :=
  match tok.splitOn ":" with
  | ["E", id, rate, k, wall, ee, su, cs] =>
    match id.toNat?, parseRat? rate, k.toNat?, parseRat? wall with
    | some id, some rate, some k, some wall =>
      some { inputId := id, rate := rate, k := k, wall := wall, ee := parseStack ee,
             success := parseBools su, codespace := parseBools cs }
    | _, _, _, _ => none
  | _ => none

/-- tokens `[`, `]`, entry tokens → list of `Data` up to the matching `]` (or end) and the rest -/
partial def parseDataList : List String → Option (List Data × List String)
  | [] => some ([], [])
  | "]" :: rest => some ([], rest)
  | "[" :: rest =>
    match parseDataList rest with
    | some (inner, rest') =>
      match parseDataList rest' with
      | some (more, rest'') => some (Data.list inner :: more, rest'')
      | none => none
    | none => none
  | tok :: rest =>
    match parseEntry? tok with
    | some e =>
      match parseDataList rest with
      | some (more, rest') => some (Data.entry e :: more, rest')
      | none => none
    | none => none

def keyLe (a b : Key) : Bool := a.1 < b.1 || (a.1 == b.1 && a.2 ≤ b.2)

def insertGroup (g : Group) : List Group → List Group
  | [] => [g]
  | h :: t => if keyLe g.key h.key then g :: h :: t else h :: insertGroup g t

def sortGroups (gs : List Group) : List Group := gs.foldr insertGroup []

def showKey (κ : Key) : String := s!"{κ.1}:{κ.2}"

def showErrA : Err → String
  | .concat => "ERR concat"
  | .index => "ERR index"

def showCounts (c : Option (List (List Nat))) : String :=
  match c with
  | none => "nan"
  | some rows =>
    if rows.isEmpty then "-"
    else "/".intercalate (rows.map fun r => ",".intercalate (r.map toString))

def showTotals (g : Group) (sc : Option (List (List Nat))) : String :=
  s!"{showKey g.key} k={g.k} nt={g.nTrials} nf={g.nFail} wall={g.wall} ls={g.success.length} " ++
  s!"st={countTrue g.success} nres={g.nResults} sq={showCounts sc}"

def aggOp (toks : List String) : String :=
  match parseDataList toks with
  | none => "ERR parse"
  | some (files, _) =>
    match aggregate (flattenList files) with
    | .error e => showErrA e
    | .ok gs =>
      let gs := sortGroups gs
      match gs.mapM fun g => g.singleCounts with
      | .error e => showErrA e
      | .ok scs =>
        let totals := ";".intercalate ((gs.zip scs).map fun (g, sc) => showTotals g sc)
        let sector : Except Err (List String) := gs.mapM fun g => do
          let fx ← g.countFails true
          let fz ← g.countFails false
          pure s!"{showKey g.key} csT={countTrue g.codespace} ntX={g.nTrialsSector} nfX={fx} nfZ={fz}"
        match sector with
        | .error e => totals ++ " | " ++ showErrA e
        | .ok ss => totals ++ " | " ++ ";".intercalate ss

def eps : Rat := 1 / 1000000000000
def delta : Rat := 1 / 1000000000000000

def verdict (name : String) (ok : Bool) (expected : String) : String :=
  if ok then "ok" else s!"far:{name}~{expected}"

/-- float column that should be the rational `r` (or NaN when `r = none`) -/
def chkRat (name : String) (f : Option Rat) (r : Option Rat) : String :=
  match f, r with
  | none, none => "ok"
  | some f, some r => verdict name (within eps 0 f r) (toString r)
  | none, some r => s!"far:{name}~{r}"
  | some _, none => s!"far:{name}~nan"

/-- float column that should be `sqrt rad` -/
def chkSqrt (name : String) (f : Option Rat) (rad : Option Rat) : String :=
  match f, rad with
  | none, none => "ok"
  | some f, some r => verdict name (sqrtWithin eps f r) s!"sqrt({r})"
  | none, some r => if r < 0 then "ok" else s!"far:{name}~sqrt({r})"   -- np.sqrt(negative) = NaN
  | some _, none => s!"far:{name}~nan"

def splitComma (s : String) : List String := if s == "-" then [] else s.splitOn ","

/-- `rates k nt st ls p_est p_se p_word_est p_word_se` -/
def ratesOp (k nt st ls : Nat) (pest pse pw pwse : Option Rat) : String :=
  let g : Group := { key := (0, 0), k := k, nTrials := nt, wall := 0, ee := [],
                     success := List.replicate st true ++ List.replicate (ls - st) false,
                     codespace := [], shape := none }
  let p := g.pEst
  let rad := p.map fun p => seRad p nt
  let v1 := chkRat "p_est" pest p
  let v2 := chkSqrt "p_se" pse rad
  let v3 := match p, pw with
    | none, none => "ok"
    | some p, some w => verdict "p_word_est" (wordWithin eps delta k p w) s!"1-(1-{p})^(1/{k})"
    | _, _ => "far:p_word_est"
  let v4 := match p, rad with
    | some p, some rad =>
      if p == 1 && k ≠ 1 then (if pwse.isNone then "ok" else "far:p_word_se~nan")
      else match pw, pwse with
        | some w, some sw => verdict "p_word_se" (wordSeWithin (1000 * eps) k w sw rad)
            s!"sqrt({rad})/({k}(1-w)^{k - 1})"
        | _, _ => "far:p_word_se"
    | _, _ => if pwse.isNone then "ok" else "far:p_word_se~nan"
  s!"{v1} {v2} {v3} {v4}"

/-- `sq nres counts ests ses` : every cell `est = c/nres`, `se = sqrt(seRad est nres)` -/
def sqOp (nres : Nat) (cs : List Nat) (es ss : List (Option Rat)) : String :=
  if cs.length ≠ es.length || cs.length ≠ ss.length then "far:shape" else
  let cells := (cs.zip (es.zip ss)).zipIdx
  let bad := cells.filterMap fun ((c, e, s), j) =>
    let p : Rat := (c : Rat) / (nres : Rat)
    let a := chkRat s!"est[{j}]" e (some p)
    let b := chkSqrt s!"se[{j}]" s (some (seRad p nres))
    if a == "ok" && b == "ok" then none else some (if a == "ok" then b else a)
  if bad.isEmpty then "ok" else " ".intercalate bad

/-- `sector nt nf p_est p_se` : `nf/nt` (NaN for 0/0) and its standard error -/
def sectorOp (nt nf : Nat) (pest pse : Option Rat) : String :=
  let p : Option Rat := if nt = 0 then none else some ((nf : Rat) / (nt : Rat))
  s!"{chkRat "p_est" pest p} {chkSqrt "p_se" pse (p.map fun p => seRad p nt)}"

/-! C16 -/

def parseRow? (s : String) : Option Row :=
  match s.splitOn "," with
  | [p, sc, f] =>
    match parseRat? p, parseRat? sc, parseRat? f with
    | some p, some sc, some f => some { p := p, s := sc, f := f }
    | _, _, _ => none
  | _ => none

def parseRows? (s : String) : Option (List Row) :=
  if s == "-" then some [] else (s.splitOn ";").mapM parseRow?

def fitEntryOf (xs : List String) : Option FitEntry :=
  match xs with
  | [f0, nu, a, b, c, pth, l, r, se, pl, pr] =>
    match parseRat? pl, parseRat? pr with
    | some pl, some pr =>
      some { fss0 := parseRat? f0, nu := parseRat? nu, A := parseRat? a, B := parseRat? b,
             C := parseRat? c, pth := parseRat? pth, left := parseRat? l, right := parseRat? r,
             se := parseRat? se, pLeft := pl, pRight := pr }
    | _, _ => none
  | _ => none

def handleAnalysis : List String → Option String
  | "agg" :: toks => some (aggOp toks)
  | ["rates", k, nt, st, ls, pest, pse, pw, pwse] =>
    some (ratesOp k.toNat! nt.toNat! st.toNat! ls.toNat! (parseRat? pest) (parseRat? pse)
      (parseRat? pw) (parseRat? pwse))
  | ["sq", nres, cs, es, ss] =>
    some (sqOp nres.toNat! ((splitComma cs).map String.toNat!) ((splitComma es).map parseRat?)
      ((splitComma ss).map parseRat?))
  | ["sector", nt, nf, pest, pse] =>
    some (sectorOp nt.toNat! nf.toNat! (parseRat? pest) (parseRat? pse))
  | ["rint6", x] => some ((parseRat? x).elim "ERR parse" fun x => toString (rintHalfEven (x * 1000000)))
  | ["fssfn", p, s, pth, a, b, c, f, x] =>
    some (match parseRat? p, parseRat? s, parseRat? pth, parseRat? a, parseRat? b, parseRat? c with
      | some p, some s, some pth, some a, some b, some c =>
        let xr := rescaleProb p pth s
        let fr := fitFunction p s pth a b c
        let scale := absR a + absR (b * xr) + absR (c * xr ^ 2)
        let vf := match parseRat? f with
          | some f => verdict "fit_function" (absR (f - fr) ≤ eps * scale) (toString fr)
          | none => "far:fit_function~" ++ toString fr
        let vx := chkRat "rescale_prob" (parseRat? x) (some xr)
        s!"{vf} {vx}"
      | _, _, _, _, _, _ => "ERR parse")
  | ["fsscostle", pth, a, b, c, rows, pth', a', b', c', rows', factor, slack] =>
    -- is cost(θ, rows) ≤ factor * cost(θ', rows') + slack ?  (rows carry the scale d**nu of their θ)
    some (match parseRat? pth, parseRat? a, parseRat? b, parseRat? c, parseRows? rows, parseRat? pth',
          parseRat? a', parseRat? b', parseRat? c', parseRows? rows', parseRat? factor, parseRat? slack with
      | some pth, some a, some b, some c, some rows, some pth', some a', some b', some c', some rows',
        some factor, some slack =>
        let c1 := cost { pth := pth, A := a, B := b, C := c } rows
        let c2 := cost { pth := pth', A := a', B := b', C := c' } rows'
        if c1 ≤ factor * c2 + slack then "le" else "gt"
      | _, _, _, _, _, _, _, _, _, _, _, _ => "ERR parse")
  | ["fssreported", raw, bounds, rep, starts] =>
    -- fss_params[0] as reported vs the optimiser's raw value, and the start values p0[0] that the
    -- bootstrap fits received; bounds = lo,hi;lo,hi;... of the bootstrap resamples in order
    some (
      let bs : Option (List (Rat × Rat)) :=
        if bounds == "-" then some [] else
        (bounds.splitOn ";").mapM fun t =>
          match t.splitOn "," with
          | [a, b] => match parseRat? a, parseRat? b with
            | some a, some b => some (a, b)
            | _, _ => none
          | _ => none
      match bs with
      | some bs =>
        let st := bootstrapLoop (parseRat? raw) bs
        let v1 := chkRat "fss_params[0]" (parseRat? rep) st.1
        let given := (splitComma starts).map parseRat?
        let v2 :=
          if given.length ≠ st.2.length then s!"far:starts~{st.2.length}-values"
          else
            let bad := ((given.zip st.2).zipIdx).filterMap fun ((g, m), j) =>
              let v := chkRat s!"p0[{j}]" g m
              if v == "ok" then none else some v
            if bad.isEmpty then "ok" else bad.head!
        s!"{v1} {v2}"
      | none => "ERR parse")
  | ["fssrange", pl, pr, rows] =>
    -- truncation with the default limits keeps every row; prints kept count, min, max
    some (match parseRows? rows with
      | some rows =>
        let pl := (parseRat? pl).orElse fun _ => minRate rows
        let pr := (parseRat? pr).orElse fun _ => maxRate rows
        match pl, pr with
        | some pl, some pr => s!"{(truncate pl pr rows).length} {pl} {pr}"
        | _, _ => "empty"
      | none => "ERR parse")
  | ["fssquant", q, vals, f] =>
    some (match parseRat? q, (splitComma vals).mapM parseRat? with
      | some q, some vs => chkRat "quantile" (parseRat? f) (quantile vs q)
      | _, _ => "ERR parse")
  | "fssstatus" :: xs => some ((fitEntryOf xs).elim "ERR parse" fun e => (fitStatus e).text)
  | "fssrecovered" :: planted :: tol :: xs =>
    some (match parseRat? planted, parseRat? tol, fitEntryOf xs with
      | some planted, some tol, some e => if recovered planted tol e then "recovered" else "not-recovered"
      | _, _, _ => "ERR parse")
  | _ => none

end Drv
