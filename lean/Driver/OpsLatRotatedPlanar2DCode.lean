import Driver.Lat2DCommon
import PanqecVerif.Model.Lattices.RotatedPlanar2DCode
open Panqec

/-! `lat RotatedPlanar2DCode <Lx> <Ly> qubits|stabs|stab <coord>|logx|logz|axis <coord>|
    type <coord>|deform <name> <axis or -> <coord>|rankfamily|n|k` -/
namespace Drv

def rotatedPlanar2DCodeModel (Lx Ly : Nat) : Lat2DModel where
  lat := RotatedPlanar2DCode.lattice Lx Ly
  getStabilizer? := RotatedPlanar2DCode.getStabilizer? Lx Ly
  stabilizerType := RotatedPlanar2DCode.stabilizerType Lx Ly
  qubitAxis := RotatedPlanar2DCode.qubitAxis
  getDeformation := RotatedPlanar2DCode.getDeformation
  rankFamily := (RotatedPlanar2DCode.lattice Lx Ly).stabs

def handleLatRotatedPlanar2DCode : List String → Option String
  | "lat" :: "RotatedPlanar2DCode" :: lx :: ly :: rest =>
    match lx.toNat?, ly.toNat? with
    | some Lx, some Ly => lat2dAnswer (rotatedPlanar2DCodeModel Lx Ly) rest
    | _, _ => none
  | _ => none

end Drv
