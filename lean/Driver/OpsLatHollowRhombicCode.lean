import Driver.ColorCommon
import PanqecVerif.Model.Lattices.HollowRhombicCode
open Panqec

/-! ops for `Model/Lattices/HollowRhombicCode.lean`:
    `lat HollowRhombicCode <Lx> <Ly> <Lz> qubits|stabs|stab <coord>|logx|logz|axis <coord>|
    type <coord>|deform <name_with_underscores> <coord>|hmat|lxmat|lzmat|n|k|rankfamily` -/
namespace Drv

def hollowRhombicShowStab : HollowRhombicCode.StabResult → String
  | .op o => showOp o
  | .valueError => lat2dErr
  | .indexError => "EXC:IndexError"

def hollowRhombicCodeQuery (Lx Ly Lz : Nat) : List String → Option String
  | ["qubits"] => some (lat2dShowCoords (HollowRhombicCode.qubits Lx Ly Lz))
  | ["stabs"] => some (lat2dShowCoords (HollowRhombicCode.stabs Lx Ly Lz))
  | ["stab", c] => some (hollowRhombicShowStab (HollowRhombicCode.getStabilizer Lx Ly Lz (parseCoord c)))
  | ["logx"] => some (lat2dShowOps (HollowRhombicCode.logX Lx Ly Lz))
  | ["logz"] => some (lat2dShowOps (HollowRhombicCode.logZ Lx Ly Lz))
  | ["axis", c] => some (match HollowRhombicCode.qubitAxis (parseCoord c) with
      | none => lat2dErr | some a => a.toString)
  | ["type", c] => some (HollowRhombicCode.stabilizerType (parseCoord c))
  | ["deform", name, c] =>
    some (colorShowDeform (HollowRhombicCode.getDeformation (name.replace "_" " ") (parseCoord c)))
  | ["hmat"] => some (match stabilizerMatrix (HollowRhombicCode.lattice Lx Ly Lz).toCodeData with
      | some H => showStack H | none => "ERR key")
  | ["lxmat"] => some (match logicalsX (HollowRhombicCode.lattice Lx Ly Lz).toCodeData with
      | some L => showStack L | none => "ERR key")
  | ["lzmat"] => some (match logicalsZ (HollowRhombicCode.lattice Lx Ly Lz).toCodeData with
      | some L => showStack L | none => "ERR key")
  | ["rankfamily"] => some (lat2dShowCoords (HollowRhombicCode.rankFamily Lx Ly Lz))
  | ["n"] => some (toString (HollowRhombicCode.lattice Lx Ly Lz).toCodeData.n)
  | ["k"] => some (toString (HollowRhombicCode.lattice Lx Ly Lz).toCodeData.k)
  | _ => none

def handleLatHollowRhombicCode : List String → Option String
  | "lat" :: "HollowRhombicCode" :: lx :: ly :: lz :: rest =>
    match lx.toNat?, ly.toNat?, lz.toNat? with
    | some Lx, some Ly, some Lz => hollowRhombicCodeQuery Lx Ly Lz rest
    | _, _, _ => none
  | _ => none

end Drv
