import Driver.Common
import PanqecVerif.Model.Decoders
open Panqec

/-! ops for `Model/Decoders.lean` (C05, C06, C09).

The third-party solvers are replaced by a lookup table built by the harness
from what its boundary spies recorded: `(matrix, weights/probabilities,
syndrome) ↦ answer`.  The model glue is run against that table; the output is
the list of boundary events the model performs plus the correction it returns,
one block per `decode` call of the history (`a || b || …`).
-/
namespace Drv

def dec_parseRat (s : String) : Rat :=
  match s.splitOn "/" with
  | [a] => (a.toInt?.getD 0 : Int)
  | [a, b] => mkRat (a.toInt?.getD 0) (b.toNat?.getD 1)
  | _ => 0

def dec_showRat (r : Rat) : String :=
  if r.den == 1 then toString r.num else s!"{r.num}/{r.den}"

/-- comma separated, run-length items `v*k` -/
def dec_parseRats (s : String) : List Rat :=
  if s == "-" then []
  else (s.splitOn ",").flatMap fun item =>
    match item.splitOn "*" with
    | [v, k] => List.replicate (k.toNat?.getD 1) (dec_parseRat v)
    | _ => [dec_parseRat item]

def rle : List Rat → List (Rat × Nat)
  | [] => []
  | a :: as =>
    match rle as with
    | (b, k) :: rest => if a == b then (b, k + 1) :: rest else (a, 1) :: (b, k) :: rest
    | [] => [(a, 1)]

def dec_showRats (l : List Rat) : String :=
  if l.isEmpty then "-"
  else ",".intercalate ((rle l).map fun (v, k) =>
    if k == 1 then dec_showRat v else s!"{dec_showRat v}*{k}")

def parseList (sep : String) (s : String) : List String :=
  if s == "-" then [] else s.splitOn sep

abbrev Dict := List Mat
/-- recorded solver answers: (matrix key, weights, syndrome, answer) -/
abbrev Table := List (Nat × List Rat × Vec × Vec)

def parseDict (s : String) : Dict := (parseList ";" s).map parseStack

def parseTable (s : String) : Table :=
  (parseList ";" s).filterMap fun e =>
    match e.splitOn "~" with
    | [k, w, sy, a] => some (k.toNat?.getD 0, dec_parseRats w, parseVec sy, parseVec a)
    | _ => none

def dictKey (d : Dict) (m : Mat) : Option Nat := d.findIdx? (· == m)

def dec_showKey (d : Dict) (m : Mat) : String :=
  match dictKey d m with
  | some k => toString k
  | none => "?"

/-- the replayed solver: the recorded answer for exactly these arguments, else a
    visible sentinel -/
def tableSolve (d : Dict) (t : Table) (m : Mat) (w : List Rat) (s : Vec) : Vec :=
  match dictKey d m with
  | none => [7]
  | some k =>
    match t.find? (fun e => e.1 == k && e.2.1 == w && e.2.2.1 == s) with
    | some e => e.2.2.2
    | none => [7]

/-- for solvers without weights (union-find) -/
def tableSolveU (d : Dict) (t : Table) (m : Mat) (s : Vec) : Vec :=
  match dictKey d m with
  | none => [7]
  | some k =>
    match t.find? (fun e => e.1 == k && e.2.2.1 == s) with
    | some e => e.2.2.2
    | none => [7]

def showDecErr : DecErr → String
  | .valueError => "ERR ValueError"
  | .indexError => "ERR IndexError"
  | .shapeError => "ERR shape"
  | .attributeError => "ERR AttributeError"

def showEvent (d : Dict) : Event Rat → String
  | .ctor m serial er mi oo bm =>
    s!"ctor:{dec_showKey d m}:{if serial then 1 else 0}:{dec_showRat er}:{mi}:{oo}:{bm}"
  | .update m p => s!"upd:{dec_showKey d m}:{dec_showRats p}"
  | .decode m w s a => s!"dec:{dec_showKey d m}:{dec_showRats w}:{showVec s}:{showVec a}"
  | .sub s a => s!"sub:{showVec s}:{showVec a}"

/-- group key of an event: the object it goes to (objects are named by their matrix) -/
def eventKey (d : Dict) : Event Rat → String
  | .ctor m .. => dec_showKey d m
  | .update m _ => dec_showKey d m
  | .decode m .. => dec_showKey d m
  | .sub .. => "s"

/-- stable insertion by key: keeps the program order of the events of one object, forgets
    the interleaving of independent objects (which carries no information: any data
    dependency shows in the recorded values) -/
def insertByKey (k : String) (e : String) : List (String × String) → List (String × String)
  | [] => [(k, e)]
  | (k', e') :: rest => if k < k' then (k, e) :: (k', e') :: rest else (k', e') :: insertByKey k e rest

def showEvents (d : Dict) (ev : List (Event Rat)) : String :=
  if ev.isEmpty then "-"
  else
    let sorted := ev.foldl (fun acc e => insertByKey (eventKey d e) (showEvent d e) acc) []
    ";".intercalate (sorted.map (·.2))

def showCall (d : Dict) (ev : List (Event Rat)) (r : Except DecErr Vec) : String :=
  showEvents d ev ++ "=>" ++ (match r with
    | .ok c => showVec c
    | .error e => showDecErr e)

def joinCalls (l : List String) : String := " || ".intercalate l

def parseErrTypeTok (s : String) : Option String := if s == "none" then none else some s

/-- BP-OSD history on one object -/
def bposdHistory (S : BpSolver) (dict : Dict) (d : BpDec_dec) : BpSt → List Vec → List String
  | _, [] => []
  | st, s :: rest =>
    let (st', ev, r) := d.decode S st s
    showCall dict ev r :: bposdHistory S dict d st' rest

/-- sweep-match history; the sweeper's state is the queue of its recorded answers -/
def sweepHistory (dict : Dict) (t : Table) (m : MatchingDec Rat) :
    List Vec → List Vec → List String
  | _, [] => []
  | q, s :: rest =>
    let sweep : List Vec → Vec → List Vec × Vec := fun q _ => (q.tail, q.headD [7])
    let (q', r) := sweepMatchDecode sweep (tableSolve dict t) m q s
    (match r with
      | .ok (c, ev) => showCall dict ev (.ok c)
      | .error e => showCall dict [] (.error e)) :: sweepHistory dict t m q' rest

def handleDecoders : List String → Option String
  | ["dec.matching", h, n, et, wmode, w1, w2, px, py, pz, dict, table, syns] =>
    let H := parseStack h
    let D := parseDict dict
    let T := parseTable table
    let given : Option (List Rat × List Rat) :=
      if wmode == "given" then some (dec_parseRats w1, dec_parseRats w2) else none
    let mw := getWeights (fun p => p) (dec_parseRats px) (dec_parseRats py) (dec_parseRats pz)
    some (match MatchingDec.new H n.toNat! (parseErrTypeTok et) given mw with
      | .error e => showDecErr e
      | .ok d =>
        joinCalls ((parseList ";" syns).map fun sy =>
          match d.decode (tableSolve D T) (parseVec sy) with
          | .ok (c, ev) => showCall D ev (.ok c)
          | .error e => showCall D [] (.error e)))
  | ["dec.uf", h, n, dict, table, syns] =>
    let H := parseStack h
    let D := parseDict dict
    let T := parseTable table
    some (joinCalls ((parseList ";" syns).map fun sy =>
      match ufDecode (tableSolveU D T) H n.toNat! (parseVec sy) with
      | .ok (c, ev) => showCall D ev (.ok c)
      | .error e => showCall D [] (.error e)))
  | ["dec.bposd", h, n, px, py, pz, er, mi, oo, bm, cu, dict, table, syns] =>
    let D := parseDict dict
    let T := parseTable table
    let d : BpDec_dec := { H := parseStack h, n := n.toNat!, px := dec_parseRats px, py := dec_parseRats py,
                           pz := dec_parseRats pz,
                           cfg := { errorRate := dec_parseRat er, maxIter := mi.toNat!, osdOrder := oo.toNat!,
                                    bpMethod := bm, channelUpdate := cu == "1" } }
    let S : BpSolver := { decode := fun m _ p s => tableSolve D T m p s,
                          converged := fun _ _ _ _ => true }
    some (joinCalls (bposdHistory S D d BpSt.init ((parseList ";" syns).map parseVec)))
  | ["dec.sweepmatch", h, n, px, py, pz, dict, table, sweeps, syns] =>
    let H := parseStack h
    let D := parseDict dict
    let T := parseTable table
    let mw := getWeights (fun p => p) (dec_parseRats px) (dec_parseRats py) (dec_parseRats pz)
    some (match sweepMatchMatcher H n.toNat! mw with
      | .error e => showDecErr e
      | .ok m => joinCalls (sweepHistory D T m ((parseList ";" sweeps).map parseVec)
                              ((parseList ";" syns).map parseVec)))
  | ["dec.sector", m, v] => some (showVec (sectorSyndrome (parseStack m) (parseVec v)))
  | ["dec.hwt", v] => some (toString (hammingWt (parseVec v)))
  | ["dec.blocks", h, v] =>
    let H := parseStack h
    let x := parseVec v
    some (s!"{showVec (extractXSyndrome H (measureSyndrome H x))} {showVec (sectorSyndrome (Hx H) (zPart x))} " ++
          s!"{showVec (extractZSyndrome H (measureSyndrome H x))} {showVec (sectorSyndrome (Hz H) (xPart x))}")
  | ["dec.valid", n, c] => some (if validCorrection n.toNat! (parseVec c) then "ok" else "invalid")
  | ["dec.updprobs", c, a, y, b] =>
    some (dec_showRats (updProbs (parseVec c) (dec_parseRats a) (dec_parseRats y) (dec_parseRats b)))
  | _ => none

end Drv
