import Driver.Lat2DCommon
import PanqecVerif.Model.Lattices.Planar2DCode
open Panqec

/-! `lat Planar2DCode <Lx> <Ly> qubits|stabs|stab <coord>|logx|logz|axis <coord>|type <coord>|
    deform <name> <axis or -> <coord>|rankfamily|n|k` -/
namespace Drv

def planar2DCodeModel (Lx Ly : Nat) : Lat2DModel where
  lat := Planar2DCode.lattice Lx Ly
  getStabilizer? := Planar2DCode.getStabilizer? Lx Ly
  stabilizerType := Planar2DCode.stabilizerType Lx Ly
  qubitAxis := Planar2DCode.qubitAxis
  getDeformation := Planar2DCode.getDeformation
  rankFamily := (Planar2DCode.lattice Lx Ly).stabs

def handleLatPlanar2DCode : List String → Option String
  | "lat" :: "Planar2DCode" :: lx :: ly :: rest =>
    match lx.toNat?, ly.toNat? with
    | some Lx, some Ly => lat2dAnswer (planar2DCodeModel Lx Ly) rest
    | _, _ => none
  | _ => none

end Drv
