import Driver.Common
import PanqecVerif.Generated.Gui
open Panqec.Gui

/-! ops for the GUI tables (C20): lookups in the regenerated tables -/
namespace Drv

/-- menu names contain spaces: the harness sends them with `_` for ` ` -/
def unesc (s : String) : String := s.replace "~" " "

def handleGui : List String → Option String
  | ["gui.repr", cls, kind, pic, typ] =>
    let t := if typ == "-" then "" else typ
    some (match representation Panqec.Generated.Gui.config Panqec.Generated.Gui.colormap cls kind pic t with
      | .error e => "ERR " ++ e
      | .ok (obj, cols) => obj ++ " " ++ ",".intercalate (cols.map fun (k, v) => k ++ "=" ++ v))
  | ["gui.decoders", cls] =>
    some ("|".intercalate (offeredDecoders Panqec.Generated.Gui.decoders cls))
  | ["gui.codenames", dim] =>
    some ("|".intercalate (codeNames Panqec.Generated.Gui.codes dim.toNat!))
  | ["gui.deformations", name] =>
    some (match deformationNames Panqec.Generated.Gui.codes (unesc name) with
      | none => "ERR KeyError"
      | some l => if l.isEmpty then "-" else "|".intercalate l)
  | _ => none

end Drv
