import Driver.Common
import Driver.OpsCode
import PanqecVerif.Model.Lattices.RotatedToric3DCode
open Panqec

/-! ops for `Model/Lattices/RotatedToric3DCode.lean` (C01 hand-written lattice model):
    `lat RotatedToric3DCode <Lx> <Ly> <Lz> <query>` -/
namespace Drv

def rotatedToric3DCodeShowCoords (cs : List Coord) : String :=
  if cs.isEmpty then "_" else ";".intercalate (cs.map showCoord)

def rotatedToric3DCodeShowOps (ops : List Op) : String :=
  if ops.isEmpty then "_" else "|".intercalate (ops.map showOp)

def rotatedToric3DCodeQuery (Lx Ly Lz : Nat) : List String → Option String
  | ["qubits"] => some (rotatedToric3DCodeShowCoords (RotatedToric3DCode.qubits Lx Ly Lz))
  | ["stabs"] => some (rotatedToric3DCodeShowCoords (RotatedToric3DCode.stabs Lx Ly Lz))
  | ["stab", c] =>
    some (match RotatedToric3DCode.getStab? Lx Ly Lz (parseCoord c) with
      | none => "ERR value" | some op => showOp op)
  | ["logx"] => some (rotatedToric3DCodeShowOps (RotatedToric3DCode.logX Lx Ly Lz))
  | ["logz"] => some (rotatedToric3DCodeShowOps (RotatedToric3DCode.logZ Lx Ly Lz))
  | ["axis", c] =>
    some ((RotatedToric3DCode.qubitAxis Lx Ly Lz (parseCoord c)).getD "ERR value")
  | ["type", c] =>
    some ((RotatedToric3DCode.stabilizerType Lx Ly Lz (parseCoord c)).getD "ERR value")
  | ["deform", name, axis, c] =>
    some (match RotatedToric3DCode.getDeformation Lx Ly Lz name (if axis == "-" then none else some axis) (parseCoord c) with
      | none => "ERR value" | some m => Lat3Db.showPauliMap m)
  | ["rankfamily"] => some (rotatedToric3DCodeShowCoords (RotatedToric3DCode.rankFamily Lx Ly Lz))
  | ["n"] => some (toString (RotatedToric3DCode.lattice Lx Ly Lz).toCodeData.n)
  | ["k"] => some (toString (RotatedToric3DCode.lattice Lx Ly Lz).toCodeData.k)
  | _ => none

def handleLatRotatedToric3DCode : List String → Option String
  | "lat" :: "RotatedToric3DCode" :: lx :: ly :: lz :: rest =>
    match lx.toNat?, ly.toNat?, lz.toNat? with
    | some Lx, some Ly, some Lz => rotatedToric3DCodeQuery Lx Ly Lz rest
    | _, _, _ => none
  | _ => none

end Drv
