import Driver.Common
import PanqecVerif.Model.Mask
open Panqec

/-! ops for `Model/Mask.lean`: native evaluation of the proved-sound validity checker (C01, C17) -/
namespace Drv

def parseNats (s : String) : List Nat :=
  if s == "-" || s == "_" then [] else (s.splitOn ",").filterMap fun t => t.toNat?

def handleMask : List String → Option String
  | ["checkvalid", n, k, d, stabs, lx, lz, bidx, dual, combo] =>
    let c : MaskCode := { n := n.toNat!, k := k.toNat!, d := d.toNat!,
                          stabs := parseNats stabs, logX := parseNats lx, logZ := parseNats lz }
    let rc : RankCert := { basisIdx := parseNats bidx, dual := parseNats dual, combo := parseNats combo }
    let v := checkValidFast c rc
    let v0 := checkValid c rc
    some s!"{if v then 1 else 0} {if v0 then 1 else 0} {if reportedDistanceFast c then 1 else 0}"
  | ["sympmask", n, a, b] => some (toString (sympMask n.toNat! a.toNat! b.toNat!))
  | ["weightmask", n, a] => some (toString (weightMask n.toNat! a.toNat!))
  | _ => none

end Drv
