import Driver.Common
import PanqecVerif.Model.Sweep
open Panqec Panqec.Sweep

/-! ops for `Model/Sweep.lean`, `Model/SweepLattices.lean` (C10)

  lattice spec  : `<T3|P3|RP3|RT3> Lx Ly Lz`
  decoder       : `s3` (SweepDecoder3D) | `s3old` (assignment update) | `rot` (RotatedSweepDecoder3D)
                  | `rotold` (flip table / initial state before the seam repair; `sw.flip`, `sw.table`,
                  `sw.init` only)
  location      : `x,y,z`
  signs         : bit string (`-` = empty)
  correction    : `x,y,z:P;x,y,z:P` in dict order (`-` = empty)
  tie-breaks    : digit string over 0..2 (`-` = empty)
-/
namespace Drv

def swParseInt? (s : String) : Option Int := s.toInt?

def parseLoc? (s : String) : Option Loc :=
  match (s.splitOn ",").map swParseInt? with
  | [some x, some y, some z] => some (x, y, z)
  | _ => none

def showLoc (l : Loc) : String := s!"{l.1},{l.2.1},{l.2.2}"

def parseBits (s : String) : List Bool :=
  if s == "-" then [] else s.toList.map (· == '1')

def showBits (b : List Bool) : String :=
  if b.isEmpty then "-" else String.ofList (b.map fun x => if x then '1' else '0')

def parseCorr? (s : String) : Option Sweep.Op :=
  if s == "-" then some []
  else (s.splitOn ";").mapM fun item =>
    match item.splitOn ":" with
    | [l, p] =>
      match parseLoc? l, p.toList with
      | some loc, [c] => (Pauli.ofChar? c).map fun pp => (loc, pp)
      | _, _ => none
    | _ => none

def showCorr (op : Sweep.Op) : String :=
  if op.isEmpty then "-"
  else ";".intercalate (op.map fun e => s!"{showLoc e.1}:{e.2.toChar}")

def parseDirs (s : String) : List Dir :=
  if s == "-" then []
  else s.toList.filterMap fun c =>
    if c == '0' then some 0 else if c == '1' then some 1 else if c == '2' then some 2 else none

/-- same lattice with `get_stabilizer` tabulated once over the stabilizer locations
    (speed only: the functions of `Model/Sweep.lean` call `stabOp` many times) -/
def tabulate (lat : Lattice) : Lattice :=
  let table := lat.stabs.map fun s => (s, lat.stabOp s)
  { lat with stabOp := fun s => match table.lookup s with
                                | some op => op
                                | none => lat.stabOp s }

def parseLattice? (code lx ly lz : String) : Option Lattice :=
  match lx.toNat?, ly.toNat?, lz.toNat? with
  | some a, some b, some c =>
    if code == "T3" then some (tabulate (toric3D a b c))
    else if code == "P3" then some (tabulate (planar3D a b c))
    else if code == "RP3" then some (tabulate (rotPlanar3D a b c))
    else if code == "RT3" then some (tabulate (rotToric3D a b c))
    else none
  | _, _, _ => none

/-- tabulate the lattice once so that repeated `contains`/`stabOp` calls are cheap -/
def facesOf (dec : String) (lat : Lattice) : Loc → Option (List Loc) :=
  if dec == "rot" then flipFacesRot lat
  else if dec == "rotold" then oldFlipFacesRot lat
  else flipFaces3D lat

/-- the rows that count as face rows for the decoder: type `'face'` (rotated, as repaired) or
    not in `z_indices` -/
def isRotDec (dec : String) : Bool := dec == "rot"

def showLoc3 (t : Loc × Loc × Loc) : String := s!"{showLoc t.1};{showLoc t.2.1};{showLoc t.2.2}"

def showState (st : State) : String := s!"{showBits st.signs} {showCorr st.corr}"

def showOps (lat : Lattice) : String :=
  "/".intercalate (lat.stabs.map fun s => showCorr (lat.stabOp s))

def handleSweep : List String → Option String
  | ["sw.lat", code, lx, ly, lz, what] =>
    some <| match parseLattice? code lx ly lz with
    | none => "ERR spec"
    | some lat =>
      if what == "qubits" then ";".intercalate (lat.qubits.map showLoc)
      else if what == "stabs" then ";".intercalate (lat.stabs.map showLoc)
      else if what == "types" then showBits (lat.stabs.map lat.isFace)
      else if what == "zidx" then showBits (lat.stabs.map lat.zIndex)
      else if what == "ops" then showOps lat
      else "ERR what"
  | ["sw.flip", dec, code, lx, ly, lz, loc, signs] =>
    some <| match parseLattice? code lx ly lz, parseLoc? loc with
    | some lat, some l =>
      match flipWith lat (facesOf dec lat) l (parseBits signs) with
      | none => "ERR unbound"
      | some s => showBits s
    | _, _ => "ERR spec"
  | ["sw.site", corr, p, loc] =>
    some <| match parseCorr? corr, p.toList, parseLoc? loc with
    | some op, [c], some l =>
      match Pauli.ofChar? c with
      | some pp => showCorr (site op pp l)
      | none => "ERR spec"
    | _, _, _ => "ERR spec"
  | ["sw.init", dec, code, lx, ly, lz, syn] =>
    some <| match parseLattice? code lx ly lz with
    | some lat =>
      showBits (if isRotDec dec then initialStateRot lat (parseBits syn) else initialState lat (parseBits syn))
    | none => "ERR spec"
  | ["sw.wrap", code, lx, ly, lz, loc] =>
    some <| match parseLattice? code lx ly lz, parseLoc? loc with
    | some lat, some l => showLoc (wrapRot lat l)
    | _, _ => "ERR spec"
  | ["sw.sweep", code, lx, ly, lz, v, sd] =>
    some <| match parseLattice? code lx ly lz, parseLoc? v, parseLoc? sd with
    | some lat, some vv, some d => s!"{showLoc3 (sweepFacesRot lat vv d)} {showLoc3 (sweepEdgesRot lat vv d)}"
    | _, _, _ => "ERR spec"
  | ["sw.move", dec, code, lx, ly, lz, sd, signs, corr, ds] =>
    some <| match parseLattice? code lx ly lz, parseCorr? corr with
    | some lat, some op =>
      let st : State := ⟨parseBits signs, op⟩
      let r :=
        if dec == "rot" then
          match parseLoc? sd with
          | some d => sweepMoveRot lat d st (parseDirs ds)
          | none => none
        else if dec == "s3old" then oldSweepMove3D lat st (parseDirs ds)
        else sweepMove3D lat st (parseDirs ds)
      match r with
      | none => "ERR move"
      | some (st', rest) => s!"{showState st'} {rest.length}"
    | _, _ => "ERR spec"
  | ["sw.run", dec, code, lx, ly, lz, param, syn, ds] =>
    some <| match parseLattice? code lx ly lz, param.toNat? with
    | some lat, some k =>
      let r :=
        if dec == "rot" then runRot lat k (parseBits syn) (parseDirs ds)
        else if dec == "s3old" then oldRun3D lat k (parseBits syn) (parseDirs ds)
        else run3D lat k (parseBits syn) (parseDirs ds)
      match r with
      | none => "ERR run"
      | some (tr, st, rest) =>
        let bsf := match toBsf lat st.corr with
          | none => "ERR key"
          | some v => showVec v
        s!"{tr.length} {showState st} {rest.length} {bsf} {"/".intercalate (tr.map showState)}"
    | _, _ => "ERR spec"
  | ["sw.table", dec, code, lx, ly, lz] =>
    some <| match parseLattice? code lx ly lz with
    | some lat =>
      let bad := if isRotDec dec || dec == "rotold" then flipTableBadRot lat (facesOf dec lat)
                 else flipTableBad lat (facesOf dec lat)
      s!"{bad.length}/{lat.qubits.length} {";".intercalate (bad.map showLoc)}"
    | none => "ERR spec"
  | ["sw.facehas", dec, code, lx, ly, lz, loc] =>
    some <| match parseLattice? code lx ly lz, parseLoc? loc with
    | some lat, some l =>
      showBits (lat.stabs.map fun s => if isRotDec dec then faceHasRot lat s l else faceHas lat s l)
    | _, _ => "ERR spec"
  | _ => none

end Drv
