import Driver.Common
import PanqecVerif.Model.UnionFind
import PanqecVerif.Model.UnionFindWF
import PanqecVerif.Model.Lattices.Toric2DCode
open Panqec

/-! ops for `Model/UnionFind.lean` (C05: internals of the union-find decoder).

`uf.decode H sy sched`  → `X:<bits>` | `TIMEOUT` | `ERR shape`, plus ` SCHED-MISMATCH` / ` BAD`
`uf.trace  H sy sched`  → every growth step, the roots, every peeling tree and round, the result
                          (same text as `harness/uf_trace.py` builds from the running implementation)

`uf.class  H`           → `closed` | `closedmulti` | `graphlike` | `multigraph` | `none` (the predicates
                          `closedGraph`, `closedMultigraph`, `graphLike`, `multigraphLike`, most special first)
`uf.toric  Lx Ly z|x`   → `<class> <matrix>`: the sector matrix `Hz` / `Hx` (`Model/Code.lean`) of the
                          parity-check matrix assembled from the all-sizes lattice model
                          `Model/Lattices/Toric2DCode.lean` — the subject of
                          `Properties/C05UnionFindToric.lean` — and its class

`sched`: the recorded set iteration orders, `;`-separated lists of `,`-separated integers
(`e` = empty list, `-` = no schedule). -/
namespace Drv

def uf_parseInts (s : String) : List Int :=
  if s == "e" then [] else (s.splitOn ",").filterMap fun t => t.toInt?

def uf_parseSched (s : String) : List (List Int) :=
  if s == "-" then [] else (s.splitOn ";").map uf_parseInts

def uf_ints (l : List Int) : String :=
  if l.isEmpty then "e" else ",".intercalate (l.map toString)

def uf_nats (l : List Nat) : String := uf_ints (l.map Int.ofNat)

def uf_bits (l : List Bool) : String :=
  if l.isEmpty then "e" else String.ofList (l.map fun b => if b then '1' else '0')

def uf_sortI (l : List Int) : List Int := l.mergeSort (fun a b => decide (a ≤ b))

def uf_cluster (c : UF.Cluster) : String :=
  s!"{c.root}/{c.size}/{if c.odd then 1 else 0}/{uf_ints (uf_sortI c.bnd)}"

def uf_forest (f : List UF.Cluster) : String :=
  if f.isEmpty then "e"
  else "+".intercalate ((f.mergeSort (fun a b => decide (a.root ≤ b.root))).map uf_cluster)

def uf_rowmask (H : Mat) (st : UF.GState) (s : Nat) : Nat :=
  (List.range (UF.ncols H)).foldl
    (fun acc q => if UF.live H st.rowDead st.colDead s q then acc + 2 ^ q else acc) 0

def uf_state (H : Mat) (st : UF.GState) : String :=
  let m := H.length
  s!"{uf_forest st.forest}:{uf_ints ((List.range m).map st.sPar)}:" ++
  s!"{uf_ints ((List.range (UF.ncols H)).map st.qPar)}:{uf_nats ((List.range m).map (uf_rowmask H st))}"

def uf_flags (schedOk bad : Bool) : String :=
  (if schedOk then "" else " SCHED-MISMATCH") ++ (if bad then " BAD" else "")

def uf_peelErr : UF.PeelErr → String
  | .treeDiverges => "TIMEOUT"
  | .peelDiverges => "TIMEOUT"
  | .shape => "ERR shape"

def uf_outcome : UF.Outcome → String
  | .ok c => "X:" ++ uf_bits (c.map (· != 0))
  | .growthDiverges => "TIMEOUT"
  | .peel e => uf_peelErr e

def uf_tree (t : UF.TreeTrace) : List String :=
  let edges := if t.edges.isEmpty then "e"
    else ",".intercalate (t.edges.map fun pc => s!"{pc.1}>{pc.2}")
  [s!"T:{t.root}:{uf_nats t.stabs}:{uf_nats t.qubits}:{edges}:{uf_nats t.leaves}"] ++
  (t.rounds.map fun r => s!"P:{uf_nats r.parents}:{uf_nats r.leaves}:{uf_bits r.syn}") ++
  [s!"C:{uf_nats t.corr}"]

def uf_trace (H : Mat) (sy : Vec) (sched : List (List Int)) : String :=
  let st0 := UF.initState H sy sched
  let first := s!"I:{uf_state H st0}"
  let r := UF.clusterTrace H (UF.growFuel H) st0 []
  let steps := r.2.2.map fun g =>
    s!"G:{g.chosen}:{uf_ints (uf_sortI g.fusion)}:{uf_state H g.st}"
  let c := UF.clustering H sy sched
  let run := UF.decodeWith H sy sched
  let fin := s!"R:{uf_nats (c.roots.mergeSort (fun a b => decide (a ≤ b)))}:" ++
    s!"{uf_ints ((List.range H.length).map c.sPar)}:{uf_ints ((List.range (UF.ncols H)).map c.qPar)}"
  let trees : List String :=
    if !c.terminated then []
    else match UF.peelAll H sy c.sPar c.qPar (c.roots.mergeSort (fun a b => decide (a ≤ b))) with
      | .ok ts => ts.flatMap uf_tree
      | .error _ => []
  " ".intercalate ([first] ++ steps ++ [fin] ++ trees ++ [uf_outcome run.outcome]) ++
    uf_flags run.schedOk run.bad

/-- which hypothesis of the theorems in `Properties/C05UnionFind.lean` the matrix satisfies -/
def uf_class (H : Mat) : String :=
  if UF.closedGraph H then "closed" else if UF.closedMultigraph H then "closedmulti"
  else if UF.graphLike H then "graphlike" else if UF.multigraphLike H then "multigraph" else "none"

def handleUnionFind : List String → Option String
  | ["uf.decode", h, sy, sc] =>
    let run := UF.decodeWith (parseStack h) (parseVec sy) (uf_parseSched sc)
    some (uf_outcome run.outcome ++ uf_flags run.schedOk run.bad)
  | ["uf.trace", h, sy, sc] => some (uf_trace (parseStack h) (parseVec sy) (uf_parseSched sc))
  | ["uf.class", h] =>
    some (uf_class (parseStack h))
  | ["uf.toric", lx, ly, sec] =>
    match lx.toNat?, ly.toNat? with
    | some Lx, some Ly =>
      match stabilizerMatrix (Toric2DCode.lattice Lx Ly).toCodeData with
      | none => some "ERR key"
      | some M =>
        let H := if sec == "z" then Hz M else Hx M
        some (uf_class H ++ " " ++ showStack H)
    | _, _ => none
  | _ => none

end Drv
