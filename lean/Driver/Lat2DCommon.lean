import Driver.OpsCode
import PanqecVerif.Model.Lattices.Lat2DBase
open Panqec

/-! shared answer function of the `lat <Class> <Lx> <Ly> …` ops of the 2-D surface-code lattice
    models (`OpsLatToric2DCode`, `OpsLatPlanar2DCode`, `OpsLatRotatedPlanar2DCode`) -/
namespace Drv

/-- what a 2-D lattice model exposes to the driver, at one size -/
structure Lat2DModel where
  lat : Lattice
  getStabilizer? : Coord → Option Op
  stabilizerType : Coord → Option String
  qubitAxis : Coord → Option String
  getDeformation : String → Option String → Coord → Option PauliMap
  /-- the explicit independent family of `n − k` stabilizer locations of the class's rank theorem
      (`C01<Class>.generators_independent`) -/
  rankFamily : List Coord

def lat2dShowCoords (cs : List Coord) : String :=
  if cs.isEmpty then "_" else ";".intercalate (cs.map showCoord)

def lat2dShowOps (ops : List Op) : String :=
  if ops.isEmpty then "_" else "|".intercalate (ops.map showOp)

def lat2dShowMap (m : PauliMap) : String :=
  String.ofList [m.x.toChar, m.y.toChar, m.z.toChar]

def lat2dErr : String := "EXC:ValueError"

/-- the sub-command after `lat <Class> <Lx> <Ly>` -/
def lat2dAnswer (m : Lat2DModel) : List String → Option String
  | ["qubits"] => some (lat2dShowCoords m.lat.qubits)
  | ["stabs"] => some (lat2dShowCoords m.lat.stabs)
  | ["stab", c] => some (match m.getStabilizer? (parseCoord c) with
      | some op => showOp op | none => lat2dErr)
  | ["logx"] => some (lat2dShowOps m.lat.logX)
  | ["logz"] => some (lat2dShowOps m.lat.logZ)
  | ["axis", c] => some ((m.qubitAxis (parseCoord c)).getD lat2dErr)
  | ["type", c] => some ((m.stabilizerType (parseCoord c)).getD lat2dErr)
  | ["deform", name, axis, c] =>
    -- `-` = the keyword argument is omitted (`none`: the model substitutes the signature default)
    let ax := if axis == "-" then none else some axis
    some (match m.getDeformation name ax (parseCoord c) with
      | some d => lat2dShowMap d | none => lat2dErr)
  -- the matrices the generic code model (`Model/Code.lean`) assembles from the lattice model
  | ["hmat"] => some (match stabilizerMatrix m.lat.toCodeData with
      | some H => showStack H | none => "ERR key")
  | ["lxmat"] => some (match logicalsX m.lat.toCodeData with
      | some L => showStack L | none => "ERR key")
  | ["lzmat"] => some (match logicalsZ m.lat.toCodeData with
      | some L => showStack L | none => "ERR key")
  -- evaluated by the harness on the IMPLEMENTATION's parity-check matrix (members, rank)
  | ["rankfamily"] => some (lat2dShowCoords m.rankFamily)
  | ["n"] => some (toString m.lat.toCodeData.n)
  | ["k"] => some (toString m.lat.toCodeData.k)
  | _ => none

end Drv
