import Driver.OpsAnalysis
import PanqecVerif.Model.AnalysisWindow
open Panqec Panqec.An

/-! ops for `Model/AnalysisWindow.lean` (C16: which rows the fit sees and where it starts).

Token formats (no spaces inside a token):
* rows      `code:label:n:k:d:rate:pest;…`            (`pest` = `nan` for NaN, `-` = no rows)
* resrows   `code:label:n:k:d:rate:pest:em:dec:emLabel:decLabel:c=v,c=v;…`   (attrs `-` = none)
* truncspec `r-` | `r:<min|x>:<max|x>`  `+`  `d-` | `d:<min|x>:<max|x>`
* override  `filters#sector#truncspec|-#pth~se|-#skip`  joined by `|`   (filters `c=v,c=v` or `-`)
* state     `skips#replaces#overrides`: `a.b.c,…` # `a.b.c=pth~se,…` # `s.a.b.c=truncspec,…`  (`-` = empty)
-/
namespace Drv

def wParseOptRat (s : String) : Option (Option Rat) :=
  if s == "x" || s == "nan" then some none else (parseRat? s).map some

def parseTRow? (s : String) : Option TRow :=
  match s.splitOn ":" with
  | code :: label :: n :: k :: d :: rate :: pest :: _ =>
    match code.toNat?, label.toNat?, n.toNat?, k.toNat?, d.toNat?, parseRat? rate with
    | some code, some label, some n, some k, some d, some rate =>
      some { code := code, label := label, n := n, k := k, d := d, rate := rate, pest := parseRat? pest }
    | _, _, _, _, _, _ => none
  | _ => none

def parseTRows? (s : String) : Option (List TRow) :=
  if s == "-" then some [] else (s.splitOn ";").mapM parseTRow?

def wParsePair? (s : String) : Option (Nat × Nat) :=
  match s.splitOn "=" with
  | [a, b] => match a.toNat?, b.toNat? with
    | some a, some b => some (a, b)
    | _, _ => none
  | _ => none

def wParsePairs? (s : String) : Option (List (Nat × Nat)) :=
  if s == "-" then some [] else (s.splitOn ",").mapM wParsePair?

def parseResRow? (s : String) : Option ResRow :=
  match s.splitOn ":", parseTRow? s with
  | [_, _, _, _, _, _, _, em, dec, eml, decl, attrs], some row =>
    match em.toNat?, dec.toNat?, eml.toNat?, decl.toNat?, wParsePairs? attrs with
    | some em, some dec, some eml, some decl, some attrs =>
      some { row := row, em := em, dec := dec, emLabel := eml, decLabel := decl, attrs := attrs }
    | _, _, _, _, _ => none
  | _, _ => none

def parseResRows? (s : String) : Option (List ResRow) :=
  if s == "-" then some [] else (s.splitOn ";").mapM parseResRow?

def wParseTriple? (s : String) : Option Triple :=
  match s.splitOn "." with
  | [a, b, c] => match a.toNat?, b.toNat?, c.toNat? with
    | some a, some b, some c => some (a, b, c)
    | _, _, _ => none
  | _ => none

def parseTruncSpec? (s : String) : Option TruncSpec :=
  match s.splitOn "+" with
  | [r, d] =>
    let rp : Option (Bool × Option Rat × Option Rat) :=
      match r.splitOn ":" with
      | ["r-"] => some (false, none, none)
      | ["r", a, b] => match wParseOptRat a, wParseOptRat b with
        | some a, some b => some (true, a, b)
        | _, _ => none
      | _ => none
    let dp : Option (Bool × Option Nat × Option Nat) :=
      match d.splitOn ":" with
      | ["d-"] => some (false, none, none)
      | ["d", a, b] => some (true, a.toNat?, b.toNat?)
      | _ => none
    match rp, dp with
    | some (hr, a, b), some (hd, c, e) =>
      some { hasRate := hr, rmin := a, rmax := b, hasD := hd, dmin := c, dmax := e }
    | _, _ => none
  | _ => none

def wParseReplace? (s : String) : Option Replace :=
  match s.splitOn "~" with
  | [a, b] => match wParseOptRat a, wParseOptRat b with
    | some a, some b => some { pth := a, se := b }
    | _, _ => none
  | _ => none

def wParseOverride? (s : String) : Option Override :=
  match s.splitOn "#" with
  | [f, sec, tr, rp, sk] =>
    match wParsePairs? f, sec.toNat? with
    | some f, some sec =>
      let tr' : Option (Option TruncSpec) := if tr == "-" then some none else (parseTruncSpec? tr).map some
      let rp' : Option (Option Replace) := if rp == "-" then some none else (wParseReplace? rp).map some
      match tr', rp' with
      | some tr', some rp' => some { filters := f, sector := sec, truncate := tr', replace := rp', skip := sk == "1" }
      | _, _ => none
    | _, _ => none
  | _ => none

def wParseOverrides? (s : String) : Option (List Override) :=
  if s == "-" then some [] else (s.splitOn "|").mapM wParseOverride?

def wParseState? (s : String) : Option OvState :=
  match s.splitOn "#" with
  | [sk, rp, ov] =>
    let sk' : Option (List Triple) := if sk == "-" then some [] else (sk.splitOn ",").mapM wParseTriple?
    let rp' : Option (List (Triple × Replace)) :=
      if rp == "-" then some [] else (rp.splitOn ",").mapM fun t =>
        match t.splitOn "=" with
        | [k, v] => match wParseTriple? k, wParseReplace? v with
          | some k, some v => some (k, v)
          | _, _ => none
        | _ => none
    let ov' : Option (List ((Nat × Triple) × TruncSpec)) :=
      if ov == "-" then some [] else (ov.splitOn ",").mapM fun t =>
        match t.splitOn "=" with
        | [k, v] =>
          match k.splitOn ".", parseTruncSpec? v with
          | [s, a, b, c], some v => match s.toNat?, a.toNat?, b.toNat?, c.toNat? with
            | some s, some a, some b, some c => some ((s, (a, b, c)), v)
            | _, _, _, _ => none
          | _, _ => none
        | _ => none
    match sk', rp', ov' with
    | some sk', some rp', some ov' => some { skips := sk', replaces := rp', overrides := ov' }
    | _, _, _ => none
  | _ => none

def wShowOptRat (r : Option Rat) : String := r.elim "x" toString
def wShowOptNat (r : Option Nat) : String := r.elim "x" toString
def wShowTriple (t : Triple) : String := s!"{t.1}.{t.2.1}.{t.2.2}"

def showTruncSpec (t : TruncSpec) : String :=
  (if t.hasRate then s!"r:{wShowOptRat t.rmin}:{wShowOptRat t.rmax}" else "r-") ++ "+" ++
  (if t.hasD then s!"d:{wShowOptNat t.dmin}:{wShowOptNat t.dmax}" else "d-")

def wShowReplace (r : Replace) : String := s!"{wShowOptRat r.pth}~{wShowOptRat r.se}"

def wOrDash (l : List String) : String := if l.isEmpty then "-" else ",".intercalate l

def wInsertStr (x : String) : List String → List String
  | [] => [x]
  | y :: ys => if x ≤ y then x :: y :: ys else y :: wInsertStr x ys

def wSortStrs (l : List String) : List String := l.foldr wInsertStr []

/-- canonical dump of `skips` (in order), `replaces`, `overrides` (dict contents, sorted by key) and the
    number of `extra_thresholds` -/
def wShowState (st : OvState) : String :=
  let rks := (st.replaces.map (·.1)).eraseDups
  let rp := rks.filterMap fun k => (st.replaces.lookup k).map fun v => s!"{wShowTriple k}={wShowReplace v}"
  let oks := (st.overrides.map (·.1)).eraseDups
  let ov := oks.filterMap fun k => (st.overrides.lookup k).map fun v => s!"{k.1}.{wShowTriple k.2}={showTruncSpec v}"
  s!"{wOrDash (st.skips.map wShowTriple)}#{wOrDash (wSortStrs rp)}#{wOrDash (wSortStrs ov)}#{st.extra.length}"

def wShowIdx (r : Except WErr (Nat × Nat × Nat)) : String :=
  match r with
  | .ok (a, b, c) => s!"{a} {b} {c}"
  | .error e => e.text

/-- the implementation's row of the thresholds table:
    `a.b.c#F#pn#psd#pl#pr#ntrunc#p0#f0`  or  `a.b.c#R#pn#psd#pl#pr#pth#left#right#se`  or `a.b.c#U#pn#psd#pl#pr` -/
def wCheckEntry (e : ThreshEntry) (given : String) : String :=
  let g := given.splitOn "#"
  let w := e.window
  let num (i : Nat) : Option Rat := parseRat? (g.getD i "")
  let base := [chkRat "p_th_nearest" (num 2) (some w.pNearest), chkRat "p_th_sd" (num 3) (some w.pSd),
               chkRat "p_left" (num 4) (some w.pLeft), chkRat "p_right" (num 5) (some w.pRight)]
  let keyOk := g.getD 0 "" == wShowTriple e.key
  let (kind, rest) : String × List String :=
    match e with
    | .fitted _ _ n p0 f0 =>
      ("F", [verdict "n_trunc" (g.getD 6 "" == toString n) (toString n), chkRat "p0[0]" (num 7) (some p0),
             chkRat "p0[2]" (num 8) (some f0)])
    | .replaced _ _ (pth, l, r, se) =>
      ("R", [chkRat "p_th_fss" (num 6) (some pth), chkRat "left" (num 7) (some l), chkRat "right" (num 8) (some r),
             chkRat "se" (num 9) (some se)])
    | .unfitted _ _ => ("U", [])
  if !keyOk then s!"far:key~{wShowTriple e.key}"
  else if g.getD 1 "" != kind then s!"far:kind~{kind}"
  else match (base ++ rest).find? (· != "ok") with
    | some bad => bad
    | none => "ok"

def wParseGrid? (s : String) : Option (List Rat) := (splitComma s).mapM parseRat?

/-- mode `default` or `auto:<grid>@<grid>@…` (one grid per parameter set in sorted order, `-` = none) -/
def wCalcOp (sector : Nat) (mode : String) (st : OvState) (rs : List ResRow) (given : String) : String :=
  let keys := paramSets rs
  let gs : Option (List (List Rat)) :=
    if mode.startsWith "auto:" then ((mode.drop 5).toString.splitOn "@").mapM wParseGrid? else some []
  match gs with
  | none => "ERR parse"
  | some gs =>
  let tbl : List (List TRow × List Rat) :=
    (keys.zip gs).map fun (k, g) => ((rs.filter fun r => r.labelKey == k).map (·.row), g)
  let wm : WindowMode :=
    if mode == "default" then .default
    else .auto sqrtApprox fun rows _ => ((tbl.find? fun t => t.1 == rows).map (·.2)).getD []
  match calcThresholds st sector wm rs with
  | .error e => e.text
  | .ok es =>
    let gv := if given == "-" then [] else given.splitOn "|"
    if gv.length ≠ es.length then s!"far:entries~{es.length}"
    else
      match ((es.zip gv).map fun (e, g) => wCheckEntry e g).find? (· != "ok") with
      | some bad => bad
      | none => s!"ok {es.length}"

/-- Inputs on which the implementation's answer is decided by floating-point noise, so that an exact model
    cannot be compared: two neighbouring grid points whose exact SDs are EQUAL (the implementation sees a
    rounding-level difference of either sign, e.g. `std([c, c, c]) = 4e-18`), unless all curves are exactly 0
    at both points (then the float SD is an exact 0 as well); or two candidate minima with equal peak heights. -/
def sdFragile (grid : List Rat) (rows : List TRow) : Bool :=
  let cv := curveValues rows grid
  let var := cv.map sampleVariance
  let zero := cv.map fun vs => vs.all (· == 0)
  let n := var.length
  let tie := (List.range (n - 1)).any fun i =>
    var.getD i 0 == var.getD (i + 1) 1 && !(zero.getD i false && zero.getD (i + 1) false)
  let sd := var.map sqrtApprox
  let hs := (sdMinima sd).map (peakHeight sd (sdMaxima sd))
  let best := hs.foldl max 0
  tie || (hs.filter (· == best)).length > 1

def handleAnalysisWindow : List String → Option String
  | ["winnearest", rows] =>
    some ((parseTRows? rows).elim "ERR parse" fun rows =>
      match pThNearest rows with
      | .ok p => toString p
      | .error e => e.text)
  | ["wincols", rows] =>
    some ((parseTRows? rows).elim "ERR parse" fun rows => wOrDash ((codeColumns rows).map toString))
  | ["winsd", grid, rows] =>
    some (match wParseGrid? grid, parseTRows? rows with
      | some grid, some rows => wShowIdx (sdInterpIdx sqrtApprox grid rows)
      | _, _ => "ERR parse")
  | ["winsdfragile", grid, rows] =>
    some (match wParseGrid? grid, parseTRows? rows with
      | some grid, some rows =>
        if rows.isEmpty || !sdDomain rows || (labelsOf rows).length < 2 then "robust"
        else if sdFragile grid rows then "fragile" else "robust"
      | _, _ => "ERR parse")
  | ["wingrid", res, pn, rows, grid] =>
    -- numpy's `arange` against the exact grid: length ceil(q - 1e-9) ≤ n ≤ ceil(q + 1e-9), every point within
    -- relative 1e-12 of p_min + i res
    some (match parseRat? res, wParseOptRat pn, parseTRows? rows, wParseGrid? grid with
      | some res, some pn, some rows, some grid =>
        match minList (rows.map (·.rate)), maxList (rows.map (·.rate)) with
        | some lo, some hi =>
          let q := (pmaxEff lo hi pn + res - lo) / res
          let n := grid.length
          let t : Rat := 1 / 1000000000
          let exact := sdGridLen res rows pn
          if !((q - t).ceil.toNat ≤ n ∧ n ≤ (q + t).ceil.toNat) then s!"far:len~{exact}"
          else if !((grid.zip (exactGrid lo res n)).all fun (a, b) => within eps 0 a b) then "far:points"
          else if n == exact then "ok exact" else "ok off-by-one"
        | _, _ => "ERR empty"
      | _, _, _, _ => "ERR parse")
  | ["wingridlen", res, pn, rows] =>
    some (match parseRat? res, wParseOptRat pn, parseTRows? rows with
      | some res, some pn, some rows => toString (sdGridLen res rows pn)
      | _, _, _ => "ERR parse")
  | ["winfit", pl, pr, pn, rows, n, p0, f0] =>
    some (match parseRat? pl, parseRat? pr, parseRat? pn, parseTRows? rows with
      | some pl, some pr, some pn, some rows =>
        match firstFitStart rows pl pr pn with
        | .ok (m, q0, g0) =>
          s!"{verdict "n_trunc" (n == toString m) (toString m)} {chkRat "p0[0]" (parseRat? p0) (some q0)} " ++
          s!"{chkRat "p0[2]" (parseRat? f0) (some g0)}"
        | .error e => e.text
      | _, _, _, _ => "ERR parse")
  | ["winapply", rs, spec] =>
    some (match parseResRows? rs, wParseOverrides? spec with
      | some rs, some spec => wShowState (applyOverrides rs spec)
      | _, _ => "ERR parse")
  | ["wincalc", sector, mode, st, rs, given] =>
    some (match sector.toNat?, wParseState? st, parseResRows? rs with
      | some sector, some st, some rs => wCalcOp sector mode st rs given
      | _, _, _ => "ERR parse")
  | ["wincalcspec", sector, mode, spec, rs, given] =>
    -- the same with the state produced by `apply_overrides` from a spec
    some (match sector.toNat?, wParseOverrides? spec, parseResRows? rs with
      | some sector, some spec, some rs => wCalcOp sector mode (applyOverrides rs spec) rs given
      | _, _, _ => "ERR parse")
  | ["winse", col, se] =>
    some (match (splitComma col).mapM parseRat? with
      | some vs =>
        if vs.isEmpty then (if (parseRat? se).isNone then "ok" else "far:se~nan")
        else chkSqrt "p_th_fss_se" (parseRat? se) (some (popVariance vs))
      | none => "ERR parse")
  | _ => none

end Drv
