import Driver.Common
import PanqecVerif.Model.UtilsPure
open Panqec

/-! ops for `Model/UtilsPure.lean` (pure helpers of `panqec/utils.py`).
    ints joined by `,` (`-` = empty); rows by `|` (`_` = no row); slabs by `/`;
    nested lists in Python syntax without blanks, e.g. `[1,[2,[]],3]`. -/
namespace Drv
open Panqec.UtilsPure

def utlInts (s : String) : List Int :=
  if s == "-" then [] else (s.splitOn ",").filterMap fun t => t.toInt?

def utlRows (s : String) : List (List Int) :=
  if s == "_" then [] else (s.splitOn "|").map utlInts

def utlShowNats (t : List Nat) : String := ",".intercalate (t.map toString)
def utlShowInts (t : List Int) : String := ",".intercalate (t.map toString)
def utlShowTuples (ts : List (List Nat)) : String :=
  if ts.isEmpty then "_" else "|".intercalate (ts.map utlShowNats)

def utlErr : PyErr → String
  | .valueError => "ERR ValueError"
  | .indexError => "ERR IndexError"
  | .typeError => "ERR TypeError"

/-- parser of nested integer lists: returns the value and the rest of the input -/
partial def utlParseNL : List Char → Option (NL × List Char)
  | '[' :: rest =>
    let rec items (cs : List Char) (acc : List NL) : Option (List NL × List Char) :=
      match cs with
      | ']' :: r => some (acc.reverse, r)
      | ',' :: r => items r acc
      | _ => match utlParseNL cs with
        | some (x, r) => items r (x :: acc)
        | none => none
    (items rest []).map fun (xs, r) => (NL.node xs, r)
  | cs =>
    let tok := cs.takeWhile fun c => c == '-' || c.isDigit
    if tok.isEmpty then none
    else (String.ofList tok).toInt?.map fun v => (NL.leaf v, cs.drop tok.length)

partial def utlShowNL : NL → String
  | .leaf v => toString v
  | .node xs => "[" ++ ",".intercalate (xs.map utlShowNL) ++ "]"

def utlInsert (k : Nat) : List Nat → List Nat
  | [] => [k]
  | x :: xs => if k ≤ x then k :: x :: xs else x :: utlInsert k xs

def handleUtilsPure : List String → Option String
  | ["utl", "where1", v] => some (utlShowTuples (listWhere1 (utlInts v)))
  | ["utl", "where2", m] => some (utlShowTuples (listWhere2 (utlRows m)))
  | ["utl", "where3", a] => some (utlShowTuples (listWhere3 ((a.splitOn "/").map utlRows)))
  | ["utl", "wherestr1", v] => some ("\"" ++ whereStr (listWhere1 (utlInts v)) ++ "\"" |>.replace " " "_")
  | ["utl", "wherestr2", m] => some ("\"" ++ whereStr (listWhere2 (utlRows m)) ++ "\"" |>.replace " " "_")
  | ["utl", "dictwhere", ks, vs] =>
    let d := ((utlInts ks).map Int.toNat).zip (utlInts vs)
    some (utlShowNats ((dictWhere d).foldr utlInsert []) |> fun s => if s.isEmpty then "-" else s)
  | ["utl", "nestedmap", a, b, x] =>
    match utlParseNL x.toList, a.toInt?, b.toInt? with
    | some (nl, []), some a', some b' => some (utlShowNL (NL.map (fun v => a' * v + b') nl))
    | _, _, _ => some "bad-nested-list"
  | ["utl", kind, items, size] =>
    if kind == "face" || kind == "edge" then
      let r := (if kind == "face" then faceCoords else edgeCoords) (utlRows items) (utlInts size)
      some (match r with
        | .error e => utlErr e
        | .ok cs => if cs.isEmpty then "_" else "|".intercalate (cs.map utlShowInts))
    else if kind == "nearest" then
      some (match findNearest (utlInts items) (size.toInt?.getD 0) with
        | .error e => utlErr e
        | .ok v => toString v)
    else none
  | _ => none

end Drv
