import Driver.Common
import PanqecVerif.Generated.GuiFull
import PanqecVerif.Model.GuiReprClasses
open Panqec Panqec.GuiRepr

/-! ops for the `/code-data` payload (C20): `guidata <Class> <Lx>x<Ly>[x<Lz>] <deformation> <0|1> <part>`
    with the regenerated full `gui-config.json` table; deformation names are sent with `~` for a blank -/
namespace Drv

def guiShowDescs (ds : List Desc) : String :=
  if ds.isEmpty then "_" else "\t".intercalate (ds.map fun d => (JV.obj d).render)

def guiPart (p : Payload) : List String → Option String
  | ["counts"] => some s!"{p.qubits.length} {p.stabilizers.length}"
  | ["H"] => some (showStack p.H)
  | ["logx"] => some (showStack p.logicalX)
  | ["logz"] => some (showStack p.logicalZ)
  | ["qubits"] => some (guiShowDescs p.qubits)
  | ["stabs"] => some (guiShowDescs p.stabilizers)
  | _ => none

def handleGuiRepr : List String → Option String
  | "guidata" :: cls :: size :: name :: rot :: part =>
    match geomOf cls ((size.splitOn "x").filterMap (·.toNat?)) with
    | none => some "ERR class"
    | some g =>
      match g.describeAll Panqec.Generated.GuiFull.tables (name.replace "~" " ") (rot == "1") with
      | .error e => some ("ERR " ++ e)
      | .ok p => guiPart p part
  | _ => none

end Drv
