import Driver.Common
import Driver.OpsCode
import PanqecVerif.Model.Lattices.HollowPlanar3DCode
open Panqec

/-! ops for `Model/Lattices/HollowPlanar3DCode.lean`: `lat HollowPlanar3DCode <Lx> <Ly> <Lz> <query…>` -/
namespace Drv

def hollowPlanar3DCodeShowCoords (cs : List Coord) : String :=
  if cs.isEmpty then "_" else ";".intercalate (cs.map showCoord)

def hollowPlanar3DCodeShowOps (ops : List Op) : String :=
  if ops.isEmpty then "_" else "|".intercalate (ops.map showOp)

def hollowPlanar3DCodeShowMap (m : PauliMap) : String :=
  String.ofList [m.x.toChar, m.y.toChar, m.z.toChar]

def hollowPlanar3DCodeQuery (Lx Ly Lz : Nat) : List String → Option String
  | ["qubits"] => some (hollowPlanar3DCodeShowCoords (HollowPlanar3DCode.qubits Lx Ly Lz))
  | ["stabs"] => some (hollowPlanar3DCodeShowCoords (HollowPlanar3DCode.stabs Lx Ly Lz))
  | ["stab", c] =>
    some (match HollowPlanar3DCode.getStab? Lx Ly Lz (parseCoord c) with
      | none => "ERR value" | some op => showOp op)
  | ["logx"] => some (hollowPlanar3DCodeShowOps (HollowPlanar3DCode.logX Lx Ly Lz))
  | ["logz"] => some (hollowPlanar3DCodeShowOps (HollowPlanar3DCode.logZ Lx Ly Lz))
  | ["axis", c] =>
    some (match HollowPlanar3DCode.qubitAxis (parseCoord c) with
      | none => "ERR value" | some a => a.toString)
  | ["type", c] =>
    some (match HollowPlanar3DCode.stabilizerType Lx Ly Lz (parseCoord c) with
      | none => "ERR value" | some t => t.toString)
  | ["deform", name, axis, c] =>
    some (match HollowPlanar3DCode.getDeformation name (if axis == "-" then none else some axis) (parseCoord c) with
      | none => "ERR notimplemented" | some m => hollowPlanar3DCodeShowMap m)
  | ["rankfamily"] => some (hollowPlanar3DCodeShowCoords (HollowPlanar3DCode.rankFamily Lx Ly Lz))
  | ["n"] => some (toString (HollowPlanar3DCode.lattice Lx Ly Lz).qubits.length)
  | ["k"] => some (toString (HollowPlanar3DCode.lattice Lx Ly Lz).logX.length)
  | _ => none

def handleLatHollowPlanar3DCode : List String → Option String
  | "lat" :: "HollowPlanar3DCode" :: lx :: ly :: lz :: rest =>
    match lx.toNat?, ly.toNat?, lz.toNat? with
    | some Lx, some Ly, some Lz => hollowPlanar3DCodeQuery Lx Ly Lz rest
    | _, _, _ => none
  | _ => none

end Drv
