import Driver.Common
import Driver.OpsCode
import PanqecVerif.Model.Lattices.RhombicToricCode
open Panqec

/-! ops for `Model/Lattices/RhombicToricCode.lean` (C01 hand-written lattice model):
    `lat RhombicToricCode <Lx> <Ly> <Lz> <query>`.  The deformation name may contain spaces
    (`'Checkerboard XZZX'`): it is the rest of the line after the location. -/
namespace Drv

def rhombicToricCodeShowCoords (cs : List Coord) : String :=
  if cs.isEmpty then "_" else ";".intercalate (cs.map showCoord)

def rhombicToricCodeShowOps (ops : List Op) : String :=
  if ops.isEmpty then "_" else "|".intercalate (ops.map showOp)

def rhombicToricCodeQuery (Lx Ly Lz : Nat) : List String → Option String
  | ["qubits"] => some (rhombicToricCodeShowCoords (RhombicToricCode.qubits Lx Ly Lz))
  | ["stabs"] => some (rhombicToricCodeShowCoords (RhombicToricCode.stabs Lx Ly Lz))
  | ["stab", c] =>
    some (match RhombicToricCode.getStab? Lx Ly Lz (parseCoord c) with
      | none => "ERR value" | some op => showOp op)
  | ["logx"] => some (rhombicToricCodeShowOps (RhombicToricCode.logX Lx Ly Lz))
  | ["logz"] => some (rhombicToricCodeShowOps (RhombicToricCode.logZ Lx Ly Lz))
  | ["axis", c] =>
    some ((RhombicToricCode.qubitAxis (parseCoord c)).getD "ERR value")
  | ["type", c] =>
    some ((RhombicToricCode.stabilizerType Lx Ly Lz (parseCoord c)).getD "ERR value")
  | "deform" :: c :: name =>
    some (match RhombicToricCode.getDeformation (" ".intercalate name) (parseCoord c) with
      | none => "ERR value" | some m => Lat3Db.showPauliMap m)
  | ["rankfamily"] => some (rhombicToricCodeShowCoords (RhombicToricCode.selStabs Lx Ly Lz))
  | ["n"] => some (toString (RhombicToricCode.lattice Lx Ly Lz).toCodeData.n)
  | ["k"] => some (toString (RhombicToricCode.lattice Lx Ly Lz).toCodeData.k)
  | _ => none

def handleLatRhombicToricCode : List String → Option String
  | "lat" :: "RhombicToricCode" :: lx :: ly :: lz :: rest =>
    match lx.toNat?, ly.toNat?, lz.toNat? with
    | some Lx, some Ly, some Lz => rhombicToricCodeQuery Lx Ly Lz rest
    | _, _, _ => none
  | _ => none

end Drv
