import Driver.Common
import PanqecVerif.Model.BSparse
open Panqec

/-! ops for `Model/BSparse.lean` (C03, `panqec/bsparse.py`).

Argument encoding (one token, no spaces):
* `csr:<dt>:<ncols>:<rows>`   rows = `_` (no row) or rows joined by `|`; a row = `-` (nothing stored)
                               or entries `col.value` joined by `,` in STORAGE order
* `a1:<dt>:<vals>`            1-D ndarray, vals joined by `,` or `-`
* `a2:<dt>:<ncols>:<rows>`    2-D ndarray
* `l1:<vals>` / `l2:<ncols>:<rows>`   list / list of lists
* `int:<k>`
lists of arguments are joined by `;` (`[]` = empty list); dt ∈ u8, i64, bool. -/
namespace Drv
open Panqec.BSp

def bspDT (s : String) : DT := if s == "i64" then .i64 else if s == "bool" then .bool else .u8
def bspShowDT : DT → String
  | .u8 => "u8" | .i64 => "i64" | .bool => "bool"

def bspNats (s : String) : List Nat :=
  if s == "-" then [] else (s.splitOn ",").filterMap fun t => t.toNat?

def bspEntries (s : String) : List Entry :=
  if s == "-" then [] else (s.splitOn ",").filterMap fun t =>
    match t.splitOn "." with
    | [c, v] => some (c.toNat!, v.toNat!)
    | _ => none

def bspRows {α} (f : String → α) (s : String) : List α :=
  if s == "_" then [] else (s.splitOn "|").map f

def bspArg (s : String) : Option Arg :=
  match s.splitOn ":" with
  | ["csr", dt, nc, rows] => some (.csr ⟨nc.toNat!, bspDT dt, bspRows bspEntries rows⟩)
  | ["a1", dt, vals] => some (.arr1 (bspDT dt) (bspNats vals))
  | ["a2", dt, nc, rows] => some (.arr2 (bspDT dt) nc.toNat! (bspRows bspNats rows))
  | ["l1", vals] => some (.list1 (bspNats vals))
  | ["l2", nc, rows] => some (.list2 nc.toNat! (bspRows bspNats rows))
  | ["int", k] => k.toInt?.map Arg.int
  | _ => none

def bspArgs (s : String) : Option (List Arg) :=
  if s == "[]" then some [] else (s.splitOn ";").mapM bspArg

def bspShowNats (v : List Nat) : String :=
  if v.isEmpty then "-" else ",".intercalate (v.map toString)

def bspShowEntries (r : List Entry) : String :=
  if r.isEmpty then "-" else ",".intercalate (r.map fun e => s!"{e.1}.{e.2}")

def bspShowRows {α} (f : α → String) (rows : List α) : String :=
  if rows.isEmpty then "_" else "|".intercalate (rows.map f)

def bspShowCsr (m : Csr) : String :=
  s!"csr:{bspShowDT m.dt}:{m.ncols}:{bspShowRows bspShowEntries m.rows}"

def bspShowArg : Arg → String
  | .csr m => bspShowCsr m
  | .arr1 dt v => s!"a1:{bspShowDT dt}:{bspShowNats v}"
  | .arr2 dt nc rows => s!"a2:{bspShowDT dt}:{nc}:{bspShowRows bspShowNats rows}"
  | .list1 v => s!"l1:{bspShowNats v}"
  | .list2 nc rows => s!"l2:{nc}:{bspShowRows bspShowNats rows}"
  | .int k => s!"int:{k}"

def bspShowErr : PyErr → String
  | .valueError => "ERR ValueError"
  | .typeError => "ERR TypeError"
  | .indexError => "ERR IndexError"
  | .attributeError => "ERR AttributeError"

def bspOut {α} (f : α → String) : Except PyErr α → String
  | .error e => bspShowErr e
  | .ok x => f x

def bspBool (b : Bool) : String := if b then "True" else "False"

def bspInts (s : String) : List Int :=
  if s == "-" then [] else (s.splitOn ",").filterMap fun t => t.toInt?

def handleBSparse : List String → Option String
  | ["bsp", "zero_row", n] => n.toInt?.map fun k => bspOut bspShowCsr (zeroRow k)
  | ["bsp", "empty_row", n] => n.toInt?.map fun k => bspOut bspShowCsr (emptyRow k)
  | ["bsp", "zero_matrix", sh] => some (bspOut bspShowCsr (zeroMatrix (bspInts sh)))
  | ["bsp", "from_array", a] => (bspArg a).map fun x => bspOut bspShowCsr (fromArray x)
  | ["bsp", "to_array", a] => (bspArg a).map fun x => bspOut bspShowArg (toArray x)
  | ["bsp", "is_empty", a] => (bspArg a).map fun x => bspOut bspBool (isEmpty x)
  | ["bsp", "is_sparse", a] => (bspArg a).map fun x => bspBool (isSparse x)
  | ["bsp", "is_one", i, a] => (bspArg a).map fun x => bspOut bspBool (isOne i.toNat! x)
  | ["bsp", "insert_mod2", i, a] => (bspArg a).map fun x => bspOut bspShowCsr (insertMod2 i.toNat! x)
  | ["bsp", "insert_seq", is, a] => (bspArg a).map fun x =>
      let r := (bspNats is).foldl (fun (acc : Except PyErr Arg) i =>
        match acc with
        | .error e => .error e
        | .ok y => (insertMod2 i y).map Arg.csr) (.ok x)
      match r with
      | .error e => bspShowErr e
      | .ok y => s!"{bspShowArg y} {bspOut bspShowArg (toArray y)} {bspOut bspBool (isOne ((bspNats is).headD 0) y)}"
  | ["bsp", "vstack", l] => (bspArgs l).map fun xs => bspOut bspShowCsr (vstack xs)
  | ["bsp", "hstack", l] => (bspArgs l).map fun xs => bspOut bspShowCsr (hstack xs)
  | ["bsp", "hsplit", a] => (bspArg a).map fun x =>
      bspOut (fun p : Arg × Arg => s!"{bspShowArg p.1} {bspShowArg p.2}") (hsplit x)
  | ["bsp", "dot", a, b] => do
      let x ← bspArg a
      let y ← bspArg b
      pure (bspOut toString (dot x y))
  | ["bsp", "equal", a, b] => do
      let x ← bspArg a
      let y ← bspArg b
      pure (bspOut bspBool (equal x y))
  | _ => none

end Drv
