import Driver.Common
import Driver.OpsCode
import PanqecVerif.Model.Lattices.Toric3DCode
open Panqec

/-! ops for `Model/Lattices/Toric3DCode.lean`: `lat Toric3DCode <Lx> <Ly> <Lz> <query…>` -/
namespace Drv

def toric3DCodeShowCoords (cs : List Coord) : String :=
  if cs.isEmpty then "_" else ";".intercalate (cs.map showCoord)

def toric3DCodeShowOps (ops : List Op) : String :=
  if ops.isEmpty then "_" else "|".intercalate (ops.map showOp)

def toric3DCodeShowMap (m : PauliMap) : String :=
  String.ofList [m.x.toChar, m.y.toChar, m.z.toChar]

def toric3DCodeQuery (Lx Ly Lz : Nat) : List String → Option String
  | ["qubits"] => some (toric3DCodeShowCoords (Toric3DCode.qubits Lx Ly Lz))
  | ["stabs"] => some (toric3DCodeShowCoords (Toric3DCode.stabs Lx Ly Lz))
  | ["stab", c] =>
    some (match Toric3DCode.getStab? Lx Ly Lz (parseCoord c) with
      | none => "ERR value" | some op => showOp op)
  | ["logx"] => some (toric3DCodeShowOps (Toric3DCode.logX Lx Ly Lz))
  | ["logz"] => some (toric3DCodeShowOps (Toric3DCode.logZ Lx Ly Lz))
  | ["axis", c] =>
    some (match Toric3DCode.qubitAxis (parseCoord c) with
      | none => "ERR value" | some a => a.toString)
  | ["type", c] =>
    some (match Toric3DCode.stabilizerType Lx Ly Lz (parseCoord c) with
      | none => "ERR value" | some t => t.toString)
  | ["deform", name, axis, c] =>
    some (match Toric3DCode.getDeformation name (if axis == "-" then none else some axis) (parseCoord c) with
      | none => "ERR value" | some m => toric3DCodeShowMap m)
  | ["rankfamily"] => some (toric3DCodeShowCoords (Toric3DCode.rankFamily Lx Ly Lz))
  | ["n"] => some (toString (Toric3DCode.lattice Lx Ly Lz).qubits.length)
  | ["k"] => some (toString (Toric3DCode.lattice Lx Ly Lz).logX.length)
  | _ => none

def handleLatToric3DCode : List String → Option String
  | "lat" :: "Toric3DCode" :: lx :: ly :: lz :: rest =>
    match lx.toNat?, ly.toNat?, lz.toNat? with
    | some Lx, some Ly, some Lz => toric3DCodeQuery Lx Ly Lz rest
    | _, _, _ => none
  | _ => none

end Drv
