import Driver.Common
import Driver.OpsCode
import PanqecVerif.Model.Lattices.XCubeCode
open Panqec

/-! ops for `Model/Lattices/XCubeCode.lean` (C01 hand-written lattice model):
    `lat XCubeCode <Lx> <Ly> <Lz> <query>` -/
namespace Drv

def xCubeCodeShowCoords (cs : List Coord) : String :=
  if cs.isEmpty then "_" else ";".intercalate (cs.map showCoord)

def xCubeCodeShowOps (ops : List Op) : String :=
  if ops.isEmpty then "_" else "|".intercalate (ops.map showOp)

def xCubeCodeQuery (Lx Ly Lz : Nat) : List String → Option String
  | ["qubits"] => some (xCubeCodeShowCoords (XCubeCode.qubits Lx Ly Lz))
  | ["stabs"] => some (xCubeCodeShowCoords (XCubeCode.stabs Lx Ly Lz))
  | ["stab", c] =>
    some (match XCubeCode.getStab? Lx Ly Lz (parseCoord c) with
      | none => "ERR value" | some op => showOp op)
  | ["logx"] => some (xCubeCodeShowOps (XCubeCode.logX Lx Ly Lz))
  | ["logz"] => some (xCubeCodeShowOps (XCubeCode.logZ Lx Ly Lz))
  | ["axis", c] =>
    some ((XCubeCode.qubitAxis (parseCoord c)).getD "ERR value")
  | ["type", c] =>
    some ((XCubeCode.stabilizerType Lx Ly Lz (parseCoord c)).getD "ERR value")
  | ["deform", name, axis, c] =>
    -- `-` = the keyword argument `deformation_axis` is omitted
    some (match XCubeCode.getDeformation name (if axis == "-" then none else some axis) (parseCoord c) with
      | none => "ERR value" | some m => Lat3Db.showPauliMap m)
  | ["rankfamily"] => some (xCubeCodeShowCoords (XCubeCode.selStabs Lx Ly Lz))
  | ["n"] => some (toString (XCubeCode.lattice Lx Ly Lz).toCodeData.n)
  | ["k"] => some (toString (XCubeCode.lattice Lx Ly Lz).toCodeData.k)
  | _ => none

def handleLatXCubeCode : List String → Option String
  | "lat" :: "XCubeCode" :: lx :: ly :: lz :: rest =>
    match lx.toNat?, ly.toNat?, lz.toNat? with
    | some Lx, some Ly, some Lz => xCubeCodeQuery Lx Ly Lz rest
    | _, _, _ => none
  | _ => none

end Drv
