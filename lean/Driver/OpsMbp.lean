import Driver.Common
import Driver.OpsDecoders
import PanqecVerif.Model.MbpDecoder
open Panqec

/-! ops for `Model/MbpDecoder.lean` (C05, C06): glue of `MemoryBeliefPropagationDecoder`.

`dec.mbp H n maxIter syndrome v1;v2;…`: the hard decisions of the iterations are recovered from the
vectors `v_k` the implementation handed to `measure_syndrome` (recorded by a spy); the model runs
its loop on them and prints the number of iterations it ran and the returned vector.
`dec.mbp.hpauli H`: `symplectic_to_pauli`.  `dec.mbp.p2s a reverse`: `pauli_to_symplectic`. -/
namespace Drv

/-- the message pair that produces the Pauli with bits `(x, z)` -/
def mbpMsgOfBits (x z : Nat) : Bool × Fin 3 :=
  if x ≠ 0 then (if z ≠ 0 then (false, 1) else (false, 0))
  else (if z ≠ 0 then (false, 2) else (true, 0))

def mbpMsgs (n : Nat) (recorded : List Vec) (it : Nat) : List (Bool × Fin 3) :=
  match recorded[it]? with
  | none => []
  | some v => (List.range n).map fun q => mbpMsgOfBits (v.getD q 0) (v.getD (n + q) 0)

def handleMbp : List String → Option String
  | ["dec.mbp", h, n, mi, syn, recs] =>
    let H := parseStack h
    let n := n.toNat!
    let r := Mbp.decode H n mi.toNat! (mbpMsgs n ((parseList ";" recs).map parseVec)) (parseVec syn)
    some (s!"{r.2} " ++ (match r.1 with
      | .ok c => showVec c
      | .error .unboundLocal => "ERR UnboundLocalError"))
  | ["dec.mbp.hpauli", h] => some (showStack (Mbp.symplecticToPauli (parseStack h)))
  | ["dec.mbp.p2s", a, rev] => some (showVec (Mbp.pauliToSymplectic (parseVec a) (rev == "1")))
  | _ => none

end Drv
