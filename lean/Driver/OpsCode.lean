import Driver.Common
open Panqec

/-! ops for `Model/Code.lean` (C02, C04, C08, C17) -/
namespace Drv

def parseInt (s : String) : Int :=
  if s.startsWith "-" then - ((s.drop 1).toString.toNat!) else s.toNat!

def parseCoord (s : String) : Coord := (s.splitOn ".").map parseInt
def showCoord (c : Coord) : String := ".".intercalate (c.map toString)

def parseCoords (s : String) : List Coord :=
  if s == "_" then [] else (s.splitOn ";").map parseCoord

def parsePauli (s : String) : Pauli :=
  match s.toList with
  | [c] => (Pauli.ofChar? c).getD .I
  | _ => .I

def parseOp (s : String) : Op :=
  if s == "-" || s == "_" then []
  else (s.splitOn ";").map fun t =>
    match t.splitOn ":" with
    | [c, p] => (parseCoord c, parsePauli p)
    | _ => ([], .I)

def showOp (op : Op) : String :=
  if op.isEmpty then "-"
  else ";".intercalate (op.map fun (c, p) => showCoord c ++ ":" ++ String.singleton p.toChar)

def parseOps (s : String) : List Op :=
  if s == "_" then [] else (s.splitOn "|").map parseOp

def parsePauliMap (s : String) : PauliMap :=
  match s.toList with
  | [a, b, c] => ⟨(Pauli.ofChar? a).getD .I, (Pauli.ofChar? b).getD .I, (Pauli.ofChar? c).getD .I⟩
  | _ => PauliMap.id

/-- `coord:ZYX;coord:XYZ` -/
def parseDeform (s : String) : List (Coord × PauliMap) :=
  if s == "_" then []
  else (s.splitOn ";").map fun t =>
    match t.splitOn ":" with
    | [c, m] => (parseCoord c, parsePauliMap m)
    | _ => ([], PauliMap.id)

def lookupDeform (tbl : List (Coord × PauliMap)) (q : Coord) : PauliMap :=
  match tbl.find? (·.1 == q) with
  | some (_, m) => m
  | none => PauliMap.id

def b01 (b : Bool) : String := if b then "1" else "0"
def showMask (m : List Bool) : String :=
  if m.isEmpty then "-" else String.ofList (m.map fun b => if b then '1' else '0')

def handleCode : List String → Option String
  | ["tobsf", qs, op] =>
    some (match toBsfFold (parseCoords qs) (parseOp op) with
      | none => "ERR key" | some v => showVec v)
  | ["tobsfspec", qs, op] =>
    some (match toBsf (parseCoords qs) (parseOp op) with
      | none => "ERR key" | some v => showVec v)
  | ["hmat", qs, ops] =>
    let c : CodeData := { qubits := parseCoords qs, stabs := [], stabOps := parseOps ops, logX := [], logZ := [] }
    some (match stabilizerMatrixFold c with
      | none => "ERR key" | some H => showStack H)
  | ["hmatspec", qs, ops] =>
    let c : CodeData := { qubits := parseCoords qs, stabs := [], stabOps := parseOps ops, logX := [], logZ := [] }
    some (match stabilizerMatrix c with
      | none => "ERR key" | some H => showStack H)
  | ["frombsf", qs, v] => some (showOp (fromBsf (parseCoords qs) (parseVec v)))
  | ["css", H] =>
    let h := parseStack H
    some s!"{showMask (xIndices h)} {showMask (zIndices h)} {b01 (isCss h)}"
  | ["hx", H] =>
    let h := parseStack H
    some (if isCss h then showStack (Hx h) else "ERR notcss")
  | ["hz", H] =>
    let h := parseStack H
    some (if isCss h then showStack (Hz h) else "ERR notcss")
  | ["extract", "x", H, s] => some (showVec (extractXSyndrome (parseStack H) (parseVec s)))
  | ["extract", "z", H, s] => some (showVec (extractZSyndrome (parseStack H) (parseVec s)))
  | ["synd", H, e] => some (showVec (measureSyndrome (parseStack H) (parseVec e)))
  | ["judge", dt, H, lx, lz, e] =>
    let h := parseStack H
    let x := parseStack lx
    let z := parseStack lz
    let v := parseVec e
    let d := parseDT dt
    some s!"{b01 (inCodespace h v)} {showVec (logicalErrors d x z v)} {b01 (isLogicalError d x z v)} {b01 (isSuccess d h x z v)}"
  | ["effstack", dt, lx, lz, es] =>
    -- get_effective_error / logical_errors on a stack of errors: one row of 2k bits per error
    let x := parseStack lx
    let z := parseStack lz
    let d := parseDT dt
    some (showStack ((parseStack es).map (logicalErrors d x z)))
  | ["dist", lx, lz] =>
    some (match distance (parseStack lx) (parseStack lz) with
      | none => "ERR empty" | some d => toString d)
  | ["deformop", op, tbl] =>
    some (showOp (deformOp (lookupDeform (parseDeform tbl)) (parseOp op)))
  | ["deformbsf", maps, v] =>
    let ms := if maps == "_" then [] else (maps.splitOn ",").map parsePauliMap
    some (showVec (deformBsf ms (parseVec v)))
  | _ => none

end Drv
