import PanqecVerif.Model.Bits
import PanqecVerif.Model.Code
open Panqec


namespace Drv

def parseVec (s : String) : List Nat :=
  if s == "-" then []
  else if s.contains ',' || s.startsWith "v:" then
    let body := if s.startsWith "v:" then (s.drop 2).toString else s
    (body.splitOn ",").filterMap fun t => t.toNat?
  else s.toList.map fun c => c.toNat - '0'.toNat

def parseStack (s : String) : List (List Nat) :=
  if s == "_" then [] else (s.splitOn "|").map parseVec

def showVec (v : List Nat) : String :=
  if v.isEmpty then "-"
  else if v.all (· < 10) then String.ofList (v.map fun d => Char.ofNat (d + '0'.toNat))
  else "v:" ++ ",".intercalate (v.map toString)

def showStack (m : List (List Nat)) : String :=
  if m.isEmpty then "_" else "|".intercalate (m.map showVec)

def parseDT (s : String) : DType := if s == "u8" then .u8 else .wide

def showErr : BsErr → String
  | .oddLength => "ERR odd"
  | .lengthMismatch => "ERR mismatch"

def parsePaulis (s : String) : Option (List Pauli) :=
  if s == "-" then some [] else s.toList.mapM Pauli.ofChar?

def showPaulis (ps : List Pauli) : String :=
  if ps.isEmpty then "-" else String.ofList (ps.map Pauli.toChar)

end Drv
