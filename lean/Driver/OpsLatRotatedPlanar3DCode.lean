import Driver.Common
import Driver.OpsCode
import PanqecVerif.Model.Lattices.RotatedPlanar3DCode
open Panqec

/-! ops for `Model/Lattices/RotatedPlanar3DCode.lean` (C01 hand-written lattice model):
    `lat RotatedPlanar3DCode <Lx> <Ly> <Lz> <query>` -/
namespace Drv

def rotatedPlanar3DCodeShowCoords (cs : List Coord) : String :=
  if cs.isEmpty then "_" else ";".intercalate (cs.map showCoord)

def rotatedPlanar3DCodeShowOps (ops : List Op) : String :=
  if ops.isEmpty then "_" else "|".intercalate (ops.map showOp)

def rotatedPlanar3DCodeQuery (Lx Ly Lz : Nat) : List String → Option String
  | ["qubits"] => some (rotatedPlanar3DCodeShowCoords (RotatedPlanar3DCode.qubits Lx Ly Lz))
  | ["stabs"] => some (rotatedPlanar3DCodeShowCoords (RotatedPlanar3DCode.stabs Lx Ly Lz))
  | ["stab", c] =>
    some (match RotatedPlanar3DCode.getStab? Lx Ly Lz (parseCoord c) with
      | none => "ERR value" | some op => showOp op)
  | ["logx"] => some (rotatedPlanar3DCodeShowOps (RotatedPlanar3DCode.logX Lx Ly Lz))
  | ["logz"] => some (rotatedPlanar3DCodeShowOps (RotatedPlanar3DCode.logZ Lx Ly Lz))
  | ["axis", c] =>
    some ((RotatedPlanar3DCode.qubitAxis Lx Ly Lz (parseCoord c)).getD "ERR value")
  | ["type", c] =>
    some ((RotatedPlanar3DCode.stabilizerType Lx Ly Lz (parseCoord c)).getD "ERR value")
  | ["deform", name, axis, c] =>
    -- `-` = the keyword argument `deformation_axis` is omitted
    some (match RotatedPlanar3DCode.getDeformation Lx Ly Lz name (if axis == "-" then none else some axis)
        (parseCoord c) with
      | none => "ERR value" | some m => Lat3Db.showPauliMap m)
  | ["rankfamily"] => some (rotatedPlanar3DCodeShowCoords (RotatedPlanar3DCode.selStabs Lx Ly Lz))
  | ["n"] => some (toString (RotatedPlanar3DCode.lattice Lx Ly Lz).toCodeData.n)
  | ["k"] => some (toString (RotatedPlanar3DCode.lattice Lx Ly Lz).toCodeData.k)
  | _ => none

def handleLatRotatedPlanar3DCode : List String → Option String
  | "lat" :: "RotatedPlanar3DCode" :: lx :: ly :: lz :: rest =>
    match lx.toNat?, ly.toNat?, lz.toNat? with
    | some Lx, some Ly, some Lz => rotatedPlanar3DCodeQuery Lx Ly Lz rest
    | _, _, _ => none
  | _ => none

end Drv
