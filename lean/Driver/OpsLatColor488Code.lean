import Driver.ColorCommon
import PanqecVerif.Model.Lattices.Color488Code
open Panqec

/-! `lat Color488Code <Lx> <Ly> qubits|stabs|stab <coord>|logx|logz|axis <coord>|
    type <coord>|deform <name> <coord>|hmat|lxmat|lzmat|rankfamily|n|k` -/
namespace Drv

def color488CodeModel (Lx Ly : Nat) : ColorModel where
  lat := fun _ => Color488Code.lattice Lx Ly
  getStabilizer? := Color488Code.getStabilizer? Lx Ly
  stabilizerType := Color488Code.stabilizerType Lx Ly
  qubitAxis := Color488Code.qubitAxis
  getDeformation := Color488Code.getDeformation
  rankFamily := fun _ => some (Color488Code.sel Lx Ly)

def handleLatColor488Code : List String → Option String
  | "lat" :: "Color488Code" :: lx :: ly :: rest =>
    match lx.toNat?, ly.toNat? with
    | some Lx, some Ly => colorAnswer (color488CodeModel Lx Ly) rest
    | _, _ => none
  | _ => none

end Drv
