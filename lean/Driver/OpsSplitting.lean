import Driver.Common
import Driver.OpsNoise
import PanqecVerif.Model.Splitting
open Panqec

/-! ops for `Model/Splitting.lean` (C18: the chain and the estimator of `SplittingSimulation`).

`sp.run dt H Lx Lz rx ry rz n dspec rates tables nInit startRun draws us ops`
* `rx ry rz n dspec`: the channel as in `OpsNoise` (the rate comes from `rates`);
* `rates`: the list handed to the constructor (sorted here as `__init__` does);
* `tables`: one recorded decoder per rate, separated by `+`, each `syn~corr;syn~corr;…`;
* `draws`: `idx:letter:u` separated by `,` (`-` = none);
* `us`: variates for `calculate_logical_error_rate` (`-` = none);
* `ops`: `,`-separated: `r<k>` = `run(k)`, `p` = `postprocess()`, `g` = `get_results()`,
  `c` = `compute_optimal_c()`.
One output segment per op, then the final state.

`sp.est startRun p0 logP`: the estimator on given recorded probabilities (`logP`: chains
separated by `+`, rationals separated by `,`). -/
namespace Drv.Split

open Panqec.Split

def showBool (b : Bool) : String := if b then "1" else "0"

def showTest : Option Test → String
  | none => "-"
  | some t =>
    let cs := match t.inCodespace with | none => "-" | some b => showBool b
    s!"{showVec t.syndrome}~{showVec t.total}~{showBool t.isLogical}~{cs}"

def showStep (t : StepTrace) : String :=
  s!"i={t.idx},L={showPaulis t.letters},s={String.singleton t.letter.toChar},new={showVec t.proposed}," ++
  s!"pp={showRat t.pPrev},pn={showRat t.pNew},q={showRat t.q},b={showBool t.coin},t={showTest t.test}," ++
  s!"acc={showBool t.accepted},next={showVec t.next},pnext={showRat t.pNext}"

def showSteps (l : List StepTrace) : String :=
  if l.isEmpty then "-" else ";".intercalate (l.map showStep)

def showErr : Err → String
  | .rate => "ERR:rate"
  | .noLetters => "ERR:noLetters"
  | .index => "ERR:index"
  | .shape => "ERR:shape"
  | .notImplemented => "ERR:notImplemented"
  | .initSucceeds => "ERR:initSucceeds"
  | .zeroDiv => "ERR:zeroDiv"
  | .type => "ERR:type"
  | .emptySamples => "ERR:emptySamples"
  | .unmodelled => "unmodelled"

def showChains (l : List (List Rat)) : String :=
  if l.isEmpty then "_" else "+".intercalate (l.map showRats)

def showState (s : State) : String :=
  let pe := match s.pEst with | none => "[]" | some lp => showRats lp
  s!"cur={showStack s.current} logp={showChains s.logP} nruns={s.nRuns} pos={s.pos} pest={pe}"

def showSummary (r : Summary) : String :=
  s!"rates={showRats r.errorRates}|nruns={r.nRuns}|pest={showRats r.pEst}|rad={showRats r.seRadicand}"

def parsePairs (s : String) : List (List Nat × List Nat) :=
  if s == "-" then [] else
  (s.splitOn ";").map fun t =>
    match t.splitOn "~" with
    | [a, b] => (parseVec a, parseVec b)
    | _ => ([], [])

def lookupDec (tbl : List (List Nat × List Nat)) (s : List Nat) : List Nat :=
  match tbl.find? (·.1 == s) with
  | some (_, c) => c
  | none => []

def parseDraw (s : String) : Option Draw :=
  match s.splitOn ":" with
  | [a, b, c] =>
    match a.toNat?, b.toNat?, parseRat c with
    | some i, some k, some u => some ⟨i, k, u⟩
    | _, _, _ => none
  | _ => none

def parseDraws (s : String) : Option (List Draw) :=
  if s == "-" then some [] else (s.splitOn ",").mapM parseDraw

def parseChains (s : String) : Option (List (List Rat)) :=
  if s == "_" then some [] else (s.splitOn "+").mapM parseRats

def execOps (cfg : Cfg) (draws : Nat → Draw) (u : Nat → Rat) :
    List String → State → List String → List String
  | [], s, acc => (showState s :: acc).reverse
  | op :: ops, s, acc =>
    if op == "g" then
      let r := match getResults cfg s with | .ok r => showSummary r | .error e => showErr e
      execOps cfg draws u ops s (r :: acc)
    else if op == "c" then
      let r := match computeOptimalC cfg.startRun s.logP with
        | .ok cs => "c=" ++ showRats cs
        | .error e => showErr e
      execOps cfg draws u ops s (r :: acc)
    else if op == "p" then
      match postprocess cfg u s with
      | .ok s' => execOps cfg draws u ops s' ("ok" :: acc)
      | .error e => execOps cfg draws u ops s (showErr e :: acc)
    else if op.startsWith "r" then
      match runTr cfg draws (op.drop 1).toString.toNat! s with
      | .ok (s', tr) => execOps cfg draws u ops s' (showSteps tr :: acc)
      | .error (e, s') => execOps cfg draws u ops s' (showErr e :: acc)
    else execOps cfg draws u ops s ("bad" :: acc)

def handle : List String → Option String
  | ["sp.run", dt, h, lx, lz, rx, ry, rz, n, dspec, rates, tables, nInit, startRun, draws, us, ops] =>
    some (
      match parseRats rates, parseRat rx, parseRat ry, parseRat rz, n.toNat?, parseDspec dspec,
            parseDraws draws, parseRats us, nInit.toNat?, startRun.toNat? with
      | some er, some rx, some ry, some rz, some n, some Ds, some dr, some us, some nInit, some startRun =>
        let rs := sortRates er
        match rs.mapM (fun p => probabilityDistribution p rx ry rz n Ds),
              probabilityDistribution (1/2) rx ry rz n Ds with
        | some dists, some half =>
          let tabs := if tables == "_" then [] else (tables.splitOn "+").map parsePairs
          let cfg : Cfg :=
            { dt := parseDT dt, code := ⟨parseStack h, parseStack lx, parseStack lz⟩, n := n,
              rates := rs, dists := dists, half := half, decoders := tabs.map lookupDec,
              nInit := nInit, startRun := startRun }
          let da := dr.toArray
          let ua := us.toArray
          " ".intercalate (execOps cfg (fun i => da[i]?.getD ⟨0, 0, 0⟩) (fun i => ua[i]?.getD 0)
            (ops.splitOn ",") (State.init cfg) [])
        | _, _ => "ERR KeyError"
      | _, _, _, _, _, _, _, _, _, _ => "bad-args")
  | ["sp.est", startRun, p0, logp] =>
    some (
      match startRun.toNat?, parseRat p0, parseChains logp with
      | some start, some p0, some lp =>
        match computeOptimalC start lp, telescope start p0 lp with
        | .ok cs, .ok t => s!"c={showRats cs} lp={showRats (p0 :: t)}"
        | .error e, _ => showErr e
        | _, .error e => showErr e
      | _, _, _ => "bad-args")
  | ["sp.margin", startRun, logp] =>
    -- smallest |lhs - rhs| over the grid, over all consecutive pairs (the harness drops
    -- inputs where the float sign of `lhs - rhs` could differ from the exact one)
    some (
      match startRun.toNat?, parseChains logp with
      | some start, some lp =>
        let pairs := (lp.zip (lp.drop 1)).filterMap fun (a, b) =>
          match samplePairs start a b with | .ok ab => some ab | .error _ => none
        let vals := pairs.flatMap fun ab =>
          (List.range 100).map fun i => let d := lhs (gridC i) ab - rhs (gridC i) ab
                                         if d < 0 then -d else d
        match vals with
        | [] => "none"
        | v :: vs => showRat (vs.foldl (fun m x => if x < m then x else m) v)
      | _, _ => "bad-args")
  | _ => none

end Drv.Split

def Drv.handleSplitting (toks : List String) : Option String := Drv.Split.handle toks
