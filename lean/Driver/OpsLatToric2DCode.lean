import Driver.Lat2DCommon
import PanqecVerif.Model.Lattices.Toric2DCode
open Panqec

/-! `lat Toric2DCode <Lx> <Ly> qubits|stabs|stab <coord>|logx|logz|axis <coord>|type <coord>|
    deform <name> <axis or -> <coord>|rankfamily|n|k` -/
namespace Drv

def toric2DCodeModel (Lx Ly : Nat) : Lat2DModel where
  lat := Toric2DCode.lattice Lx Ly
  getStabilizer? := Toric2DCode.getStabilizer? Lx Ly
  stabilizerType := Toric2DCode.stabilizerType Lx Ly
  qubitAxis := Toric2DCode.qubitAxis
  getDeformation := Toric2DCode.getDeformation
  rankFamily := Toric2DCode.selStabs Lx Ly

def handleLatToric2DCode : List String → Option String
  | "lat" :: "Toric2DCode" :: lx :: ly :: rest =>
    match lx.toNat?, ly.toNat? with
    | some Lx, some Ly => lat2dAnswer (toric2DCodeModel Lx Ly) rest
    | _, _ => none
  | _ => none

end Drv
