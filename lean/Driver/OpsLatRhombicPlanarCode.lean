import Driver.Common
import Driver.OpsCode
import PanqecVerif.Model.Lattices.RhombicPlanarCode
open Panqec

/-! ops for `Model/Lattices/RhombicPlanarCode.lean` (C01 hand-written lattice model):
    `lat RhombicPlanarCode <Lx> <Ly> <Lz> <query>`.  The deformation name may contain spaces
    (`'Checkerboard XZZX'`): it is the rest of the line after the location. -/
namespace Drv

def rhombicPlanarCodeShowCoords (cs : List Coord) : String :=
  if cs.isEmpty then "_" else ";".intercalate (cs.map showCoord)

def rhombicPlanarCodeShowOps (ops : List Op) : String :=
  if ops.isEmpty then "_" else "|".intercalate (ops.map showOp)

def rhombicPlanarCodeQuery (Lx Ly Lz : Nat) : List String → Option String
  | ["qubits"] => some (rhombicPlanarCodeShowCoords (RhombicPlanarCode.qubits Lx Ly Lz))
  | ["stabs"] => some (rhombicPlanarCodeShowCoords (RhombicPlanarCode.stabs Lx Ly Lz))
  | ["stab", c] =>
    some (match RhombicPlanarCode.getStab? Lx Ly Lz (parseCoord c) with
      | none => "ERR value" | some op => showOp op)
  | ["logx"] => some (rhombicPlanarCodeShowOps (RhombicPlanarCode.logX Lx Ly Lz))
  | ["logz"] => some (rhombicPlanarCodeShowOps (RhombicPlanarCode.logZ Lx Ly Lz))
  | ["axis", c] =>
    some ((RhombicPlanarCode.qubitAxis (parseCoord c)).getD "ERR value")
  | ["type", c] =>
    some ((RhombicPlanarCode.stabilizerType Lx Ly Lz (parseCoord c)).getD "ERR value")
  | "deform" :: c :: name =>
    some (match RhombicPlanarCode.getDeformation (" ".intercalate name) (parseCoord c) with
      | none => "ERR value" | some m => Lat3Db.showPauliMap m)
  | ["rankfamily"] => some (rhombicPlanarCodeShowCoords (RhombicPlanarCode.selStabs Lx Ly Lz))
  | ["n"] => some (toString (RhombicPlanarCode.lattice Lx Ly Lz).toCodeData.n)
  | ["k"] => some (toString (RhombicPlanarCode.lattice Lx Ly Lz).toCodeData.k)
  | _ => none

def handleLatRhombicPlanarCode : List String → Option String
  | "lat" :: "RhombicPlanarCode" :: lx :: ly :: lz :: rest =>
    match lx.toNat?, ly.toNat?, lz.toNat? with
    | some Lx, some Ly, some Lz => rhombicPlanarCodeQuery Lx Ly Lz rest
    | _, _, _ => none
  | _ => none

end Drv
