import Driver.Common
open Panqec

/-! ops for `Model/Bits.lean` (C03) -/
namespace Drv

def handleBits : List String → Option String
  | ["bsprod", dt, sp, ad, bd, a, b] =>
    let r := bsProdFull (parseDT dt) (sp == "1") ad.toNat! bd.toNat! (parseStack a) (parseStack b)
    some (match r with
      | .error e => showErr e
      | .ok (shape, data) => s!"{showVec shape} {showVec data}")
  | ["symp", a, b] => some (toString (symp (parseVec a) (parseVec b)))
  | ["p2b", p] => some ((parsePaulis p).elim "ERR pauli" fun ps => showVec (pauliToBsf ps))
  | ["b2p", v] => some (showPaulis (bsfToPauli (parseVec v)))
  | ["wt", v] => some (toString (bsfWt (parseVec v)))
  | ["wtstack", m] => some (toString (bsfWtStack (parseStack m)))
  | ["b2i", v] => some (toString (bvectorToInt (parseVec v)))
  | ["i2b", k, n] => some (showVec (intToBvector k.toNat! n.toNat!))
  | ["brank", m] => some (toString (brank (parseStack m)))
  | ["gf2rank", rows] => some (toString (gf2Rank (parseVec rows)))
  | ["applydef", flags, v] =>
    some (match applyDeformation ((parseVec flags).map (· != 0)) (parseVec v) with
      | none => "ERR shape"
      | some r => showVec r)
  | _ => none

end Drv
