import Driver.Common
import Driver.OpsSim
import PanqecVerif.Model.RunFile
open Panqec Panqec.Batch Panqec.RunFile

/-! ops for `Model/RunFile.lean` (C14: the task body `run_file`, and the plan → run → merge chain)

`runfile <j|g> <n_trials> <pre> <spec>`
  pre  = `A` (no results file) or `C[id/k|id/k|…]` (a complete document; one record per entry:
         identity number in the numbering of the expansion of `spec` — numbers ≥ the number of
         simulations are foreign records — with `k` trials and three lists of length `k`)
  spec = the input file in the syntax of the `sims` op
  → `ERR …` or
    `label=… method=… n=<sims> ids=… log=<a/b|none> prog=<lo>:<hi> run=<trials run> tmp=<A|…>
     file=<A | C[<inputs>/n_runs/len ee/len su/len cs & …]>`

`pipeline <ids> <I> <N> <C> <T> <js>`  (`ids` = identity numbers of the simulations of the inputs `js`)
  → per input `j` of `js` and simulation `x`: the trials found in the result files of the tasks of `j`
    after all `N*C` tasks of the plan have run `run_file` from scratch: `j:x=total;…`
-/
namespace Drv.RunFileOps

def parsePre (s : String) : Option FileSt :=
  if s == "A" then some .absent
  else if s.startsWith "C[" && s.endsWith "]" then
    let body := String.ofList ((s.toList.drop 2).dropLast)
    if body == "" then some (.complete []) else
    let recs := (body.splitOn "|").map fun t =>
      match t.splitOn "/" with
      | [a, b] => (match a.toNat?, b.toNat? with | some x, some k => some (x, k) | _, _ => none)
      | _ => none
    if recs.any Option.isNone then none else
    -- trial identifiers: consecutive blocks, all different
    let (doc, _) := (recs.filterMap id).foldl (fun (acc : Doc × Nat) (xk : Nat × Nat) =>
      let ids := (List.range xk.2).map (· + acc.2)
      (acc.1 ++ [⟨xk.1, xk.2, ids, ids, ids⟩], acc.2 + xk.2)) ([], 0)
    some (.complete doc)
  else none

def preNext : FileSt → Nat
  | .complete d => (d.map (·.nRuns)).sum
  | _ => 0

def showRunErr : RunErr → String
  | .eof => "ERR eof"
  | .emptySpec => "ERR min-of-empty"
  | .zeroDiv => "ERR zerodiv"

def showErr : RunFile.Err → String
  | .spec e => Drv.Spec.showErr e
  | .splitting => "ERR splitting-not-modelled"
  | .run e => showRunErr e

def showInputs (sims : List Spec.SimT) (x : Nat) : String :=
  match sims[x]? with
  | some s => Drv.Spec.showSim s
  | none => s!"foreign{x}"

def showFileSt (sims : List Spec.SimT) : FileSt → String
  | .absent => "A"
  | .empty => "E"
  | .torn => "T"
  | .complete d => "C[" ++ "&".intercalate (d.map fun r =>
      s!"{showInputs sims r.inputs}/{r.nRuns}/{r.ee.length}/{r.su.length}/{r.cs.length}") ++ "]"

def showNats (l : List Nat) : String :=
  if l.isEmpty then "-" else ",".intercalate (l.map toString)

def runfileOp (observeProgress : Bool) (fmt n pre spec : String) : String :=
  match (Drv.Spec.parsePV spec).bind Drv.Spec.toSpec, parsePre pre, n.toNat? with
  | some s, some f, some n =>
    match runFile s (if fmt == "g" then .gz else .json) f (preNext f) n with
    | .error e => showErr e
    | .ok r =>
      let log := match r.log with | some (a, b) => s!"{a}/{b}" | none => "none"
      let prog := if observeProgress then s!"{r.progressRange.1}:{r.progressRange.2}" else "?"
      s!"label={Drv.Spec.escape r.label} method={Drv.Spec.escape r.method} n={r.sims.length} " ++
      s!"ids={showNats r.ids} log={log} prog={prog} " ++
      s!"run={r.final.next - preNext f} tmp={showFileSt r.sims r.final.disk.tmp} " ++
      s!"file={showFileSt r.sims r.final.disk.file}"
  | _, _, _ => "bad-spec"

def handle : List String → Option String
  | ["runfile", fmt, n, pre, spec] => some (runfileOp true fmt n pre spec)
  -- the same call observed through the real `tqdm` (the iterable it was given is not visible)
  | ["runfileq", fmt, n, pre, spec] => some (runfileOp false fmt n pre spec)
  | ["pipeline", ids, i, n, c, t, js] =>
    match i.toNat?, n.toNat?, c.toNat?, t.toNat? with
    | some I, some N, some C, some T =>
      let ids := if ids == "-" then [] else (ids.splitOn ",").filterMap (·.toNat?)
      let js := (js.splitOn ",").filterMap (·.toNat?)
      let tasks := Cli.allTasks I N C T
      some (";".intercalate (js.flatMap fun j => ids.eraseDups.map fun x =>
        s!"{j}:{x}={pipelineTrials .gz ids tasks j x}"))
    | _, _, _, _ => some "bad-args"
  | _ => none

end Drv.RunFileOps

def Drv.handleRunFile (toks : List String) : Option String := Drv.RunFileOps.handle toks
