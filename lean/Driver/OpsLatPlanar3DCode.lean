import Driver.Common
import Driver.OpsCode
import PanqecVerif.Model.Lattices.Planar3DCode
open Panqec

/-! ops for `Model/Lattices/Planar3DCode.lean`: `lat Planar3DCode <Lx> <Ly> <Lz> <query…>` -/
namespace Drv

def planar3DCodeShowCoords (cs : List Coord) : String :=
  if cs.isEmpty then "_" else ";".intercalate (cs.map showCoord)

def planar3DCodeShowOps (ops : List Op) : String :=
  if ops.isEmpty then "_" else "|".intercalate (ops.map showOp)

def planar3DCodeShowMap (m : PauliMap) : String :=
  String.ofList [m.x.toChar, m.y.toChar, m.z.toChar]

def planar3DCodeQuery (Lx Ly Lz : Nat) : List String → Option String
  | ["qubits"] => some (planar3DCodeShowCoords (Planar3DCode.qubits Lx Ly Lz))
  | ["stabs"] => some (planar3DCodeShowCoords (Planar3DCode.stabs Lx Ly Lz))
  | ["stab", c] =>
    some (match Planar3DCode.getStab? Lx Ly Lz (parseCoord c) with
      | none => "ERR value" | some op => showOp op)
  | ["logx"] => some (planar3DCodeShowOps (Planar3DCode.logX Lx Ly Lz))
  | ["logz"] => some (planar3DCodeShowOps (Planar3DCode.logZ Lx Ly Lz))
  | ["axis", c] =>
    some (match Planar3DCode.qubitAxis (parseCoord c) with
      | none => "ERR value" | some a => a.toString)
  | ["type", c] =>
    some (match Planar3DCode.stabilizerType Lx Ly Lz (parseCoord c) with
      | none => "ERR value" | some t => t.toString)
  | ["deform", name, axis, c] =>
    some (match Planar3DCode.getDeformation name (if axis == "-" then none else some axis) (parseCoord c) with
      | none => "ERR value" | some m => planar3DCodeShowMap m)
  | ["rankfamily"] => some (planar3DCodeShowCoords (Planar3DCode.rankFamily Lx Ly Lz))
  | ["n"] => some (toString (Planar3DCode.lattice Lx Ly Lz).qubits.length)
  | ["k"] => some (toString (Planar3DCode.lattice Lx Ly Lz).logX.length)
  | _ => none

def handleLatPlanar3DCode : List String → Option String
  | "lat" :: "Planar3DCode" :: lx :: ly :: lz :: rest =>
    match lx.toNat?, ly.toNat?, lz.toNat? with
    | some Lx, some Ly, some Lz => planar3DCodeQuery Lx Ly Lz rest
    | _, _, _ => none
  | _ => none

end Drv
