import PanqecVerif.Model.Bits
import PanqecVerif.Model.Code
import PanqecVerif.Model.Decoders
