import PanqecVerif.Model.Bits
import PanqecVerif.Model.Code
