import PanqecVerif.Model.Bits
import PanqecVerif.Model.Code
import PanqecVerif.Model.Cli
import PanqecVerif.Proofs.CliPlanSpike
import PanqecVerif.Proofs.CliPlan
import PanqecVerif.Properties.C14
