import PanqecVerif.Model.Bits
import PanqecVerif.Model.Code
import PanqecVerif.Model.Batch
import PanqecVerif.Proofs.Batch
import PanqecVerif.Proofs.BatchInv
import PanqecVerif.Proofs.BatchLive
import PanqecVerif.Properties.C12
