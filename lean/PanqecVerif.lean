import PanqecVerif.Model.Bits
import PanqecVerif.Model.Code
import PanqecVerif.Model.Sim
import PanqecVerif.Proofs.Sim
import PanqecVerif.Proofs.SimDist
import PanqecVerif.Properties.C11
