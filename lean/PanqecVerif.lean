import PanqecVerif.Model.Bits
import PanqecVerif.Model.Code
import PanqecVerif.Model.Mask
import PanqecVerif.Proofs.Bits
import PanqecVerif.Proofs.ValidCode
import PanqecVerif.Properties.C03
