import PanqecVerif.Model.Bits
import PanqecVerif.Model.Code
import PanqecVerif.Model.Analysis
import PanqecVerif.Proofs.Analysis
import PanqecVerif.Proofs.AnalysisRates
import PanqecVerif.Properties.C15
