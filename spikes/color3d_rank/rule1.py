import sys
from base import *
from peel2 import setup
def peelcheck(c, fs, K):
    qf={}
    for s in K:
        for q in fs[s][1]: qf.setdefault(q,set()).add(s)
    rem=set(K); order=[]
    stack=[q for q in qf if len(qf[q])==1]
    while stack:
        q=stack.pop()
        if len(qf[q])!=1: continue
        s=next(iter(qf[q]))
        order.append((s,q)); rem.discard(s)
        for q2 in fs[s][1]:
            qf[q2].discard(s)
            if len(qf[q2])==1: stack.append(q2)
    return order, rem
if __name__=='__main__':
    for L in [(2,2,2),(2,2,4),(4,4,4)]:
        c,fs=setup(L,'faces')
        qi={q:i for i,q in enumerate(c.qubit_coordinates)}
        V=L[0]*L[1]*L[2]
        rules={
         'hex x!=z': lambda s,t: t=='face-square' or (s[0]-s[2])%4!=0,
         'hex x==z': lambda s,t: t=='face-square' or (s[0]-s[2])%4==0,
         'hex y!=z': lambda s,t: t=='face-square' or (s[1]-s[2])%4!=0,
         'hex x!=y': lambda s,t: t=='face-square' or (s[0]-s[1])%4!=0,
        }
        for nm,rule in rules.items():
            K=[s for s in fs if rule(s,fs[s][0])]
            r=gf2rank([sum(1<<qi[q] for q in fs[s][1]) for s in K])
            order,rem=peelcheck(c,fs,K)
            print(L,nm,len(K),'rank',r,'target',10*V-6,'peeled',len(order),'left',len(rem))
