import sys
from base import *
from peel2 import setup
from peel3 import kindof
from rule1 import peelcheck
from rule2 import span
from collections import Counter
L=tuple(int(a) for a in sys.argv[1:4])
c,fs=setup(L,'faces')
qi=c.qubit_index
row=lambda s: sum(1<<qi[q] for q in fs[s][1])
V=L[0]*L[1]*L[2]
kd={s:kindof(s,fs[s][0]) for s in fs}
for cx,cy in [(3,3),(1,1),(1,3),(3,1)]:
    K=[s for s in fs if kd[s] in ('sX','sY') or (kd[s][0]=='h' and not (s[0]%4==cx and s[1]%4==cy))]
    r=gf2rank([row(s) for s in K])
    out=[]
    for ax in (0,1,2):
        Ko=[s for s in K if span(fs[s][1],ax,4*L[ax])]
        order,rem=peelcheck(c,fs,Ko)
        out.append((len(Ko),len(rem)))
    print((cx,cy),len(K),'rank',r,'def',10*V-6-r,'open x,y,z (size,left):',out)
