import sys
from base import *
def cell_family(L):
    Lx,Ly,Lz=L
    fam=[]  # (s, wit, rank)
    BIG=1000*(Lx+Ly+Lz)
    A=lambda l: range(2,4*l,4); B=lambda l: range(4,4*l+1,4)
    for z in list(A(Lz))+list(B(Lz)):
        isA = z%4==2
        for x in (A(Lx) if isA else B(Lx)):
            for y in (A(Ly) if isA else B(Ly)):
                s=(x,y,z)
                if s in [(6,2,2),(6,2,6),(4,4,4)]: continue
                if z<=6:
                    inline = (isA and x==6) or ((not isA) and x in (4,8))
                    if inline:
                        if isA: w=(6,y-2,z+1) if z==2 else (6,y-2,z-1)
                        elif s==(8,4,4): w=(6,3,4)
                        else: w=(x+1,y-2,4) if x==4 else (x-1,y-2,4)
                        r=y
                    else:
                        xx = x if x>2 else 4*Lx+2
                        if isA: w=(x-2,y,3) if z==2 else (x-2,y,5)
                        else: w=(x-2,y,3)
                        r=BIG+xx
                else:
                    w=(x-1,y,z-2); r=2*BIG+z
                fam.append((s,w,r))
    return fam
def check(L,fam,supports):
    M=[4*l for l in L]
    wrap=lambda q: tuple(q[i]%M[i] for i in range(3))
    kept={s:(wrap(w),r) for s,w,r in fam}
    assert len(kept)==len(fam)
    bad=0
    for s,(w,r) in kept.items():
        if w not in supports[s]: print('wit not in supp',s,w); bad+=1; continue
        for t,(w2,r2) in kept.items():
            if t!=s and w in supports[t] and not r2<r:
                print('violation',s,w,r,'hit by',t,r2); bad+=1
    return bad
if __name__=='__main__':
    for L in [(2,2,2),(2,2,4),(2,4,2),(4,2,2),(2,4,4),(4,4,4),(2,4,6),(6,2,4),(4,6,2)]:
        c,cells,faces=load(L)
        sup={s:v[1] for s,v in cells.items()}
        fam=cell_family(L)
        V=L[0]*L[1]*L[2]
        assert all(s in sup for s,_,_ in fam)
        print(L,len(fam),2*V-3,'bad',check(L,fam,sup))
