import sys, itertools
from base import *
from peel2 import setup
from peel3 import kindof
from rule1 import peelcheck
from collections import Counter
class Fam:
    def __init__(self,L):
        self.L=L
        self.c,self.fs=setup(L,'faces')
        self.Mz=4*L[2]
        fs=self.fs
        self.kd={s:kindof(s,fs[s][0]) for s in fs}
        kd=self.kd
        self.isdel=lambda s: kd[s]=='sZ' or (kd[s][0]=='h' and s[0]%4==3 and s[1]%4==3)
        self.Vset=set(s for s in fs if not self.isdel(s))
    def sq_tree_removed(self,level,flip=False):
        """faces of sXY(level) NOT in dual-tree comb"""
        fs=self.fs; kd=self.kd; Mz=self.Mz
        p=level%4
        edges=[s for s in fs if s[2]%Mz==level%Mz and kd[s] in ('sX','sY')]
        xedges=[s for s in edges if (s[0]-p)%4==2]
        yedges=[s for s in edges if (s[0]-p)%4==0]
        yrows=sorted(set(s[1] for s in xedges)); xcols=sorted(set(s[0] for s in yedges)); ys=sorted(set(s[1] for s in yedges))
        rem=[]
        for s in xedges:
            if s[1]==yrows[0]: rem.append(s)
        for s in yedges:
            if not (s[1]==ys[0] and s[0]!=xcols[0]): rem.append(s)
        return rem
    def hex_tree_removed(self,level):
        fs=self.fs; kd=self.kd; Mz=self.Mz
        hx=[s for s in fs if s[2]%Mz==level%Mz and kd[s][0]=='h' and not self.isdel(s)]
        t11=[s for s in hx if s[0]%4==1 and s[1]%4==1]
        t13=[s for s in hx if s[0]%4==1 and s[1]%4==3]
        t31=[s for s in hx if s[0]%4==3 and s[1]%4==1]
        xs=sorted(set(s[0] for s in t31)); ys31=sorted(set(s[1] for s in t31))
        ys13=sorted(set(s[1] for s in t13))
        rem=[]
        # open each y-zigzag: remove the (1,3) edge with largest y in every column
        for s in t13:
            if s[1]==ys13[-1]: rem.append(s)
        # spine: keep (3,1) edges at y=ys31[0] except last x
        for s in t31:
            if not (s[1]==ys31[0] and s[0]!=xs[-1]): rem.append(s)
        return rem
    def sheet(self,level,kind):
        fs=self.fs; kd=self.kd; Mz=self.Mz
        if kind=='sZ': l=[s for s in fs if kd[s]=='sZ' and s[2]%Mz==level%Mz]
        else: l=[s for s in fs if kd[s][0]=='h' and s[0]%4==3 and s[1]%4==3 and s[2]%Mz==level%Mz]
        l=sorted(l)
        return l[1:]
if __name__=='__main__':
    L=tuple(int(a) for a in sys.argv[1:4])
    F=Fam(L)
    qi=F.c.qubit_index
    row=lambda s: sum(1<<qi[q] for q in F.fs[s][1])
    V=L[0]*L[1]*L[2]; Mz=F.Mz
    ev0=[z for z in range(0,Mz,4)]; ev2=[z for z in range(2,Mz,4)]; odd=list(range(1,Mz,2))
    res=[]
    for t1,s1,t2,s2,t3,s3 in itertools.product(ev0,ev0,ev2,ev2,odd,odd):
        K=set(F.Vset)
        for s in F.sq_tree_removed(t1)+F.sq_tree_removed(t2)+F.hex_tree_removed(t3): K.discard(s)
        K|=set(F.sheet(s1,'sZ'))|set(F.sheet(s2,'sZ'))|set(F.sheet(s3,'h'))
        if len(K)!=10*V-6: print('size',len(K)); continue
        order,rem=peelcheck(F.c,F.fs,K)
        if len(rem)==0:
            res.append((t1,s1,t2,s2,t3,s3))
    print(L,'peelable placements',len(res))
    for r in res[:40]: print(r)
    if not res:
        # report rank for a default
        K=set(F.Vset)
        for s in F.sq_tree_removed(0)+F.sq_tree_removed(2)+F.hex_tree_removed(1): K.discard(s)
        K|=set(F.sheet(0,'sZ'))|set(F.sheet(2,'sZ'))|set(F.sheet(1,'h'))
        print('default size',len(K),'rank',gf2rank([row(s) for s in K]),10*V-6)
