import sys
from base import *
from peel2 import setup
from rule1 import peelcheck
def span(sup,i,m):
    vals=sorted(q[i] for q in sup)
    return vals[-1]-vals[0] < m/2
if __name__=='__main__':
    for L in [(4,4,4)]:
        c,fs=setup(L,'faces')
        qi={q:i for i,q in enumerate(c.qubit_coordinates)}
        V=L[0]*L[1]*L[2]
        rules={
         'hex x!=z': lambda s,t: t=='face-square' or (s[0]-s[2])%4!=0,
         'hex x==z': lambda s,t: t=='face-square' or (s[0]-s[2])%4==0,
         'hex y!=z': lambda s,t: t=='face-square' or (s[1]-s[2])%4!=0,
         'hex x!=y': lambda s,t: t=='face-square' or (s[0]-s[1])%4!=0,
        }
        for axes in [(2,),(0,),(1,),(0,1,2)]:
          for nm,rule in rules.items():
            K=[s for s in fs if rule(s,fs[s][0]) and all(span(fs[s][1],i,4*L[i]) for i in axes)]
            r=gf2rank([sum(1<<qi[q] for q in fs[s][1]) for s in K])
            order,rem=peelcheck(c,fs,K)
            print(L,axes,nm,len(K),'rank',r,'peeled',len(order),'left',len(rem))
