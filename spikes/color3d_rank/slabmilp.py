import sys, itertools, pickle
import numpy as np
from scipy.optimize import milp, LinearConstraint, Bounds
from scipy.sparse import lil_matrix
from base import *
from peel2 import setup
from peel3 import kindof
def cdiff(a,b,m):
    d=(a-b)%m
    return d-m if d>=m//2 else d
def build(Lz):
    L=(2,2,Lz); Mz=4*Lz
    c,fs=setup(L,'faces')
    kd={s:kindof(s,fs[s][0]) for s in fs}
    cls=lambda s:(s[0]%4,s[1]%4,s[2]%Mz)
    qcls=lambda q:(q[0]%4,q[1]%4,q[2])
    qf={}
    for s,(t,sup) in fs.items():
        for q in sup: qf.setdefault(q,[]).append(s)
    rep={}
    for s in sorted(fs):
        if 2<=s[0]<=6 and 2<=s[1]<=6: rep.setdefault(cls(s),s)
    for s in sorted(fs): rep.setdefault(cls(s),s)
    F=sorted(rep)
    inc={}
    for Fc,f in rep.items():
        lst=[]
        for q in sorted(fs[f][1]):
            others=[]
            for g in qf[q]:
                if g==f: continue
                dx=cdiff(g[0],f[0],8); dy=cdiff(g[1],f[1],8)
                rel = -1 if (dx,dy)<(0,0) else (0 if (dx,dy)==(0,0) else 1)
                others.append((cls(g),rel))
            off=(cdiff(q[0],f[0],8),cdiff(q[1],f[1],8),cdiff(q[2],f[2],Mz))
            lst.append((qcls(q),off,others))
        inc[Fc]=lst
    kinds={Fc:kd[f] for Fc,f in rep.items()}
    return F,inc,kinds,rep,fs
def solve(Lz,Elevels,timelimit,forbid=(),prefer=None):
    F,inc,kinds,rep,fs=build(Lz)
    Mz=4*Lz
    E=[f for f in F if f[2] in Elevels]
    Bk=[f for f in F if f[2] not in Elevels and not (kinds[f]=='sZ' or (kinds[f][0]=='h' and f[0]==3 and f[1]==3))]
    Bset=set(Bk)
    ei={f:i for i,f in enumerate(E)}
    nE=len(E)
    pairs=[(f,q) for f in E for q,_,_ in inc[f]]
    pi={p:i for i,p in enumerate(pairs)}
    nK=nE; nW=len(pairs); oT=nK+nW; N=oT+nE
    cobj=np.zeros(N); cobj[:nK]=-100
    if prefer:
        for (f,q) in pairs:
            for qq,off,_ in inc[f]:
                if qq==q: cobj[nK+pi[(f,q)]]+=prefer(f,kinds[f],off)
    rows=[];lo=[];hi=[]
    for f in E:
        d={ei[f]:-1}
        for q,_,_ in inc[f]: d[nK+pi[(f,q)]]=1
        rows.append(d);lo.append(0);hi.append(0)
    byq={}
    for (f,q) in pairs: byq.setdefault(q,[]).append((f,q))
    for q,l in byq.items():
        rows.append({nK+pi[p]:1 for p in l});lo.append(0);hi.append(1)
    T=nE+1
    for f in E:
        for q,off,others in inc[f]:
            w=nK+pi[(f,q)]
            for G,rel in others:
                if G in Bset:
                    rows.append({w:1});lo.append(0);hi.append(0); continue
                if G not in ei: continue   # deleted bulk type
                if G==f:
                    if rel>=0: rows.append({w:1});lo.append(0);hi.append(0)
                    continue
                if rel<0: continue
                if rel>0:
                    rows.append({w:1,ei[G]:1});lo.append(0);hi.append(1)
                else:
                    d={}
                    def add(j,v): d[j]=d.get(j,0)+v
                    add(oT+ei[G],1); add(oT+ei[f],-1); add(w,T); add(ei[G],T)
                    rows.append(d);lo.append(-np.inf);hi.append(2*T-1)
    for f in forbid:
        rows.append({ei[f]:1});lo.append(0);hi.append(0)
    A=lil_matrix((len(rows),N))
    for i,d in enumerate(rows):
        for j,v in d.items(): A[i,j]=v
    lb=np.zeros(N); ub=np.ones(N); ub[oT:]=nE
    res=milp(cobj,constraints=LinearConstraint(A.tocsr(),lo,hi),integrality=np.ones(N),bounds=Bounds(lb,ub),options={'time_limit':timelimit})
    x=res.x
    kept=[f for f in E if x[ei[f]]>0.5]
    wit={}
    for (f,q) in pairs:
        if x[nK+pi[(f,q)]]>0.5:
            for qq,off,_ in inc[f]:
                if qq==q: wit[f]=(q,off)
    tier={f:int(round(x[oT+ei[f]])) for f in kept}
    return res,E,kept,wit,tier,kinds
if __name__=='__main__':
    Lz=int(sys.argv[1]); lo_=int(sys.argv[2]); hi_=int(sys.argv[3]); tl=int(sys.argv[4])
    Mz=4*Lz
    El=set(z%Mz for z in range(lo_,hi_+1))
    res,E,kept,wit,tier,kinds=solve(Lz,El,tl)
    print('status',res.status,'E classes',len(E),'kept',len(kept),'bound',-res.mip_dual_bound/100)
    for f in sorted(E,key=lambda f:((f[2]-lo_)%Mz,f)):
        if f in kept: print(((f[2]-lo_)%Mz)+lo_,kinds[f],f[:2],'KEPT wit off',wit[f][1],'tier',tier[f])
        else: print(((f[2]-lo_)%Mz)+lo_,kinds[f],f[:2],'-')
