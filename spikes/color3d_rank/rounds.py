import sys
from base import *
from peel2 import setup
from rule2 import span
from collections import Counter, defaultdict
def rounds(fs,K):
    qf=defaultdict(set)
    for s in K:
        for q in fs[s][1]: qf[q].add(s)
    rem=set(K); out=[]
    while rem:
        peel={}
        for s in rem:
            priv=[q for q in fs[s][1] if len(qf[q])==1]
            if priv: peel[s]=priv
        if not peel: break
        out.append(peel)
        for s in peel:
            rem.discard(s)
            for q in fs[s][1]: qf[q].discard(s)
    return out,rem
def cdiff(a,b,m):
    d=(a-b)%m
    return d-m if d>=m/2 else d
if __name__=='__main__':
    L=tuple(int(a) for a in sys.argv[1:4])
    c,fs=setup(L,'faces')
    rule=lambda s,t: t=='face-square' or (s[0]-s[2])%4!=0
    K=[s for s in fs if rule(s,fs[s][0]) and span(fs[s][1],2,4*L[2])]
    out,rem=rounds(fs,K)
    for i,peel in enumerate(out):
        cnt=Counter()
        for s,priv in peel.items():
            offs=tuple(sorted(tuple(cdiff(q[j],s[j],4*L[j]) for j in range(3)) for q in priv))
            cnt[(fs[s][0][5:],s[0]%4,s[1]%4,s[2],offs)]+=1
        print('round',i)
        for k,v in sorted(cnt.items()): print('   ',k,v)
    print('left',len(rem))
