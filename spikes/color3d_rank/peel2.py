import sys, itertools
from base import *
from peel import kernel_basis

def setup(L, kind='faces'):
    c,cells,faces=load(L)
    src = faces if kind=='faces' else cells
    fs={}; seen=set()
    for s,(t,sup) in src.items():
        if sup in seen: continue
        seen.add(sup); fs[s]=(t,sup)
    return c,fs

def run(c, fs, key, delkey=None, predeleted=()):
    names=sorted(fs.keys(), key=key)
    delorder = names if delkey is None else sorted(fs.keys(), key=delkey)
    idx={s:i for i,s in enumerate(names)}
    qi={q:i for i,q in enumerate(c.qubit_coordinates)}
    rows=[sum(1<<qi[q] for q in fs[s][1]) for s in names]
    ker=kernel_basis(rows)
    qf={q:set() for q in qi}
    for s in names:
        for q in fs[s][1]: qf[q].add(s)
    remaining=set(names)
    order=[]; deleted=[]
    def delete(f, forced=False):
        nonlocal ker
        b=1<<idx[f]
        vs=[k for k in ker if k&b]
        if not vs:
            if forced: 
                print('forced deletion of independent face',f)
            else: raise Exception('indep')
        else:
            v=vs[0]
            ker=[ (k^v if k&b else k) for k in ker if k is not v]
        deleted.append((f,len(order)))
        remaining.discard(f)
        for q in fs[f][1]: qf[q].discard(f)
    for f in predeleted: delete(f, True)
    while remaining:
        cand=None
        for s in names:
            if s not in remaining: continue
            priv=[q for q in fs[s][1] if len(qf[q])==1]
            if priv:
                cand=(s,priv); break
        if cand:
            s,priv=cand
            order.append((s,sorted(priv)))
            remaining.discard(s)
            for q in fs[s][1]: qf[q].discard(s)
            continue
        dep=0
        for k in ker: dep|=k
        f=None
        # prefer dependent face containing a qubit with exactly 2 remaining faces
        for s in delorder:
            if s in remaining and (dep>>idx[s])&1 and any(len(qf[q])==2 for q in fs[s][1]):
                f=s;break
        if f is None:
            for s in delorder:
                if s in remaining and (dep>>idx[s])&1:
                    f=s;break
        if f is None:
            print('STUCK with independent remaining',len(remaining)); break
        delete(f)
    return order,deleted

if __name__=='__main__':
    L=tuple(int(a) for a in sys.argv[1:4])
    kind=sys.argv[4]
    perm=[int(ch) for ch in sys.argv[5]] if len(sys.argv)>5 else [2,0,1]
    c,fs=setup(L,kind)
    key=lambda s:tuple(s[i] for i in perm)
    order,deleted=run(c,fs,key)
    V=L[0]*L[1]*L[2]
    print(L,kind,'kept',len(order),'deleted',len(deleted), 'target', (10*V-6 if kind=='faces' else 2*V-3))
    for f,when in deleted:
        print('del',f,fs[f][0],when)
