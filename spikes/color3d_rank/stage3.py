import sys, itertools, pickle
import numpy as np
from scipy.optimize import milp, LinearConstraint, Bounds
from scipy.sparse import lil_matrix
from slabmilp import build
def vwit(F,inc,kinds,Mz):
    """fixed bottom-up V_z witness (qubit class) for V-type classes"""
    res={}
    isdel=lambda f: kinds[f]=='sZ' or (kinds[f][0]=='h' and f[0]==3 and f[1]==3)
    for f in F:
        if isdel(f): continue
        if kinds[f] in ('sX','sY'):
            for q,off,_ in inc[f]:
                if off==(0,0,-1): res[f]=q
        else:
            z=f[2]
            dl=(3,3,z)
            dq=set(q for q,off,_ in inc[dl] if off[2]==-1)
            mine=[q for q,off,_ in inc[f] if off[2]==-1]
            sh=[q for q in mine if q in dq]
            res[f]=sh[0] if sh else sorted(mine)[0]
    return res
def solve(Lz,zstart,tl,allowA=None,allowC=None,verbose=True):
    F,inc,kinds,rep,fs=build(Lz)
    Mz=4*Lz
    vw=vwit(F,inc,kinds,Mz)
    fi={f:i for i,f in enumerate(F)}
    nF=len(F)
    pairs=[(f,q) for f in F for q,_,_ in inc[f]]
    pi={p:i for i,p in enumerate(pairs)}
    # variables: A_f, B_f, C_f, wA_{f,q}, wC_{f,q}, tier_f
    oA=0; oB=nF; oC=2*nF; oWA=3*nF; oWC=oWA+len(pairs); oT=oWC+len(pairs); N=oT+nF
    cobj=np.zeros(N); cobj[oA:oA+nF]=-100; cobj[oB:oB+nF]=-130; cobj[oC:oC+nF]=-100
    rows=[];lo=[];hi=[]
    def R(d,l,h): rows.append(d);lo.append(l);hi.append(h)
    brank=lambda f:(f[2]-zstart)%Mz
    for f in F:
        R({oA+fi[f]:1,oB+fi[f]:1,oC+fi[f]:1},0,1)
        if f not in vw: R({oB+fi[f]:1},0,0)
        if allowA is not None and f[2] not in allowA: R({oA+fi[f]:1},0,0)
        if allowC is not None and f[2] not in allowC: R({oC+fi[f]:1},0,0)
        d={oA+fi[f]:-1}
        for q,_,_ in inc[f]: d[oWA+pi[(f,q)]]=1
        R(d,0,0)
        d={oC+fi[f]:-1}
        for q,_,_ in inc[f]: d[oWC+pi[(f,q)]]=1
        R(d,0,0)
    # each qubit class witness at most once overall
    byq={}
    for (f,q) in pairs: byq.setdefault(q,[]).append((f,q))
    for q,l in byq.items():
        d={}
        for p in l:
            d[oWA+pi[p]]=1; d[oWC+pi[p]]=1
        for f in F:
            if f in vw and vw[f]==q: d[oB+fi[f]]=d.get(oB+fi[f],0)+1
        R(d,0,1)
    T=nF+1
    for f in F:
        for q,off,others in inc[f]:
            wa=oWA+pi[(f,q)]; wc=oWC+pi[(f,q)]
            for G,rel in others:
                g=fi[G]
                # F in A with witness q
                R({wa:1,oB+g:1},0,1); R({wa:1,oC+g:1},0,1)
                if G==f:
                    if rel>=0:
                        R({wa:1},0,0); R({wc:1},0,0)
                    continue
                if rel>0:
                    R({wa:1,oA+g:1},0,1); R({wc:1,oC+g:1},0,1)
                elif rel==0:
                    d={oT+g:1,oT+fi[f]:-1,wa:T,oA+g:T}; R(d,-np.inf,2*T-1)
                    d={oT+g:1,oT+fi[f]:-1,wc:T,oC+g:T}; R(d,-np.inf,2*T-1)
            # F in B with fixed witness
            if f in vw and vw[f]==q:
                for G,rel in others:
                    g=fi[G]
                    R({oB+fi[f]:1,oC+g:1},0,1)
                    if G in vw:
                        if G==f: R({oB+fi[f]:1},0,0)
                        elif not brank(G)<brank(f) : R({oB+fi[f]:1,oB+g:1},0,1)
    A=lil_matrix((len(rows),N))
    for i,d in enumerate(rows):
        for j,v in d.items(): A[i,j]=v
    lb=np.zeros(N); ub=np.ones(N); ub[oT:]=nF
    res=milp(cobj,constraints=LinearConstraint(A.tocsr(),lo,hi),integrality=np.ones(N),bounds=Bounds(lb,ub),options={'time_limit':tl})
    x=res.x
    out=[]
    for f in F:
        role='A' if x[oA+fi[f]]>0.5 else 'B' if x[oB+fi[f]]>0.5 else 'C' if x[oC+fi[f]]>0.5 else '-'
        w=None
        for q,off,_ in inc[f]:
            if x[oWA+pi[(f,q)]]>0.5 or x[oWC+pi[(f,q)]]>0.5: w=off
        if role=='B':
            for q,off,_ in inc[f]:
                if q==vw[f]: w=off
        out.append((f,kinds[f],role,w,int(round(x[oT+fi[f]]))))
    return res,out
if __name__=='__main__':
    Lz=int(sys.argv[1]); zstart=int(sys.argv[2]); tl=int(sys.argv[3])
    res,out=solve(Lz,zstart,tl)
    kept=sum(1 for o in out if o[2]!='-')
    print('status',res.status,'kept',kept,'target',10*Lz,'bound',res.mip_dual_bound)
    Mz=4*Lz
    for f,k,role,w,t in sorted(out,key=lambda o:((o[0][2]-zstart+6)%Mz,o[0])):
        print(f[2],k,f[:2],role,w,t if role in 'AC' else '')
    pickle.dump(out,open('stage3_%d_%d.pkl'%(Lz,zstart),'wb'))
