import sys, itertools, numpy as np
sys.path.insert(0,'/repo')
from panqec.codes import Color3DCode

def load(L):
    c = Color3DCode(*L)
    stabs = c.stabilizer_coordinates
    seen=set(); cells={}; faces={}
    for s in stabs:
        op = c.get_stabilizer(s)
        key = tuple(sorted(op.keys()))
        t = c.stabilizer_type(s)
        if 'cell' in t:
            cells[s]=(t,frozenset(op.keys()))
        else:
            faces[s]=(t,frozenset(op.keys()))
    return c,cells,faces

def gf2rank(rows):
    # rows: list of python ints
    rows=[r for r in rows if r]
    rank=0
    piv={}
    for r in rows:
        while r:
            h=r.bit_length()-1
            if h in piv:
                r^=piv[h]
            else:
                piv[h]=r; rank+=1; break
    return rank

if __name__=='__main__':
    for L in [(2,2,2),(2,2,4),(2,4,4),(4,4,4)]:
        c,cells,faces=load(L)
        qi={q:i for i,q in enumerate(c.qubit_coordinates)}
        def mask(S): 
            m=0
            for q in S: m|=1<<qi[q]
            return m
        V=L[0]*L[1]*L[2]
        rc=gf2rank([mask(v[1]) for v in cells.values()])
        rf=gf2rank([mask(v[1]) for v in faces.values()])
        print(L,c.n,c.k,len(cells),len(faces),'rank cells',rc,2*V-3,'rank faces',rf,10*V-6, len(set(v[1] for v in faces.values())))
