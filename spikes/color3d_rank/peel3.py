import sys, itertools
from base import *
from peel import kernel_basis
from peel2 import setup
from collections import Counter

def kindof(s,t):
    if t=='face-hex':
        x,y,z=s
        return 'h%d%d'%(int(x%4==z%4),int(y%4==z%4))
    x,y,z=s
    if x%4==z%4: return 'sY'
    if y%4==z%4: return 'sX'
    return 'sZ'

def run(c, fs, key, mode):
    names=sorted(fs.keys(), key=key)
    idx={s:i for i,s in enumerate(names)}
    qi={q:i for i,q in enumerate(c.qubit_coordinates)}
    rows=[sum(1<<qi[q] for q in fs[s][1]) for s in names]
    ker=kernel_basis(rows)
    qf={q:set() for q in qi}
    for s in names:
        for q in fs[s][1]: qf[q].add(s)
    remaining=set(names)
    order=[]; deleted=[]
    def delete(f):
        nonlocal ker
        b=1<<idx[f]
        vs=[k for k in ker if k&b]
        v=vs[0]
        ker=[ (k^v if k&b else k) for k in ker if k is not v]
        deleted.append((f,len(order)))
        remaining.discard(f)
        for q in fs[f][1]: qf[q].discard(f)
    while remaining:
        cand=None
        for s in names:
            if s not in remaining: continue
            priv=[q for q in fs[s][1] if len(qf[q])==1]
            if priv:
                cand=(s,priv); break
        if cand:
            s,priv=cand
            order.append((s,sorted(priv)))
            remaining.discard(s)
            for q in fs[s][1]: qf[q].discard(s)
            continue
        dep=0
        for k in ker: dep|=k
        # candidates: dependent faces f with a qubit having exactly 2 remaining faces {f,g}
        best=None
        for s in names:
            if s in remaining and (dep>>idx[s])&1:
                for q in fs[s][1]:
                    if len(qf[q])==2:
                        g=[x for x in qf[q] if x!=s][0]
                        if mode=='lowg': k2=(key(g),key(s))
                        elif mode=='lowf': k2=(key(s),key(g))
                        elif mode=='highf': k2=(key(g), tuple(-a for a in key(s)))
                        if best is None or k2<best[0]: best=(k2,s)
        if best is None:
            for s in names:
                if s in remaining and (dep>>idx[s])&1:
                    best=(None,s);break
        if best is None:
            print('STUCK',len(remaining)); break
        delete(best[1])
    return order,deleted

if __name__=='__main__':
    L=tuple(int(a) for a in sys.argv[1:4])
    mode=sys.argv[4]
    c,fs=setup(L,'faces')
    key=lambda s:(s[2],s[0],s[1])
    order,deleted=run(c,fs,key,mode)
    V=L[0]*L[1]*L[2]
    print(L,'kept',len(order),'deleted',len(deleted), 'target', 10*V-6)
    cnt=Counter()
    for f,when in deleted: cnt[(f[2],kindof(f,fs[f][0]))]+=1
    for k,v in sorted(cnt.items()): print(k,v)
