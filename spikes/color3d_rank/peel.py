import sys, itertools
from base import *

def kernel_basis(rows):
    # rows: list of qubit-masks; returns list of face-masks v with XOR_{i in v} rows[i]=0
    piv={}  # pivot bit -> (rowmask, combmask)
    ker=[]
    for i,r in enumerate(rows):
        comb=1<<i
        while r:
            h=r.bit_length()-1
            if h in piv:
                pr,pc=piv[h]; r^=pr; comb^=pc
            else:
                piv[h]=(r,comb); break
        if r==0: ker.append(comb)
    return ker

def run(L, kind='faces', key=lambda s,t:(s[2],s[0],s[1]), delkey=None, verbose=False):
    c,cells,faces=load(L)
    src = faces if kind=='faces' else cells
    fs={}; seen=set()
    for s,(t,sup) in src.items():
        if sup in seen: continue
        seen.add(sup); fs[s]=(t,sup)
    names=sorted(fs.keys(), key=lambda s:key(s,fs[s][0]))
    if delkey is None: delorder=names
    else: delorder=sorted(fs.keys(), key=lambda s:delkey(s,fs[s][0]))
    idx={s:i for i,s in enumerate(names)}
    qi={q:i for i,q in enumerate(c.qubit_coordinates)}
    rows=[sum(1<<qi[q] for q in fs[s][1]) for s in names]
    ker=kernel_basis(rows)
    # qubit -> set of remaining faces
    qf={q:set() for q in qi}
    for s in names:
        for q in fs[s][1]: qf[q].add(s)
    remaining=set(names)
    order=[]  # (face, witness)
    deleted=[]
    while remaining:
        # peel: choose smallest-key face with private qubit
        cand=None
        for s in names:
            if s not in remaining: continue
            priv=[q for q in fs[s][1] if len(qf[q])==1]
            if priv:
                cand=(s,priv); break
        if cand:
            s,priv=cand
            order.append((s,sorted(priv)))
            remaining.discard(s)
            for q in fs[s][1]: qf[q].discard(s)
            assert all(not (k>>idx[s])&1 for k in ker)
            continue
        dep=0
        for k in ker: dep|=k
        f=None
        for s in delorder:
            if s in remaining and (dep>>idx[s])&1:
                f=s;break
        if f is None:
            print('STUCK with independent remaining',len(remaining)); break
        b=1<<idx[f]
        v=[k for k in ker if k&b][0]
        ker=[ (k^v if k&b else k) for k in ker if k is not v]
        deleted.append((f,len(order)))
        remaining.discard(f)
        for q in fs[f][1]: qf[q].discard(f)
    return c,fs,order,deleted

if __name__=='__main__':
    L=tuple(int(a) for a in sys.argv[1:4])
    kind=sys.argv[4]
    c,fs,order,deleted=run(L,kind)
    V=L[0]*L[1]*L[2]
    print(L,kind,'kept',len(order),'deleted',len(deleted), 'target', (10*V-6 if kind=='faces' else 2*V-3))
    for f,when in deleted:
        print('del',f,fs[f][0],when)
