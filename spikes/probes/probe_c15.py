import os, json, tempfile, shutil, numpy as np, warnings, zipfile, gzip
warnings.filterwarnings('ignore')
from panqec.analysis import Analysis
from panqec.utils import save_json
rng=np.random.default_rng(1)
def inputs(d,p,k=2):
    return {'code':{'name':'Toric2DCode','parameters':{'L_x':d,'L_y':d,'L_z':None},'n':2*d*d,'k':k,'d':d},
      'error_model':{'name':'PauliErrorModel','parameters':{'r_x':1/3,'r_y':1/3,'r_z':1/3,'deformation_name':None,'deformation_kwargs':{}}},
      'decoder':{'name':'MatchingDecoder','parameters':{}},'error_rate':p,'method':{'name':'direct','parameters':{}}}
def trials(n,k=2):
    cs = rng.random(n)<0.9
    eff = (rng.random((n,2*k))<0.2).astype(int)
    succ = cs & ~eff.any(axis=1)
    return [dict(e=eff[i].tolist(), s=bool(succ[i]), c=bool(cs[i])) for i in range(n)]
groups = {(d,p): trials(int(rng.integers(5,40))) for d in [3,4] for p in [0.1,0.2]}
def rec(d,p,ts): return {'inputs':inputs(d,p),'results':{'n_runs':len(ts),'wall_time':0.5,'effective_error':[t['e'] for t in ts],'success':[t['s'] for t in ts],'codespace':[t['c'] for t in ts]}}
def summarize(a):
    r=a.get_results(); a.calculate_sector_thresholds
    out={}
    for _,row in r.iterrows():
        out[(row['d'],row['error_rate'])]=(int(row['n_trials']),int(row['n_fail']),float(row['p_est']),float(row['p_se']))
    return out
def run(partition_seed):
    r2=np.random.default_rng(partition_seed)
    d=tempfile.mkdtemp()
    files=[]
    recs=[]
    for (dd,p),ts in groups.items():
        # split ts into random chunks
        idx=sorted(r2.choice(range(1,len(ts)), size=min(3,len(ts)-1), replace=False).tolist())
        chunks=[ts[a:b] for a,b in zip([0]+idx, idx+[len(ts)])]
        for ch in chunks: recs.append(rec(dd,p,ch))
    r2.shuffle(recs)
    # distribute into containers
    a=recs[:len(recs)//3]; b=recs[len(recs)//3:2*len(recs)//3]; c=recs[2*len(recs)//3:]
    save_json(a, os.path.join(d,'a.json'))
    save_json([b[:2], b[2:]], os.path.join(d,'b.json.gz'))   # merged lists
    os.makedirs(os.path.join(d,'z'))
    save_json(c, os.path.join(d,'z','c.json.gz'))
    with zipfile.ZipFile(os.path.join(d,'c.zip'),'w') as zf: zf.write(os.path.join(d,'z','c.json.gz'),'c.json.gz')
    shutil.rmtree(os.path.join(d,'z'))
    A=Analysis(d); s=summarize(A); shutil.rmtree(d); return s
ref={k:(len(ts), sum(1 for t in ts if not t['s'])) for k,ts in groups.items()}
print('ref',ref)
for seed in range(4):
    s=run(seed)
    ok = all((s[k][0],s[k][1])==ref[k] for k in ref)
    print(seed, ok, {k:(v[0],v[1]) for k,v in s.items()})
k=(3,0.1); n,f=ref[k]; p=f/n
print('p_est',s[k][2], p, 'p_se', s[k][3], (p*(1-p)/(n+1))**0.5)
