import os, json, tempfile, shutil, numpy as np, warnings
warnings.filterwarnings('ignore')
from panqec.analysis import Analysis
from panqec.utils import save_json
def make(dirn, p_th, nu, A, B, C, ds, ps, n_trials, rng, order=None):
    recs=[]
    for d in ds:
        for p in ps:
            x=(p-p_th)*d**nu
            f=A+B*x+C*x*x
            f=min(max(f,0),1)
            nf=int(round(f*n_trials))
            succ=[False]*nf+[True]*(n_trials-nf)
            eff=[[1,0]]*nf+[[0,0]]*(n_trials-nf)
            recs.append({'inputs':{'code':{'name':'Toric2DCode','parameters':{'L_x':d,'L_y':d,'L_z':None},'n':2*d*d,'k':1,'d':d},
              'error_model':{'name':'PauliErrorModel','parameters':{'r_x':1/3,'r_y':1/3,'r_z':1/3,'deformation_name':None,'deformation_kwargs':{}}},
              'decoder':{'name':'MatchingDecoder','parameters':{}},'error_rate':p,'method':{'name':'direct','parameters':{}}},
              'results':{'n_runs':n_trials,'wall_time':1.0,'effective_error':eff,'success':succ,'codespace':[True]*n_trials}})
    if order is not None: recs=[recs[i] for i in order]
    save_json(recs, os.path.join(dirn,'r.json.gz'))
    return len(recs)
rng=np.random.default_rng(0)
for (p_th,nu,A,B,C) in [(0.10,1.0,0.3,2.0,1.0),(0.15,0.8,0.25,1.5,0.5),(0.05,1.2,0.4,3.0,2.0)]:
    ds=[4,6,8]; ps=list(np.round(np.linspace(p_th-0.02,p_th+0.02,9),6))
    out=[]
    for trial,order in enumerate([None,'rev','perm']):
        d=tempfile.mkdtemp()
        n=len(ds)*len(ps)
        o=None if order is None else (list(range(n))[::-1] if order=='rev' else list(rng.permutation(n)))
        make(d,p_th,nu,A,B,C,ds,ps,20000,rng,o)
        a=Analysis(d); t=a.thresholds.iloc[0]
        out.append((float(t['p_th_fss']),float(t['p_th_fss_left']),float(t['p_th_fss_right']),t['fit_status'], list(np.round(t['fss_params'],4))))
        shutil.rmtree(d)
    print((p_th,nu,A,B,C)); 
    for o in out: print('   ',o)
