import numpy as np, itertools
from panqec.codes import Toric3DCode, Planar3DCode
from panqec.decoders import SweepDecoder3D
from panqec.error_models import PauliErrorModel
from panqec.bpauli import bs_prod
em = PauliErrorModel(0,0,1)
def run(code, err, seed=0):
    dec = SweepDecoder3D(code, em, 0.1, seed=seed)
    syn = code.measure_syndrome(err)
    counts = {}
    orig = dec.flip_edge
    def fe(loc, signs):
        counts[loc]=counts.get(loc,0)+1
        return orig(loc, signs)
    dec.flip_edge = fe
    steps=[]
    osm = dec.sweep_move
    def sm(signs, correction):
        ns = osm(signs, correction)
        # invariant check
        c = code.to_bsf(correction)
        tot = (err + c) % 2
        s = np.array(code.measure_syndrome(tot)).astype(int).copy(); s[code.z_indices]=0
        steps.append(np.array_equal(s, np.array(ns).astype(int)))
        return ns
    dec.sweep_move = sm
    corr = dec.decode(syn)
    dbl = {k:v for k,v in counts.items() if v>1}
    return dbl, steps
rng = np.random.default_rng(1)
for cls,size in [(Toric3DCode,(2,2,2)),(Toric3DCode,(3,3,3)),(Toric3DCode,(2,3,4)),(Planar3DCode,(3,3,3))]:
    code=cls(*size); n=code.n
    found=0; viol=0; trials=0
    for p in [0.05,0.1,0.2,0.3]:
        for t in range(60):
            err = np.zeros(2*n,dtype=int); err[n:] = rng.random(n)<p
            dbl, steps = run(code, err)
            trials+=1
            if dbl: found+=1
            if not all(steps):
                viol+=1
                if viol==1: print("first violation", cls.__name__, size, 'p',p, 'weight', err.sum(), 'step', steps.index(False), 'of', len(steps), 'dbl', list(dbl.items())[:3], 'errZ', np.nonzero(err[n:])[0].tolist())
    print(cls.__name__, size, 'trials',trials,'runs with double flips',found,'invariant violations',viol)
