import json, itertools, traceback
import numpy as np
from panqec.gui._gui import GUI, codes as GCODES, decoders as GDEC
g = GUI(); client = g.app.test_client()
fails = {}
tot=0
for name, cls in GCODES.items():
    defs = ['None'] + list(cls.deformation_names)
    for d in defs:
        for rot in [False, True]:
            for (Lx,Ly,Lz) in [(2,2,2),(3,3,3),(3,2,2),(4,4,4),(1,1,1),(5,4,4)]:
                tot+=1
                try:
                    r = client.post('/code-data', json=dict(Lx=Lx,Ly=Ly,Lz=Lz,code_name=name,code_deformation_name=d,rotated_picture=rot))
                    if r.status_code!=200:
                        fails.setdefault((name,d,rot),[]).append(((Lx,Ly,Lz), r.status_code)); continue
                    data = json.loads(r.data)
                    code = cls(Lx,Ly) if cls.dimension==2 else cls(Lx,Ly,Lz)
                    if d!='None': code.deform(d)
                    okH = data['H']==code.stabilizer_matrix.toarray().tolist()
                    okq = len(data['qubits'])==code.n and len(data['stabilizers'])==code.n_stabilizers
                    keys_ok = all(set(['object','color','opacity','params','location']).issubset(q.keys()) for q in data['qubits']+data['stabilizers'])
                    if not (okH and okq and keys_ok): fails.setdefault((name,d,rot),[]).append(((Lx,Ly,Lz),'mismatch',okH,okq,keys_ok))
                except Exception as e:
                    fails.setdefault((name,d,rot),[]).append(((Lx,Ly,Lz), type(e).__name__, str(e)[:60]))
print('total',tot)
for k,v in fails.items(): print(k, v[:6])
# decoder names
for name, cls in GCODES.items():
    r = client.post('/decoder-names', json=dict(code_name=name)); offered = json.loads(r.data)
    expect = [dn for dn,dc in GDEC.items() if dc.allowed_codes is None or cls.__name__ in dc.allowed_codes]
    if offered!=expect: print('DECODER NAMES MISMATCH', name, offered, expect)
