import itertools, sys, time
import numpy as np
from panqec.codes import *
import panqec.codes as pc
from panqec.bpauli import bs_prod, brank
from panqec.config import CODES

def check(code):
    H = code.stabilizer_matrix.toarray().astype(int)
    n = code.n
    lx = code.logicals_x.astype(int); lz = code.logicals_z.astype(int)
    k = lx.shape[0]
    def sp(a,b):
        return (a[:, :n] @ b[:, n:].T + a[:, n:] @ b[:, :n].T) % 2
    res = {}
    res['comm'] = not sp(H,H).any()
    res['lxH'] = not sp(lx,H).any()
    res['lzH'] = not sp(lz,H).any()
    res['k_eq'] = lx.shape[0]==lz.shape[0]
    if res['k_eq']:
        res['pair'] = np.array_equal(sp(lx,lz), np.eye(k,dtype=int))
    else:
        res['pair']=False
    res['xx'] = not sp(lx,lx).any()
    res['zz'] = not sp(lz,lz).any()
    r = brank(H)
    res['rank'] = (r == n-k)
    res['empty_rows'] = int((H.sum(axis=1)==0).sum())
    return n,k,r,res

names = sorted(CODES.keys()) if __name__=="__main__" else []
maxn = int(sys.argv[1]) if len(sys.argv)>1 else 400
for name in names:
    cls = CODES[name]
    dim = cls.dimension
    rng = range(1,5) if dim==3 else range(1,6)
    for size in itertools.product(rng, repeat=dim):
        try:
            t=time.time()
            code = cls(*size)
            if code.n > maxn: continue
            n,k,r,res = check(code)
            bad = [kk for kk,v in res.items() if kk!='empty_rows' and not v]
            print(name, size, 'n',n,'k',k,'rank',r, 'd', code.d, 'BAD' if bad else 'ok', bad, 'emptyrows',res['empty_rows'])
        except Exception as e:
            print(name, size, 'EXC', type(e).__name__, str(e)[:80])
