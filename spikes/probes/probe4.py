import itertools, sys
import numpy as np
import panqec.codes as pc
from panqec.bpauli import brank
from probe_c01 import check  # reuse
names = [n for n in pc.__all__ if n!='StabilizerCode']
names = sorted(set(names))
axes = {2:['x','y'],3:['x','y','z']}
for name in names:
    cls = getattr(pc,name)
    dim = cls.dimension
    sizes = list(itertools.product(range(2,5), repeat=dim)) if dim==3 else list(itertools.product(range(2,6),repeat=2))
    for dn in cls.deformation_names:
        import inspect
        has_axis = 'deformation_axis' in inspect.signature(cls.get_deformation).parameters
        kws = [dict(deformation_axis=a) for a in axes[dim]]+[{}] if has_axis else [{}]
        okc=0; badl=[]
        for size in sizes:
            for kw in kws:
                try:
                    c=cls(*size)
                    if c.n>250: continue
                    n0,k0,r0,res0 = check(c)
                    base_ok = not [kk for kk,v in res0.items() if kk!='empty_rows' and not v]
                    if not base_ok: continue
                    c.deform(dn, **kw)
                    n,k,r,res=check(c)
                    bad=[kk for kk,v in res.items() if kk!='empty_rows' and not v]
                    if bad or (n,k,r)!=(n0,k0,r0): badl.append((size,kw,bad))
                    else: okc+=1
                except Exception as e:
                    badl.append((size,kw,'EXC '+repr(e)[:60]))
        print(name, dn, 'ok',okc,'bad',len(badl), badl[:4])
