import numpy as np, io, contextlib
from panqec.codes import Toric2DCode, Planar2DCode
from panqec.decoders import MemoryBeliefPropagationDecoder
from panqec.error_models import PauliErrorModel
code=Planar2DCode(3,3); em=PauliErrorModel(1/3,1/3,1/3)
dec=MemoryBeliefPropagationDecoder(code,em,0.05,max_bp_iter=10)
rng=np.random.default_rng(0)
ok=0;bad=0;exc=0
for t in range(30):
    e=em.generate(code,0.05,rng); s=np.array(code.measure_syndrome(e)).astype(int)
    try:
        with contextlib.redirect_stdout(io.StringIO()):
            c=dec.decode(s)
        assert c.shape==(2*code.n,)
        if np.array_equal(np.array(code.measure_syndrome(c)).astype(int), s): ok+=1
        else: bad+=1
    except Exception as ex:
        exc+=1; last=repr(ex)[:100]
print('MBP with int syndrome: valid',ok,'invalid',bad,'exc',exc, last if exc else '')
