import os, gzip, json, tempfile, shutil
import numpy as np
from panqec.simulation import read_input_dict
from panqec.utils import load_json, save_json
spec = {"ranges": {"label":"t","code":{"name":"Toric2DCode","parameters":[{"L_x":2,"L_y":2}]},
  "error_model":{"name":"PauliErrorModel","parameters":[{"r_x":1/3,"r_y":1/3,"r_z":1/3}]},
  "decoder":{"name":"MatchingDecoder","parameters":{}}, "error_rate":[0.1,0.2]}}
import copy
d = tempfile.mkdtemp()
for ext in ['.json','.json.gz']:
    out = os.path.join(d,'res'+ext)
    bs = read_input_dict(copy.deepcopy(spec), out, verbose=False)
    bs.run(5)
    full = open(out,'rb').read()
    print(ext, 'full size', len(full), [s['results']['n_runs'] for s in load_json(out)])
    outcomes = {}
    for cut in range(0, len(full)):
        open(out,'wb').write(full[:cut])
        try:
            bs2 = read_input_dict(copy.deepcopy(spec), out, verbose=False)
            bs2._run(7)   # bypass KeyboardInterrupt catch
            res = [s['results']['n_runs'] for s in load_json(out)]
            lens = [len(s['results']['success']) for s in load_json(out)]
            outcomes.setdefault(('ok',tuple(res),tuple(lens)),[]).append(cut)
        except BaseException as e:
            outcomes.setdefault(('EXC',type(e).__name__, str(e)[:50]),[]).append(cut)
    for k,v in outcomes.items(): print('   ',k, len(v), v[:5], '...', v[-2:])
shutil.rmtree(d)
