import numpy as np, itertools
from panqec.codes import Toric3DCode, Planar3DCode, RotatedPlanar3DCode, RotatedToric3DCode
from panqec.decoders import SweepDecoder3D, RotatedSweepDecoder3D
from panqec.error_models import PauliErrorModel
from panqec.bpauli import bs_prod
em = PauliErrorModel(0,0,1)
# geometry check: flip_edge vs H
def geom(code, dec):
    H = code.stabilizer_matrix.toarray()
    n=code.n; bad=[]
    for q,loc in enumerate(code.qubit_coordinates):
        signs = np.zeros(code.n_stabilizers, dtype=int)
        try:
            dec.flip_edge(loc, signs)
        except Exception as e:
            bad.append((loc,'EXC',repr(e)[:40])); continue
        e = np.zeros(2*n,dtype=int); e[n+q]=1
        syn = bs_prod(code.stabilizer_matrix, e)
        syn = np.array(syn).astype(int).copy()
        syn[code.z_indices]=0   # only face (X-type) stabilizers
        if not np.array_equal(syn, signs): bad.append((loc, np.nonzero(syn)[0].tolist(), np.nonzero(signs)[0].tolist()))
    return bad
for cls,dcls,sizes in [(Toric3DCode,SweepDecoder3D,[(2,2,2),(2,3,4),(3,3,3)]),(Planar3DCode,SweepDecoder3D,[(2,2,2),(2,3,4),(3,3,3),(1,2,3)]),
                 (RotatedPlanar3DCode,RotatedSweepDecoder3D,[(2,2,2),(3,4,2),(4,3,3),(5,5,3)]),(RotatedToric3DCode,RotatedSweepDecoder3D,[(2,2,2),(4,4,2),(2,3,2),(4,6,3)])]:
    for s in sizes:
        code=cls(*s); dec=dcls(code,em,0.1)
        b=geom(code,dec)
        print(cls.__name__, s, 'n',code.n,'geom bad', len(b), b[:2])
