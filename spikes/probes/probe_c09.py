import itertools, numpy as np
from panqec.codes import Toric2DCode, Planar2DCode, RotatedPlanar2DCode
from panqec.decoders import MatchingDecoder, UnionFindDecoder
from panqec.error_models import PauliErrorModel
def lowweight(code, dec, t):
    n=code.n; bad=[]; cnt=0
    for w in range(1,t+1):
        for supp in itertools.combinations(range(n), w):
            for ps in itertools.product('XYZ', repeat=w):
                e=np.zeros(2*n,dtype=int)
                for q,p in zip(supp,ps):
                    if p in 'XY': e[q]=1
                    if p in 'ZY': e[n+q]=1
                c=dec.decode(code.measure_syndrome(e))
                cnt+=1
                if not code.is_success((c+e)%2): bad.append((supp,ps))
    return cnt,bad
em=PauliErrorModel(1/3,1/3,1/3)
for cls,sizes in [(Toric2DCode,[(3,3),(3,4),(4,4),(5,5)]),(Planar2DCode,[(3,3),(3,4),(5,5)]),(RotatedPlanar2DCode,[(3,3),(3,5),(5,5)])]:
    for s in sizes:
        code=cls(*s); d=int(code.d); t=(d-1)//2
        dec=MatchingDecoder(code,em,0.1)
        cnt,bad=lowweight(code,dec,t)
        print(cls.__name__,s,'d',d,'t',t,'matching errors tried',cnt,'failures',len(bad),bad[:2],flush=True)
for s in [(3,3),(3,4),(4,4),(5,5)]:
    code=Toric2DCode(*s); d=int(code.d); t=(d-1)//2
    dec=UnionFindDecoder(code,em,0.1)
    cnt,bad=lowweight(code,dec,t)
    print('UF Toric',s,'d',d,'t',t,'tried',cnt,'failures',len(bad),bad[:3],flush=True)
# optimality vs brute force coset under biased weights
def optimal(code, em, p):
    dec=MatchingDecoder(code,em,p)
    wx,wz=em.get_weights(code,p)
    n=code.n
    Hz=code.Hz.toarray()%2; Hx=code.Hx.toarray()%2
    allx=np.array(list(itertools.product([0,1],repeat=n)))
    sx=(allx@Hz.T)%2; sz=(allx@Hx.T)%2
    costx=allx@wx; costz=allx@wz
    bad=0
    rng=np.random.default_rng(0)
    for trial in range(200):
        e=em.generate(code,p,rng)
        s=code.measure_syndrome(e)
        c=dec.decode(s)
        cx=c[:n]; cz=c[n:]
        tx=(e[:n]@Hz.T)%2; tz=(e[n:]@Hx.T)%2
        bestx=costx[(sx==tx).all(axis=1)].min(); bestz=costz[(sz==tz).all(axis=1)].min()
        if cx@wx>bestx+1e-9 or cz@wz>bestz+1e-9: bad+=1
    return bad
for cls,s in [(Toric2DCode,(2,3)),(Planar2DCode,(3,3)),(RotatedPlanar2DCode,(3,4))]:
    for defo in [None,'XZZX']:
        em2=PauliErrorModel(0.1,0.2,0.7,deformation_name=defo)
        print('optimality',cls.__name__,s,defo,'suboptimal',optimal(cls(*s),em2,0.2),flush=True)
