import numpy as np
from ldpc import BpOsdDecoder
from panqec.codes import Toric2DCode
from panqec.error_models import PauliErrorModel
code=Toric2DCode(3,3); em=PauliErrorModel(0.2,0.3,0.5)
rng=np.random.default_rng(0)
d = BpOsdDecoder(code.Hx, error_rate=0.1, max_iter=20, bp_method='minimum_sum', ms_scaling_factor=0., schedule='serial', osd_method='osd_cs', osd_order=0)
stale=0; retbad=0; conv=0
for t in range(200):
    e = em.generate(code,0.1,rng)
    s = code.measure_syndrome(e); sx = code.extract_x_syndrome(s)
    ret = d.decode(np.array(sx,dtype=int))
    buf = d.osdw_decoding
    ok_ret = np.array_equal((code.Hx @ ret)%2, sx)
    ok_buf = np.array_equal((code.Hx @ buf)%2, sx)
    conv += d.converge
    if not ok_buf: stale+=1
    if not ok_ret: retbad+=1
    if t<6: print(t, 'converge',d.converge,'ret ok',ok_ret,'buf ok',ok_buf, 'ret==buf', np.array_equal(ret,buf))
print('stale buf',stale,'ret bad',retbad,'converged',conv)
