import numpy as np
from ldpc import BpOsdDecoder
from panqec.codes import Toric2DCode, RotatedToric3DCode
from panqec.error_models import PauliErrorModel
def mk(H, n, p, order):
    return BpOsdDecoder(H, error_rate=p, max_iter=20, bp_method='minimum_sum', ms_scaling_factor=0., schedule='serial', osd_method='osd_cs', osd_order=order)
em=PauliErrorModel(0.2,0.3,0.5)
for order in [0,5]:
    code=Toric2DCode(3,4); rng=np.random.default_rng(0)
    d=mk(code.Hx,code.n,0.1,order); diff=0; inval=0
    pi,px,py,pz=em.probability_distribution(code,0.1)
    for t in range(300):
        e=em.generate(code,0.15,rng); sx=np.array(code.extract_x_syndrome(code.measure_syndrome(e)),dtype=int)
        d.update_channel_probs(pz+py)
        r=d.decode(sx).copy()
        f=mk(code.Hx,code.n,0.1,order); f.update_channel_probs(pz+py); r2=f.decode(sx)
        if not np.array_equal(r,r2): diff+=1
        if not np.array_equal((code.Hx@r)%2, sx): inval+=1
    print('order',order,'reused vs fresh differ',diff,'invalid',inval)
# non-css full matrix, non-serial schedule default
code=RotatedToric3DCode(3,2,2); H=code.stabilizer_matrix; rng=np.random.default_rng(1)
d=BpOsdDecoder(H, error_rate=0.1, max_iter=20, bp_method='minimum_sum', ms_scaling_factor=0., osd_method='osd_cs', osd_order=3)
diff=0; inval=0
for t in range(200):
    e=em.generate(code,0.1,rng); s=np.array(code.measure_syndrome(e),dtype=int)
    r=d.decode(s).copy()
    f=BpOsdDecoder(H, error_rate=0.1, max_iter=20, bp_method='minimum_sum', ms_scaling_factor=0., osd_method='osd_cs', osd_order=3); r2=f.decode(s)
    if not np.array_equal(r,r2): diff+=1
    if not np.array_equal((H@r)%2, s): inval+=1
print('noncss differ',diff,'invalid',inval)
