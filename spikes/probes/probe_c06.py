import numpy as np, itertools
from panqec.codes import *
from panqec.decoders import *
from panqec.error_models import PauliErrorModel
def test(codef, decf, em, p, ntr=200, seed=0):
    rng=np.random.default_rng(seed)
    code=codef(); dec=decf(code,em,p)
    n=code.n; impure=0; invalid=0; mut=0; exc=0
    for t in range(ntr):
        e = em.generate(code, p, rng)
        s = code.measure_syndrome(e)
        s0 = s.copy()
        try:
            c = dec.decode(s)
        except Exception as ex:
            exc+=1; continue
        if not np.array_equal(s,s0): mut+=1
        if not np.array_equal(np.array(code.measure_syndrome(c)).astype(int), np.array(s0).astype(int)): invalid+=1
        fresh = decf(codef(),em,p).decode(s0.copy())
        if not np.array_equal(np.array(fresh)%2, np.array(c)%2): impure+=1
    return dict(impure=impure, invalid=invalid, mutated=mut, exc=exc)
em = PauliErrorModel(0.2,0.3,0.5)
print('bposd toric2d', test(lambda:Toric2DCode(3,3), lambda c,e,p: BeliefPropagationOSDDecoder(c,e,p,max_bp_iter=20,osd_order=0), em, 0.1))
print('bposd toric2d chupd', test(lambda:Toric2DCode(3,3), lambda c,e,p: BeliefPropagationOSDDecoder(c,e,p,max_bp_iter=20,osd_order=5,channel_update=True), em, 0.1))
def xzzx():
    c=Toric2DCode(3,4); c.deform('XZZX'); return c
print('bposd toric2d XZZX noncss', test(xzzx, lambda c,e,p: BeliefPropagationOSDDecoder(c,e,p,max_bp_iter=20,osd_order=3), em, 0.1))
print('bposd rotatedtoric3d 3x2x2', test(lambda:RotatedToric3DCode(3,2,2), lambda c,e,p: BeliefPropagationOSDDecoder(c,e,p,max_bp_iter=10,osd_order=0), em, 0.05, ntr=50))
print('matching planar', test(lambda:Planar2DCode(3,4), MatchingDecoder, em, 0.1))
print('matching rotplanar', test(lambda:RotatedPlanar2DCode(3,4), MatchingDecoder, em, 0.1))
print('uf toric', test(lambda:Toric2DCode(4,3), UnionFindDecoder, em, 0.1))
print('sweepmatch toric3d', test(lambda:Toric3DCode(3,3,3), SweepMatchDecoder, em, 0.02,ntr=60))
print('xcube', test(lambda:XCubeCode(3,3,3), XCubeMatchingDecoder, em, 0.02, ntr=30))
