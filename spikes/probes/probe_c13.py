import os, json, tempfile, copy, itertools
from panqec.simulation import read_input_dict
from panqec.utils import load_json
from panqec.config import CODES, DECODERS
spec = {"ranges": {"label":"t","code":{"name":"Toric2DCode","parameters":[{"L_x":2,"L_y":3},{"L_x":3,"L_y":3},[4,4]]},
  "error_model":{"name":"PauliErrorModel","parameters":[{"r_x":1/3,"r_y":1/3,"r_z":1/3},{"r_x":0.1,"r_y":0.2,"r_z":0.7,"deformation_name":"XZZX"}]},
  "decoder":{"name":"BeliefPropagationOSDDecoder","parameters":[{"max_bp_iter":5,"osd_order":0},{"max_bp_iter":7,"osd_order":1}]}, "error_rate":[0.1,0.2,0.3]}}
d=tempfile.mkdtemp(); out=os.path.join(d,'r.json')
bs=read_input_dict(copy.deepcopy(spec), out, verbose=False)
sims=bs._simulations
print(len(sims), 3*2*2*3)
tuples=[(tuple(s.code.size), s.error_model.direction, s.error_model._deformation_name, tuple(sorted(s.decoder.params.items())), s.error_rate) for s in sims]
print('distinct', len(set(tuples)))
bs.run(2)
data=load_json(out)
# re-instantiate and check identity matching
bs2=read_input_dict(copy.deepcopy(spec), out, verbose=False); bs2.load_results()
print('resumed n_results', sorted(set(s.n_results for s in bs2._simulations)))
print(json.dumps(data[0]['inputs'])[:400])
