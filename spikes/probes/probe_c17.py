import itertools, sys, time
import numpy as np
import panqec.codes as pc

def true_distance_upto(code, dmax):
    """return min weight w<dmax of nontrivial logical, else None"""
    H = code.stabilizer_matrix.toarray().astype(np.uint8)
    n = code.n
    L = np.vstack([code.logicals_x, code.logicals_z]).astype(np.uint8)
    Hx, Hz = H[:, :n], H[:, n:]
    Lx, Lz = L[:, :n], L[:, n:]
    css = code.is_css
    for w in range(1, dmax):
        for supp in itertools.combinations(range(n), w):
            supp = list(supp)
            # syndrome contributions: X on q -> column Hz[:,q]; Z on q -> Hx[:,q]
            if css:
                types = [('X',)*w, ('Z',)*w]
            else:
                types = itertools.product('XYZ', repeat=w)
            for t in types:
                s = np.zeros(H.shape[0], dtype=np.uint8); l = np.zeros(L.shape[0], dtype=np.uint8)
                for q,p in zip(supp,t):
                    if p in 'XY': s ^= Hz[:,q]; l ^= Lz[:,q]
                    if p in 'ZY': s ^= Hx[:,q]; l ^= Lx[:,q]
                if not s.any() and l.any():
                    return w, dict(zip(supp,t))
    return None
cases = [('Toric2DCode',[(2,2),(2,3),(3,3),(3,4),(4,4)]),('Planar2DCode',[(2,2),(2,3),(3,2),(3,3),(4,3)]),('RotatedPlanar2DCode',[(2,2),(2,3),(3,3),(3,4),(4,4),(5,3)]),
  ('Color488Code',[(1,1),(2,2)]),('Color666PlanarCode',[(1,1),(2,2),(3,3)]),('Color666ToricCode',[(1,1),(2,2)]),
  ('Toric3DCode',[(2,2,2),(2,2,3),(3,3,3)]),('Planar3DCode',[(2,2,2),(3,2,2),(3,3,3)]),('RotatedPlanar3DCode',[(2,2,2),(3,3,2),(3,3,3),(4,3,2)]),
  ('RotatedToric3DCode',[(2,2,2),(3,2,2),(2,3,2),(4,3,2),(4,4,2),(4,2,3)]),('RhombicToricCode',[(2,2,2)]),('RhombicPlanarCode',[(2,2,2),(3,3,3),(2,3,2)]),
  ('XCubeCode',[(2,2,2),(3,3,3),(2,3,2)]),('HollowPlanar3DCode',[(2,2,2),(3,3,3),(4,4,4)]),('HollowRhombicCode',[(2,2,3),(3,3,3),(4,4,4)]),('Color3DCode',[(2,2,2)])]
for name,sizes in cases:
    cls=getattr(pc,name)
    for s in sizes:
        t=time.time()
        code=cls(*s)
        d=int(code.d)
        if d>5 or (code.n>120 and d>3) : print(name,s,'n',code.n,'d',d,'skip'); continue
        r=true_distance_upto(code,d)
        print(name,s,'n',code.n,'k',code.k,'d_reported',d,'lower-weight logical:',r, f'{time.time()-t:.1f}s', flush=True)
