import numpy as np, itertools
from panqec.codes import *
from panqec.error_models import PauliErrorModel
# C18
code = Toric2DCode(2,2)   # n=8
for r in [(1/3,1/3,1/3),(1,0,0),(0.2,0.5,0.3)]:
    em = PauliErrorModel(*r)
    n=code.n
    # small: use planar 1x... n small
    c2 = Planar2DCode(2,2)  # n=5
    tot=0
    for bits in itertools.product([0,1], repeat=2*c2.n):
        tot += em.error_probability(np.array(bits), c2, 0.3)
    print(r, "sum of probs", tot)
# C14 arithmetic replicate
def plan(n_inputs, n_nodes, n_cores, trials):
    n_tasks = n_nodes*n_cores
    out=[]
    for job_idx in range(1,n_nodes+1):
        i_node=job_idx-1
        for i_core in range(n_cores):
            i_task = n_cores*i_node+i_core
            tpi = n_tasks//n_inputs
            i_input = i_task//tpi
            if i_input>=n_inputs: i_input=n_inputs-1
            if i_input==n_inputs-1: tpi = tpi + n_tasks % n_inputs
            iti = i_task % tpi
            if i_input==n_inputs-1: iti = i_task - n_tasks//n_inputs*(n_inputs-1)
            n_runs = trials//tpi
            if iti==tpi-1: n_runs += trials % n_runs
            out.append((i_input,n_runs))
    return out
bad=0;tot=0; ex=[]
for I in range(1,6):
  for N in range(1,4):
    for C in range(1,7):
      if N*C<I: continue
      for T in range(1,40):
        tpi_max = N*C//I + (N*C)%I
        if T < tpi_max: continue
        tot+=1
        try:
            p=plan(I,N,C,T)
            sums=[sum(r for i,r in p if i==j) for j in range(I)]
            if any(s!=T for s in sums) or any(r<1 for i,r in p):
                bad+=1
                if len(ex)<6: ex.append((I,N,C,T,sums))
        except ZeroDivisionError:
            bad+=1; ex.append((I,N,C,T,'ZDE'))
print("C14 bad",bad,"of",tot, ex[:8])
