import numpy as np
from panqec.codes import Toric3DCode, RotatedPlanar3DCode, Planar3DCode
from panqec.decoders import SweepMatchDecoder, RotatedSweepMatchDecoder
from panqec.error_models import PauliErrorModel
em=PauliErrorModel(1/3,1/3,1/3)
for cls,dcls,sizes in [(Toric3DCode,SweepMatchDecoder,[(3,3,3),(3,4,5),(2,2,2),(4,4,4)]),(RotatedPlanar3DCode,RotatedSweepMatchDecoder,[(3,3,3),(4,4,3),(5,5,3),(2,2,2),(3,4,2)]),(Planar3DCode,SweepMatchDecoder,[(3,3,3),(2,3,4)])]:
    for s in sizes:
        code=cls(*s); dec=dcls(code,em,0.1); n=code.n; bad=[];exc=0
        for q in range(n):
            for p in 'XYZ':
                e=np.zeros(2*n,dtype=int)
                if p in 'XY': e[q]=1
                if p in 'ZY': e[n+q]=1
                try:
                    c=dec.decode(code.measure_syndrome(e))
                    if not code.is_success((c+e)%2): bad.append((code.qubit_coordinates[q],p))
                except Exception as ex:
                    exc+=1
        print(cls.__name__,s,'d',code.d,'single-qubit fails',len(bad),bad[:4],'exc',exc,flush=True)
