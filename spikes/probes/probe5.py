import itertools
import panqec.codes as pc
from probe_c01 import check
for name in ['Planar3DCode']:
    cls=getattr(pc,name)
    oks=[];bads=[]
    for size in itertools.product(range(1,5),repeat=3):
        c=cls(*size)
        try:
            n,k,r,res=check(c)
            bad=[kk for kk,v in res.items() if kk!='empty_rows' and not v]
            (bads if bad else oks).append((size,bad, res['empty_rows'], c.d))
        except Exception as e:
            bads.append((size,repr(e)[:50]))
    print(name,'ok',len(oks),'bad',len(bads),bads[:10])
    print([ (s,d) for s,_,_,d in oks][:70])
