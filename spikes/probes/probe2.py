import numpy as np, itertools
from panqec.cli import read_range_input, read_bias_ratios
from panqec.utils import get_direction_from_bias_ratio
for spec in ['0:0.6:0.005','0:0.5:0.005','0.1:0.3:0.1','0:1:0.1','0.01:0.05:0.01','0:0.3:0.1','0.1:0.7:0.2', '0:0.6']:
    v = read_range_input(spec)
    parts = spec.split(':')
    print(spec, len(v), v[-3:], 'beyond max' if v[-1] > float(parts[1])+1e-12 else '')
# systematic
bad=0; tot=0
from fractions import Fraction as F
for step in ['0.005','0.01','0.02','0.05','0.1','0.001','0.025']:
  for lo in range(0,20):
    for hi in range(lo+1, 60):
        s=F(step); a=lo*s; b=hi*s
        spec=f"{float(a)}:{float(b)}:{step}"
        v=read_range_input(spec)
        tot+=1
        exp = hi-lo+1
        if len(v)!=exp:
            bad+=1
            if bad<8: print("BAD", spec, len(v), exp, v[-2:])
print(bad, tot)
from panqec.config import CODES, DECODERS
for k,v in CODES.items():
    if v.__name__!=k: print("REGISTRY MISMATCH", k, v.__name__)
for k,v in DECODERS.items():
    if v.__name__!=k: print("REGISTRY MISMATCH", k, v.__name__)
