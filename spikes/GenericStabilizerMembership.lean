import Mathlib.LinearAlgebra.BilinearForm.Orthogonal
import Mathlib.LinearAlgebra.Dimension.Constructions
import Mathlib.LinearAlgebra.FiniteDimensional.Lemmas

open Module LinearMap Submodule

variable {K V : Type*} [Field K] [AddCommGroup V] [Module K V] [FiniteDimensional K V]

/-- Abstract stabilizer-code data inside a symplectic space. -/
structure CodeData (B : LinearMap.BilinForm K V) (k : ℕ) where
  S : Submodule K V
  lx : Fin k → V
  lz : Fin k → V
  iso : S ≤ B.orthogonal S
  lxS : ∀ i, lx i ∈ B.orthogonal S
  lzS : ∀ i, lz i ∈ B.orthogonal S
  xx : ∀ i j, B (lx i) (lx j) = 0
  zz : ∀ i j, B (lz i) (lz j) = 0
  xz : ∀ i j, B (lx i) (lz j) = if i = j then 1 else 0
  dim : finrank K V = 2 * finrank K S + 2 * k

variable {B : LinearMap.BilinForm K V} {k : ℕ}

/-- logical effect map restricted to the normaliser N = S^⊥ -/
noncomputable def effect (C : CodeData B k) : B.orthogonal C.S →ₗ[K] (Fin k ⊕ Fin k → K) where
  toFun e := Sum.elim (fun i => B (C.lz i) e) (fun i => B (C.lx i) e)
  map_add' a b := by
    funext s; cases s <;> simp
  map_smul' c a := by
    funext s; cases s <;> simp

theorem effect_surjective (hAlt : B.IsAlt) (C : CodeData B k) :
    Function.Surjective (effect C) := by
  intro t
  have hzx : ∀ i j, B (C.lz i) (C.lx j) = if i = j then -1 else 0 := by
    intro i j
    have := hAlt.neg_eq (C.lx j) (C.lz i)
    rw [C.xz] at this
    by_cases h : i = j
    · subst h
      simp at this ⊢
      rw [← this]
    · have h' : ¬ j = i := fun e => h e.symm
      simp [h, h'] at this ⊢
      rw [← this]
  -- preimage: Σ -t(inl i) • lx i + Σ t(inr i) • lz i
  let e : V := ∑ i, (-(t (Sum.inl i))) • C.lx i + ∑ i, (t (Sum.inr i)) • C.lz i
  have he : e ∈ B.orthogonal C.S := by
    apply Submodule.add_mem
    · exact Submodule.sum_mem _ (fun i _ => Submodule.smul_mem _ _ (C.lxS i))
    · exact Submodule.sum_mem _ (fun i _ => Submodule.smul_mem _ _ (C.lzS i))
  refine ⟨⟨e, he⟩, ?_⟩
  funext s
  cases s with
  | inl j =>
    simp only [effect, LinearMap.coe_mk, AddHom.coe_mk, Sum.elim_inl, e]
    simp [map_add, map_sum, hzx, C.zz, Finset.sum_ite_eq]
  | inr j =>
    simp only [effect, LinearMap.coe_mk, AddHom.coe_mk, Sum.elim_inr, e]
    simp [map_add, map_sum, C.xx, C.xz, Finset.sum_ite_eq]

theorem mem_stabilizer_iff (hB : B.Nondegenerate) (hAlt : B.IsAlt) (C : CodeData B k) (e : V) :
    e ∈ C.S ↔ (e ∈ B.orthogonal C.S ∧ (∀ i, B (C.lx i) e = 0) ∧ (∀ i, B (C.lz i) e = 0)) := by
  have hrefl : B.IsRefl := hAlt.isRefl
  -- S sits inside ker(effect)
  let N := B.orthogonal C.S
  let Sin : Submodule K N := C.S.comap N.subtype
  have hS_le_ker : Sin ≤ LinearMap.ker (effect C) := by
    intro x hx
    have hx' : (x : V) ∈ C.S := hx
    rw [LinearMap.mem_ker]
    funext s
    cases s with
    | inl i => exact hrefl _ _ (C.lzS i _ hx')
    | inr i => exact hrefl _ _ (C.lxS i _ hx')
  have hfinN : finrank K N = finrank K C.S + 2 * k := by
    have h1 : finrank K N = finrank K V - finrank K C.S :=
      LinearMap.BilinForm.finrank_orthogonal hB C.S
    have hd := C.dim
    omega
  have hrank := LinearMap.finrank_range_add_finrank_ker (effect C)
  have hsurj : finrank K (LinearMap.range (effect C)) = 2 * k := by
    rw [LinearMap.range_eq_top.mpr (effect_surjective hAlt C)]
    simp [two_mul]
  have hker : finrank K (LinearMap.ker (effect C)) = finrank K C.S := by
    rw [hfinN, hsurj] at hrank; omega
  have hSin : finrank K Sin = finrank K C.S := by
    have : Sin = C.S.comap N.subtype := rfl
    rw [this]
    exact (Submodule.comapSubtypeEquivOfLe C.iso).finrank_eq
  have heq : Sin = LinearMap.ker (effect C) :=
    Submodule.eq_of_le_of_finrank_eq hS_le_ker (by rw [hSin, hker])
  constructor
  · intro he
    refine ⟨C.iso he, ?_, ?_⟩
    · intro i; exact hrefl _ _ (C.lxS i _ he)
    · intro i; exact hrefl _ _ (C.lzS i _ he)
  · rintro ⟨heN, hx, hz⟩
    have : (⟨e, heN⟩ : N) ∈ LinearMap.ker (effect C) := by
      rw [LinearMap.mem_ker]
      funext s
      cases s with
      | inl i => exact hz i
      | inr i => exact hx i
    rw [← heq] at this
    exact this

#print axioms mem_stabilizer_iff
