-- kernel-evaluation performance probe: toric 3D code as Nat bitmasks
def qubits3 (Lx Ly Lz : Nat) : List (Nat × Nat × Nat) :=
  (List.range Lx).flatMap (fun i => (List.range Ly).flatMap (fun j => (List.range Lz).map (fun k => (2*i+1, 2*j, 2*k)))) ++
  (List.range Lx).flatMap (fun i => (List.range Ly).flatMap (fun j => (List.range Lz).map (fun k => (2*i, 2*j+1, 2*k)))) ++
  (List.range Lx).flatMap (fun i => (List.range Ly).flatMap (fun j => (List.range Lz).map (fun k => (2*i, 2*j, 2*k+1))))

def stabs3 (Lx Ly Lz : Nat) : List (Nat × Nat × Nat) :=
  (List.range Lx).flatMap (fun i => (List.range Ly).flatMap (fun j => (List.range Lz).map (fun k => (2*i, 2*j, 2*k)))) ++
  (List.range Lx).flatMap (fun i => (List.range Ly).flatMap (fun j => (List.range Lz).map (fun k => (2*i+1, 2*j+1, 2*k)))) ++
  (List.range Lx).flatMap (fun i => (List.range Ly).flatMap (fun j => (List.range Lz).map (fun k => (2*i, 2*j+1, 2*k+1)))) ++
  (List.range Lx).flatMap (fun i => (List.range Ly).flatMap (fun j => (List.range Lz).map (fun k => (2*i+1, 2*j, 2*k+1))))

def indexOf3 (l : List (Nat × Nat × Nat)) (q : Nat × Nat × Nat) : Option Nat :=
  let rec go : List (Nat × Nat × Nat) → Nat → Option Nat
    | [], _ => none
    | h :: t, i => if h == q then some i else go t (i+1)
  go l 0

def deltasV : List (Int × Int × Int) := [(-1,0,0),(1,0,0),(0,-1,0),(0,1,0),(0,0,-1),(0,0,1)]
def deltasF (a : Nat × Nat × Nat) : List (Int × Int × Int) :=
  if a.2.2 % 2 == 0 then [(-1,0,0),(1,0,0),(0,-1,0),(0,1,0)]
  else if a.1 % 2 == 0 then [(0,-1,0),(0,1,0),(0,0,-1),(0,0,1)]
  else [(-1,0,0),(1,0,0),(0,0,-1),(0,0,1)]

def wrap (a : Nat) (d : Int) (P : Nat) : Nat := ((a : Int) + d).emod P |>.toNat

-- returns (xmask, zmask)
def stabRow (Lx Ly Lz : Nat) (qs : List (Nat × Nat × Nat)) (a : Nat × Nat × Nat) : Nat × Nat :=
  let isV := a.1 % 2 == 0 && a.2.1 % 2 == 0 && a.2.2 % 2 == 0
  let ds := if isV then deltasV else deltasF a
  let m := ds.foldl (fun acc d =>
    let q := (wrap a.1 d.1 (2*Lx), wrap a.2.1 d.2.1 (2*Ly), wrap a.2.2 d.2.2 (2*Lz))
    match indexOf3 qs q with
    | some i => acc ||| (1 <<< i)
    | none => acc) 0
  if isV then (0, m) else (m, 0)

def parity (x : Nat) : Bool :=
  -- fold halves: supports up to 2^12 bits
  let x := x ^^^ (x >>> 2048)
  let x := x ^^^ (x >>> 1024)
  let x := x ^^^ (x >>> 512)
  let x := x ^^^ (x >>> 256)
  let x := x ^^^ (x >>> 128)
  let x := x ^^^ (x >>> 64)
  let x := x ^^^ (x >>> 32)
  let x := x ^^^ (x >>> 16)
  let x := x ^^^ (x >>> 8)
  let x := x ^^^ (x >>> 4)
  let x := x ^^^ (x >>> 2)
  let x := x ^^^ (x >>> 1)
  x % 2 == 1

def symp (a b : Nat × Nat) : Bool := parity ((a.1 &&& b.2) ^^^ (a.2 &&& b.1))

def allCommute (rows : List (Nat × Nat)) : Bool :=
  rows.all (fun a => rows.all (fun b => !symp a b))

def check (Lx Ly Lz : Nat) : Bool :=
  let qs := qubits3 Lx Ly Lz
  let rows := (stabs3 Lx Ly Lz).map (stabRow Lx Ly Lz qs)
  allCommute rows

set_option maxRecDepth 100000 in
theorem t333 : check 3 3 3 = true := by decide +kernel
