import Mathlib.LinearAlgebra.BilinearForm.Orthogonal
import Mathlib.LinearAlgebra.BilinearForm.Properties
import Mathlib.Data.ZMod.Basic
import Mathlib.LinearAlgebra.Matrix.DotProduct

open LinearMap

abbrev PVec (n : ℕ) := (Fin n → ZMod 2) × (Fin n → ZMod 2)

/-- ω((x,z),(x',z')) = x·z' + z·x' -/
def sympForm (n : ℕ) : LinearMap.BilinForm (ZMod 2) (PVec n) :=
  LinearMap.mk₂ (ZMod 2) (fun a b => a.1 ⬝ᵥ b.2 + a.2 ⬝ᵥ b.1)
    (by intro a b c; simp [add_dotProduct]; ring)
    (by intro c a b; simp [smul_dotProduct]; ring)
    (by intro a b c; simp [dotProduct_add]; ring)
    (by intro c a b; simp [dotProduct_smul]; ring)

theorem sympForm_apply (n) (a b : PVec n) : sympForm n a b = a.1 ⬝ᵥ b.2 + a.2 ⬝ᵥ b.1 := rfl

theorem sympForm_isAlt (n) : (sympForm n).IsAlt := by
  intro a
  rw [sympForm_apply, dotProduct_comm a.2 a.1]
  have : (2 : ZMod 2) = 0 := rfl
  rw [← two_mul, this, zero_mul]

theorem sympForm_nondegenerate (n) : (sympForm n).Nondegenerate := by
  apply (LinearMap.IsRefl.nondegenerate_iff_separatingLeft (sympForm_isAlt n).isRefl).mpr
  intro a h
  ext i
  · have := h (0, Pi.single i 1)
    simpa [sympForm_apply] using this
  · have := h (Pi.single i 1, 0)
    simpa [sympForm_apply] using this
