import Mathlib.Tactic.Linarith
import Mathlib.Tactic.Ring
import Mathlib.Tactic.FieldSimp
import Mathlib.Data.Rat.Defs
import Mathlib.Algebra.Order.Field.Rat

/-! Spike: inverse-CDF `fast_choice` over ℚ and the single-qubit channel. -/

inductive P4 | I | X | Y | Z deriving DecidableEq, Repr

/-- transcription of `fast_choice(('I','X','Y','Z'), [pI,pX,pY,pZ])` for a variate `u` -/
def fastChoice (pI pX pY _pZ u : ℚ) : P4 :=
  if u < pI then .I
  else if u < pI + pX then .X
  else if u < pI + pX + pY then .Y
  else .Z          -- covers both `x < cum` on the last item and the `options[-1]` fallback

theorem fastChoice_I (pI pX pY pZ u : ℚ) : fastChoice pI pX pY pZ u = .I ↔ u < pI := by
  unfold fastChoice; split_ifs <;> simp_all

theorem fastChoice_X (pI pX pY pZ u : ℚ) (hX : 0 ≤ pX) :
    fastChoice pI pX pY pZ u = .X ↔ pI ≤ u ∧ u < pI + pX := by
  unfold fastChoice; split_ifs <;> simp_all <;> constructor <;> intros <;> linarith

theorem fastChoice_Z (pI pX pY pZ u : ℚ) (hX : 0 ≤ pX) (hY : 0 ≤ pY) :
    fastChoice pI pX pY pZ u = .Z ↔ pI + pX + pY ≤ u := by
  unfold fastChoice; split_ifs <;> simp_all <;> linarith

/-- channel (1-p, p rx, p ry, p rz) sums to one on the simplex -/
theorem channel_sum (p rx ry rz : ℚ) (h : rx + ry + rz = 1) :
    (1 - p) + p * rx + p * ry + p * rz = 1 := by
  have : p * rx + p * ry + p * rz = p * (rx + ry + rz) := by ring
  rw [add_assoc, add_assoc, ← add_assoc (p*rx), this, h]; ring

/-- conditional update used by BP-OSD: P(x-flip | z-flip) and P(x-flip | no z-flip) -/
theorem update_z_to_x (px py pz : ℚ) (h : pz + py ≠ 0) :
    py / (pz + py) * (pz + py) = py := by
  field_simp
