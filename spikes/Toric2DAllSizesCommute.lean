/-! Spike: all-sizes commutation of vertex/face stabilizers of the 2-D toric code (core Lean only). -/

def predW (x P : Nat) : Nat := if x = 0 then P - 1 else x - 1
def succW (x P : Nat) : Nat := if x + 1 = P then 0 else x + 1

theorem predW_spec (x P : Nat) : (x = 0 ∧ predW x P = P - 1) ∨ (x ≠ 0 ∧ predW x P = x - 1) := by
  unfold predW; split <;> simp_all
theorem succW_spec (x P : Nat) : (x + 1 = P ∧ succW x P = 0) ∨ (x + 1 ≠ P ∧ succW x P = x + 1) := by
  unfold succW; split <;> simp_all

/-- membership of a qubit location in the 4-neighbourhood of `b` -/
def nbr (Lx Ly : Nat) (b q : Nat × Nat) : Prop :=
  (q.1 = predW b.1 (2*Lx) ∧ q.2 = b.2) ∨ (q.1 = succW b.1 (2*Lx) ∧ q.2 = b.2) ∨
  (q.1 = b.1 ∧ q.2 = predW b.2 (2*Ly)) ∨ (q.1 = b.1 ∧ q.2 = succW b.2 (2*Ly))

instance (Lx Ly b q) : Decidable (nbr Lx Ly b q) := by unfold nbr; infer_instance

def ind (p : Prop) [Decidable p] : Nat := if p then 1 else 0
theorem ind_congr {p q : Prop} [Decidable p] [Decidable q] (h : p ↔ q) : ind p = ind q := by
  unfold ind; simp [h]

def overlap (Lx Ly : Nat) (a b : Nat × Nat) : Nat :=
  ind (nbr Lx Ly b (predW a.1 (2*Lx), a.2)) + ind (nbr Lx Ly b (succW a.1 (2*Lx), a.2)) +
  ind (nbr Lx Ly b (a.1, predW a.2 (2*Ly))) + ind (nbr Lx Ly b (a.1, succW a.2 (2*Ly)))

/-- cyclic adjacency of an even coordinate `u` and an odd coordinate `v` modulo the even period `P` -/
def adj (u v P : Nat) : Prop := v = u + 1 ∨ v = predW u P
instance (u v P) : Decidable (adj u v P) := by unfold adj; infer_instance

theorem succ_even (u P : Nat) (hu : u < P) (pu : u % 2 = 0) (pP : P % 2 = 0) : succW u P = u + 1 := by
  have := succW_spec u P; omega
theorem pred_odd (v P : Nat) (pv : v % 2 = 1) : predW v P = v - 1 := by
  have := predW_spec v P; omega

section
variable (Lx Ly ax ay bx by' : Nat) (hx : 2 ≤ Lx) (hy : 2 ≤ Ly)
    (hax : ax < 2*Lx) (hay : ay < 2*Ly) (hbx : bx < 2*Lx) (hby : by' < 2*Ly)
    (pax : ax % 2 = 0) (pay : ay % 2 = 0) (pbx : bx % 2 = 1) (pby : by' % 2 = 1)
include hx hy hax hay hbx hby pax pay pbx pby

theorem n1 : nbr Lx Ly (bx, by') (predW ax (2*Lx), ay) ↔ (bx = predW ax (2*Lx) ∧ adj ay by' (2*Ly)) := by
  unfold nbr adj
  simp only [pred_odd bx (2*Lx) pbx, pred_odd by' (2*Ly) pby]
  have := predW_spec ax (2*Lx); have := predW_spec ay (2*Ly)
  have := succW_spec bx (2*Lx); have := succW_spec by' (2*Ly)
  omega
theorem n2 : nbr Lx Ly (bx, by') (succW ax (2*Lx), ay) ↔ (bx = ax + 1 ∧ adj ay by' (2*Ly)) := by
  unfold nbr adj
  simp only [pred_odd bx (2*Lx) pbx, pred_odd by' (2*Ly) pby, succ_even ax (2*Lx) hax pax (by omega)]
  have := predW_spec ay (2*Ly)
  have := succW_spec bx (2*Lx); have := succW_spec by' (2*Ly)
  omega
theorem n3 : nbr Lx Ly (bx, by') (ax, predW ay (2*Ly)) ↔ (adj ax bx (2*Lx) ∧ by' = predW ay (2*Ly)) := by
  unfold nbr adj
  simp only [pred_odd bx (2*Lx) pbx, pred_odd by' (2*Ly) pby]
  have := predW_spec ax (2*Lx); have := predW_spec ay (2*Ly)
  have := succW_spec bx (2*Lx); have := succW_spec by' (2*Ly)
  omega
theorem n4 : nbr Lx Ly (bx, by') (ax, succW ay (2*Ly)) ↔ (adj ax bx (2*Lx) ∧ by' = ay + 1) := by
  unfold nbr adj
  simp only [pred_odd bx (2*Lx) pbx, pred_odd by' (2*Ly) pby, succ_even ay (2*Ly) hay pay (by omega)]
  have := predW_spec ax (2*Lx)
  have := succW_spec bx (2*Lx); have := succW_spec by' (2*Ly)
  omega

theorem vertex_face_commute : overlap Lx Ly (ax, ay) (bx, by') % 2 = 0 := by
  unfold overlap
  simp only
  rw [ind_congr (n1 Lx Ly ax ay bx by' hx hy hax hay hbx hby pax pay pbx pby),
      ind_congr (n2 Lx Ly ax ay bx by' hx hy hax hay hbx hby pax pay pbx pby),
      ind_congr (n3 Lx Ly ax ay bx by' hx hy hax hay hbx hby pax pay pbx pby),
      ind_congr (n4 Lx Ly ax ay bx by' hx hy hax hay hbx hby pax pay pbx pby)]
  have hne : predW ax (2*Lx) ≠ ax + 1 := by have := predW_spec ax (2*Lx); omega
  have hne' : predW ay (2*Ly) ≠ ay + 1 := by have := predW_spec ay (2*Ly); omega
  unfold adj ind
  by_cases h1 : bx = ax + 1 <;> by_cases h2 : bx = predW ax (2*Lx) <;>
  by_cases h3 : by' = ay + 1 <;> by_cases h4 : by' = predW ay (2*Ly) <;>
  simp_all
end
