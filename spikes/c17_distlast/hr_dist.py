import sys, itertools, time
import numpy as np
from scipy.optimize import milp, LinearConstraint, Bounds
from scipy.sparse import lil_matrix, csr_matrix
from panqec.codes import HollowRhombicCode

def gf2_rank(M):
    M = M.copy() % 2
    r = 0
    rows, cols = M.shape
    for c in range(cols):
        p = None
        for i in range(r, rows):
            if M[i, c]:
                p = i; break
        if p is None: continue
        M[[r, p]] = M[[p, r]]
        for i in range(rows):
            if i != r and M[i, c]:
                M[i] ^= M[r]
        r += 1
        if r == rows: break
    return r

def minwt(Hc, l, tl=60):
    """min weight v with Hc v = 0 mod 2, l.v = 1 mod 2"""
    m, n = Hc.shape
    nv = n + m + 1
    A = lil_matrix((m + 1, nv))
    for i in range(m):
        for q in np.nonzero(Hc[i])[0]:
            A[i, q] = 1
        A[i, n + i] = -2
    for q in np.nonzero(l)[0]:
        A[m, q] = 1
    A[m, n + m] = -2
    lb = np.zeros(m + 1); ub = np.zeros(m + 1); lb[m] = ub[m] = 1
    c = np.zeros(nv); c[:n] = 1
    bu = np.concatenate([np.ones(n), np.full(m + 1, float(n))])
    res = milp(c, constraints=LinearConstraint(A.tocsr(), lb, ub), integrality=np.ones(nv),
               bounds=Bounds(np.zeros(nv), bu), options={'time_limit': tl})
    if res.x is None:
        return None, None, res.status
    v = np.rint(res.x[:n]).astype(int)
    return int(v.sum()), v, res.status

def deficient(Lx, Ly, Lz):
    return (Lx == 3 and Ly >= 6 and Lz >= 6) or (Ly == 4 and Lx >= 5 and Lz >= 6) or (Lz == 4 and Lx >= 5 and Ly >= 6)

def run(size, tl=120):
    code = HollowRhombicCode(*size)
    n = code.n
    H = code.stabilizer_matrix.toarray().astype(np.uint8)
    HX = H[:, :n]; HZ = H[:, n:]
    cubes = HX[HX.any(axis=1)]
    tris = HZ[HZ.any(axis=1)]
    lx = np.asarray(code.logicals_x)[0][:n].astype(np.uint8)
    lz = np.asarray(code.logicals_z)[0][n:].astype(np.uint8)
    t0 = time.time()
    # X-type logical: commutes with triangles (Z), anticommutes with lz
    dX, vX, sX = minwt(tris, lz, tl)
    # Z-type: commutes with cubes, anticommutes with lx
    dZ, vZ, sZ = minwt(cubes, lx, tl)
    qs = code.qubit_coordinates
    rep = dict(size=size, n=n, d=code.d, wX=int(lx.sum()), wZ=int(lz.sum()), dX=dX, sX=sX, dZ=dZ, sZ=sZ, t=round(time.time()-t0, 1))
    print(rep, flush=True)
    if dX is not None and dZ is not None and min(dX, dZ) < code.d:
        v, nm = (vX, 'X') if dX <= dZ else (vZ, 'Z')
        print('  LIGHTER', nm, [qs[i] for i in np.nonzero(v)[0]], flush=True)
    return rep

if __name__ == '__main__':
    sizes = [tuple(int(t) for t in a.split(',')) for a in sys.argv[1:]]
    for s in sizes:
        run(s)
