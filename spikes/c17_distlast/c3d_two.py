import sys, time
import numpy as np
from scipy.optimize import milp, LinearConstraint, Bounds
from scipy.sparse import lil_matrix
from hr_dist import minwt
from panqec.codes import Color3DCode

def feasible_below(Hc, l, wmax, tl=600):
    m, n = Hc.shape
    nv = n + m + 1
    A = lil_matrix((m + 2, nv))
    for i in range(m):
        for q in np.nonzero(Hc[i])[0]:
            A[i, q] = 1
        A[i, n + i] = -2
    for q in np.nonzero(l)[0]:
        A[m, q] = 1
    A[m, n + m] = -2
    A[m + 1, :n] = 1
    lb = np.zeros(m + 2); ub = np.zeros(m + 2); lb[m] = ub[m] = 1; ub[m + 1] = wmax
    c = np.zeros(nv); c[:n] = 1
    bu = np.concatenate([np.ones(n), np.full(m + 1, float(n))])
    res = milp(c, constraints=LinearConstraint(A.tocsr(), lb, ub), integrality=np.ones(nv),
               bounds=Bounds(np.zeros(nv), bu), options={'time_limit': tl})
    return res.status, (None if res.x is None else int(np.rint(res.x[:n]).sum()))

def run(size, tl=900):
    code = Color3DCode(*size)
    n = code.n
    H = code.stabilizer_matrix.toarray().astype(np.uint8)
    HX = H[:, :n]; HZ = H[:, n:]
    faces = HX[HX.any(axis=1)]
    cells = HZ[HZ.any(axis=1)]
    LX = np.asarray(code.logicals_x)[:, :n].astype(np.uint8)
    LZ = np.asarray(code.logicals_z)[:, n:].astype(np.uint8)
    d = int(code.d)
    print(size, 'n', n, 'k', code.k, 'd', d, 'wX', LX.sum(axis=1).tolist(), 'wZ', LZ.sum(axis=1).tolist(), flush=True)
    res = []
    for i in range(code.k):
        w, v, st = minwt(cells, LZ[i], tl)
        res.append((w, st))
    print('  X-type min weights vs Z_i (w, status):', res, flush=True)
    res = []
    for i in range(code.k):
        st, w = feasible_below(faces, LX[i], d - 1, tl)
        res.append((st, w))
    print('  Z-type of weight <= d-1 vs X_i (status 2 = infeasible):', res, flush=True)

if __name__ == '__main__':
    for a in sys.argv[1:]:
        run(tuple(int(t) for t in a.split(',')))
