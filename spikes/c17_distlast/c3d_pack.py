import sys, itertools
from c3d_explore import setup, tr

def main(size):
    code, qs, idx, stabs, supp, types, LX, LZ = setup(size)
    cellsupps = set(v for s, v in supp.items() if 'cell' in types[s])
    facesupps = set(v for s, v in supp.items() if 'face' in types[s])
    G = [t for t in itertools.product(*[range(0, 4 * L, 2) for L in size])
         if all(c % 4 == 0 for c in t) or all(c % 4 == 2 for c in t)]
    def cls(op, kind):
        other = LZ if kind == 'X' else LX
        return tuple(len(op & o) % 2 for o in other)
    def commutes(op, kind):
        other = cellsupps if kind == 'X' else facesupps
        return all(len(op & v) % 2 == 0 for v in other)
    d = 2 * min(size)
    ok = True
    # strings
    for j, l in enumerate(LX):
        target = cls(l, 'X')
        reps = set()
        for t in G:
            o = frozenset(tr(q, t, size) for q in l)
            if cls(o, 'X') == target:
                assert commutes(o, 'X')
                reps.add(o)
        chosen, used = [], set()
        for o in sorted(reps, key=lambda o: sorted(o)):
            if not (o & used):
                chosen.append(o); used |= o
        print('X', j, 'in-class translates', len(reps), 'pairwise disjoint (greedy)', len(chosen), 'need', d)
        ok &= len(chosen) >= d
    # membranes, direction a = 0,1,2 (normal axis)
    for a in range(3):
        Z0, Z1, Z2 = LZ[3 * a], LZ[3 * a + 1], LZ[3 * a + 2]
        planes = {}
        layers = {}
        for t in G:
            for base, store in ((Z0, planes), (Z1, planes), (Z2, layers)):
                o = frozenset(tr(q, t, size) for q in base)
                store[o] = True
        planes = list(planes); layers = list(layers)
        def pos(o):   # set of coordinates along the normal axis
            return sorted(set(q[a] for q in o))
        for j, base in ((3 * a, Z0), (3 * a + 1, Z1), (3 * a + 2, Z2)):
            target = cls(base, 'Z')
            cands = [o for o in planes + layers if cls(o, 'Z') == target]
            # XOR of two blocks (layer + layer or plane + layer) that overlap
            blocks = planes + layers
            for i1 in range(len(blocks)):
                for i2 in range(i1 + 1, len(blocks)):
                    b1, b2 = blocks[i1], blocks[i2]
                    if b1 & b2:
                        o = frozenset(b1 ^ b2)
                        if cls(o, 'Z') == target:
                            cands.append(o)
            cands = list(set(cands))
            for o in cands:
                assert commutes(o, 'Z')
            # exact search for a disjoint family of maximum size (greedy by smallest)
            # prefer the structured family: single blocks first, then sums of two adjacent blocks of minimal weight
            chosen, used = [], set()
            for o in sorted(cands, key=lambda o: (len(o), sorted(o))):
                if not (o & used):
                    chosen.append(o); used |= o
            print('Z', j, 'axis', a, 'candidates in class', len(cands), 'greedy disjoint', len(chosen), 'need', d,
                  'weights', sorted(len(o) for o in chosen), 'covered qubits', len(used), 'of', len(qs))
            ok &= len(chosen) >= d
    print('ALL OK' if ok else 'INSUFFICIENT', size)

if __name__ == '__main__':
    for a in sys.argv[1:]:
        main(tuple(int(t) for t in a.split(',')))
