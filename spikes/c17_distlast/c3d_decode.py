import sys, itertools
import os; sys.path.insert(0, os.path.join(os.path.dirname(os.path.abspath(__file__)), '..', '..'))
from c3d_explore import setup, tr
from harness import regen_dist as D

size = (2, 2, 2)
code, qs, idx, stabs, supp, types, LX, LZ = setup(size)
inst = D.Inst('Color3DCode', size)
sels = D.packing_cert(inst)
n = inst.n
G = [t for t in itertools.product(*[range(0, 4 * L, 2) for L in size])
     if all(c % 4 == 0 for c in t) or all(c % 4 == 2 for c in t)]
blocks = {}
for t in G:
    for name, base in (('P0', LZ[0]), ('P2', LZ[1]), ('L3', LZ[2])):
        o = frozenset(tr(q, t, size) for q in base)
        blocks.setdefault(o, (name, t))
bl = list(blocks.items())
print('distinct blocks', len(bl))
logs = inst.LX + inst.LZ
for j in [9, 10, 11]:
    for s in sels[j]:
        v = logs[j]
        for i in range(len(inst.H)):
            if (s >> i) & 1: v ^= inst.H[i]
        sp = D.supp(n, v)
        o = frozenset(inst.coords[q] for q in range(n) if (sp >> q) & 1)
        found = None
        for r in (1, 2, 3):
            for combo in itertools.combinations(bl, r):
                x = frozenset()
                for c in combo: x = x ^ c[0]
                if x == o:
                    found = [c[1] for c in combo]; break
            if found: break
        print('logical', j, 'rep weight', len(o), 'xs', sorted(set(q[0] for q in o)), '=', found)
