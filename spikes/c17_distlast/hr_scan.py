import itertools, sys
from hr_dist import *
sizes = []
for Lx, Ly, Lz in itertools.product(range(2, 7), range(2, 7), range(3, 8)):
    if deficient(Lx, Ly, Lz): continue
    sizes.append((Lx, Ly, Lz))
from panqec.codes import HollowRhombicCode
sizes.sort(key=lambda s: HollowRhombicCode(*s).n)
bad = []
for s in sizes:
    if HollowRhombicCode(*s).n > 330: break
    r = run(s, tl=300)
    if r['dX'] != r['wX'] or r['dZ'] != r['wZ'] or r['sX'] != 0 or r['sZ'] != 0:
        bad.append(r)
print('BAD', bad)
