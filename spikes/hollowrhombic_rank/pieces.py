"""the partition of the selected triangles into boxes (Proofs/LatHollowRhombicCodeRankI-L) checked against the scheme"""
from full import *
def pieces_thick(L):
    Lx,Ly,Lz=L; xL=2*Lx-2; yT=2*Ly-2; zT=2*Lz-2
    E=lambda lo,hi: range(lo,hi+1,2)
    X=E(2,xL); Y=E(0,yT); Z=E(0,zT); HX=E(4,xL-2); HY=E(4,yT-4); HZ=E(4,zT-4)
    def box(a,xs,ys,zs,par=None): return set((a,x,y,z) for x in xs for y in ys for z in zs if par is None or (x+y+z)%4==par)
    S=set()
    # axis 3
    S|= box(3,X,E(0,yT-2),Z) - box(3,HX,HY,HZ) - box(3,[xL],HY,HZ) - box(3,HX,[2],HZ) - box(3,HX,HY,[2],2) - box(3,HX,HY,[zT-2],0)
    S|= box(2,X,E(2,yT),Z) - box(2,HX,HY,HZ) - box(2,[2],HY,HZ) - box(2,HX,[yT-2],HZ) - box(2,HX,HY,[2],2) - box(2,HX,HY,[zT-2],0)
    S|= box(1,X,[yT],Z) | box(1,HX,[2],HZ) | box(1,[2],HY,HZ) | box(1,HX,HY,[2],2) | box(1,HX,HY,[zT-2],0)
    S|= box(0,[xL],E(0,yT-2),Z)
    S|= box(0,E(2,xL-2),E(0,yT-2),E(2,zT),2) - box(0,HX,HY,HZ,2) - box(0,[2],HY,HZ,2) - box(0,HX,[2],HZ,2) - box(0,HX,HY,[zT-2],2)
    S|= box(0,[2],HY,[2],0) | box(0,HX,[2],[2],0)
    S|= set((0,2,2,z) for z in range(8,zT-3,4))
    return S
for L in [(4,5,5),(4,5,6),(5,6,7),(6,5,8),(4,7,9),(5,5,5),(7,6,5)]:
    sel=set(faces_scheme(L).keys())
    P=pieces_thick(L)
    print(L, sel==P, len(sel), len(P), sorted(sel-P)[:5], sorted(P-sel)[:5])
print('--- all sizes')
bad=[]
for Lx in range(2,8):
    for Ly in range(2,9):
        for Lz in range(3,10):
            L=(Lx,Ly,Lz)
            sel=set(faces_scheme(L).keys()); P=pieces_thick(L)
            if sel!=P: bad.append(L)
print(len(bad)); print(bad)
