"""the closed-form counts of the thick-hole regime and the identity cubes + triangles + 1 = n"""
def half(m,e): return (m+1)//2 if e else m//2
def thick_counts(Lx,Ly,Lz):
    A,B,C=Lx-3,Ly-4,Lz-4   # hole vertex counts
    nx,ny,nz=Lx-1,Ly,Lz
    # corner parities
    # pieces with checker: need parity of first corner sum %4
    def chk(n,corner,r): return half(n, corner%4==r)
    zT=2*Lz-2; xL=2*Lx-2; yT=2*Ly-2
    S3 = nx*(ny-1)*nz - A*B*C - B*C - A*C - chk(A*B,4+4+2,2) - chk(A*B,4+4+zT-2,0)
    S2 = nx*(ny-1)*nz - A*B*C - B*C - A*C - chk(A*B,4+4+2,2) - chk(A*B,4+4+zT-2,0)
    S1 = nx*nz + A*C + B*C + chk(A*B,10,2) + chk(A*B,8+zT-2,0)
    S0 = (ny-1)*nz + chk((nx-1)*(ny-1)*(nz-1),2+0+2,2) - chk(A*B*C,12,2) - chk(B*C,2+4+4,2) - chk(A*C,4+2+4,2) - chk(A*B,8+zT-2,2) \
         + chk(B,2+4+2,0) + chk(A,4+2+2,0) + (Lz-5)//2
    cubes = half(Lx*(Ly+1)*(Lz-1),True) - chk((Lx-4)*(Ly-5)*(Lz-5),15,1)
    n = Lx*Ly*Lz+(Lx-1)*(Ly-1)*Lz+(Lx-1)*Ly*(Lz-1) - ((Lx-2)*(Ly-4)*(Lz-4)+(Lx-3)*(Ly-3)*(Lz-4)+(Lx-3)*(Ly-4)*(Lz-3))
    return S3,S2,S1,S0,cubes,n
if __name__=='__main__':
    from full import *
    ok=True
    for Lx in range(4,9):
        for Ly in range(5,10):
            for Lz in range(5,12):
                S3,S2,S1,S0,cubes,n=thick_counts(Lx,Ly,Lz)
                if S3+S2+S1+S0+cubes+1!=n: print('IDENT FAIL',(Lx,Ly,Lz),S3+S2+S1+S0+cubes+1,n); ok=False
    print('identity ok',ok)
    for L in [(4,5,5),(5,6,7),(4,7,6),(6,5,8)]:
        sel=faces_scheme(L).keys()
        from collections import Counter
        c=Counter(t[0] for t in sel)
        lab=Lab(*L)
        print(L,[c[3],c[2],c[1],c[0]],len(lab.cubes),lab.n,thick_counts(*L))
