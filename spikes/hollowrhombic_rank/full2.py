"""full.py + the kept lower triangles for Lz = 4 (QY, QX): triangular for every size, count n - 1 on every non-deficient size"""
from full import *
import full
def faces_scheme2(L):
    Lx,Ly,Lz=L
    sel=faces_scheme(L)
    mu=lambda a,x,y,z: (((x*(2*Ly+1)+y)*4+RK[a])*(2*Lz+1)+z)
    # recompute mu with z for all
    sel={t:(pr,mu(*t)) for t,(pr,m) in sel.items()}
    if Lz==4 and Lx==4 and Ly>=5:
        for y in range(4,2*Ly-5,2):
            if (2+y+2)%4==0 and Pgeo(L,0,2,y,2):
                sel[(0,2,y,2)]=([(3,y,2),(4,y-1,2),(3,y-2,2)],mu(0,2,y,2))
    if Lz==4 and Ly==5 and Lx>=5:
        for x in range(4,2*Lx-3,2):
            if (x+2+2)%4==0 and Pgeo(L,0,x,2,2):
                sel[(0,x,2,2)]=([(x,3,2),(x-1,4,2)],mu(0,x,2,2))
    return sel
if __name__=='__main__':
    for Lx in range(2,9):
        for Ly in range(2,11):
            for Lz in range(3,8):
                L=(Lx,Ly,Lz)
                lab=Lab(*L)
                if lab.n>900: continue
                sel=faces_scheme2(L); d,v=check_faces(lab,sel)
                defi=(Lx==3 and Ly>=6 and Lz>=6) or (Ly==4 and Lx>=5 and Lz>=6) or (Lz==4 and Lx>=5 and Ly>=6)
                if v or (d!=0 and not defi) or (defi and d>=0):
                    print(L,'count diff',d,'viol',len(v),v[:3],'deficient',defi,flush=True)
    print('done')
