"""the octahedra that touch the hole and carry both axis-0 triangles (local minima of the sweep on the surface around the hole)"""
import sys
from lab import *
from d0 import pointing
def bad(Lx,Ly,Lz):
    lab=Lab(Lx,Ly,Lz); T=set(lab.tris); out=[]
    for x in range(2,2*Lx-2,2):
      for y in range(0,2*Ly,2):
        for z in range(0,2*Lz,2):
            if (x+y+z)%4!=0: continue
            lo=(0,x,y,z); up=(0,x,y,z+2)
            if lo in T and up in T:
                pts=pointing(T,x+1,y+1,z+1); v=0
                for t in pts: v^=lab.vec(t)
                if v: out.append((x+1,y+1,z+1))
    return out
for s in [(3,5,5),(3,4,8),(3,5,9),(4,4,8),(4,5,9),(5,6,9),(6,7,8),(4,5,4),(4,7,4),(4,8,4),(3,7,4),(3,5,4),(4,4,4),(3,4,4),(6,4,5),(3,7,5),(3,5,7)]:
    print(s,bad(*s))
