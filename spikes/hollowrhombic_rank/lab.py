"""helpers: the cubes / triangles of the live class with their key sets, GF(2) rank, greedy free-qubit peeling"""
import sys, itertools
from panqec.codes import HollowRhombicCode
def rank_int(rows):
    basis = {}; r = 0
    for v in rows:
        while v:
            h = v.bit_length()-1
            if h in basis: v ^= basis[h]
            else:
                basis[h] = v; r += 1; break
    return r
class Lab:
    def __init__(self, Lx, Ly, Lz):
        self.size=(Lx,Ly,Lz)
        c=HollowRhombicCode(Lx,Ly,Lz); self.c=c
        self.q=list(c.qubit_coordinates); self.qi={q:i for i,q in enumerate(self.q)}
        self.st=list(c.stabilizer_coordinates)
        self.cubes=[s for s in self.st if len(s)==3]
        self.tris=[s for s in self.st if len(s)==4]
        self.keys={s:list(c.get_stabilizer(s).keys()) for s in self.st}
        self.n=c.n
    def vec(self,s):
        v=0
        for k in self.keys[s]: v|=1<<self.qi[k]
        return v
    def rank(self,L): return rank_int([self.vec(s) for s in L])
def peel(lab, L):
    """greedy peel; returns (order, remaining)"""
    L=list(L); keys=lab.keys
    from collections import defaultdict
    cnt=defaultdict(set)
    for s in L:
        for k in keys[s]: cnt[k].add(s)
    alive=set(L); order=[]
    changed=True
    while changed:
        changed=False
        for s in list(alive):
            if s not in alive: continue
            for k in keys[s]:
                if len(cnt[k])==1:
                    order.append((s,k)); alive.discard(s)
                    for k2 in keys[s]: cnt[k2].discard(s)
                    changed=True; break
    return order, alive
if __name__=='__main__':
    Lx,Ly,Lz=map(int,sys.argv[1:4])
    lab=Lab(Lx,Ly,Lz)
    rc=lab.rank(lab.cubes); rt=lab.rank(lab.tris)
    print('n',lab.n,'cubes',len(lab.cubes),'rank',rc,'tris',len(lab.tris),'rank',rt,'sum',rc+rt)
    o,a=peel(lab,lab.cubes); print('cube peel remaining',len(a))
