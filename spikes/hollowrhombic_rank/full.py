"""explicit geometric scheme (no reference to the implementation) + check against implementation"""
import sys, itertools
from lab import *
from collections import defaultdict
RK={1:0,2:1,3:2,0:3}
def hole(L,x,y,z):
    Lx,Ly,Lz=L
    return 2<x<2*Lx-2 and 3<=y<2*Ly-4 and 3<=z<2*Lz-4
def sgn(a,x,y,z):
    sx=1 if a in (0,2) else -1
    sy=1 if a in (0,3) else -1
    sz=1 if ((a in (0,1))==((x+y+z)%4==0)) else -1
    return sx,sy,sz
def Pgeo(L,a,x,y,z):
    Lx,Ly,Lz=L
    if not (2<=x<=2*Lx-2 and 0<=y<=2*Ly-2 and 0<=z<=2*Lz-2): return False
    if x%2 or y%2 or z%2: return False
    sx,sy,sz=sgn(a,x,y,z)
    if hole(L,x,y,z) or hole(L,x+sx,y,z) or hole(L,x,y+sy,z) or hole(L,x,y,z+sz): return False
    if not (1<=y+sy<=2*Ly-3): return False
    return True
def faces_scheme(L):
    Lx,Ly,Lz=L
    P=lambda a,x,y,z:Pgeo(L,a,x,y,z)
    sel={}
    def mu(a,x,y,z): return (((x*(2*Ly+1)+y)*4+RK[a])*(2*Lz+1)+(z if a==0 else 0))
    for a in range(4):
      for x in range(2,2*Lx,2):
        for y in range(0,2*Ly,2):
          for z in range(0,2*Lz,2):
            if not P(a,x,y,z): continue
            s=(x+y+z)%4; pr=None
            if a==3: pr=[(x-1,y,z)]
            elif a==2: pr=[(x,y-1,z)]
            elif a==1:
                if not P(3,x,y,z): pr=[(x-1,y,z)]
                elif not P(2,x,y,z): pr=[(x,y-1,z)]
            else:
                if x==2*Lx-2: pr=[(x+1,y,z)]
                elif s==2 and z>=2: pr=[(x,y,z-1)]
                elif s==0 and z<2*Lz-2 and not P(0,x,y,z+2): pr=[(x,y,z+1)]
                elif s==0 and (x,y)==(2,2) and 8<=z<=2*Lz-6 and Lx>=4 and Ly>=4: pr=[(3,2,z),(4,2,z-1),(3,2,z-2)]
                elif s==0 and (x,y)==(2,2) and 8<=z<=2*Lz-6 and Lx==3 and Ly>=5: pr=[(2,3,z),(2,4,z-1),(2,3,z-2)]
            if pr is not None: sel[(a,x,y,z)]=(pr,mu(a,x,y,z))
    return sel
def isq(L,q):
    Lx,Ly,Lz=L; x,y,z=q
    if hole(L,x,y,z): return False
    if x%2==1 and y%2==0 and z%2==0: return 1<=x<=2*Lx-1 and 0<=y<=2*Ly-2 and 0<=z<=2*Lz-2
    if x%2==0 and y%2==1 and z%2==0: return 2<=x<=2*Lx-2 and 1<=y<=2*Ly-3 and 0<=z<=2*Lz-2
    if x%2==0 and y%2==0 and z%2==1: return 2<=x<=2*Lx-2 and 0<=y<=2*Ly-2 and 1<=z<=2*Lz-3
    return False
def cubes_scheme(L, lab):
    """probe/rank for every cube of the implementation"""
    Lx,Ly,Lz=L
    out={}
    for (x,y,z) in lab.cubes:
        if z==2*Lz-3:
            cands=[(x,y-1,z+1),(x,y+1,z+1),(x-1,y,z+1),(x+1,y,z+1)]; r=0
        else:
            cands=[(x,y-1,z-1),(x,y+1,z-1),(x-1,y,z-1),(x+1,y,z-1),(x,y-1,z+1),(x,y+1,z+1),(x-1,y,z+1),(x+1,y,z+1)]; r=z
        pr=[c for c in cands if isq(L,c)]
        out[(x,y,z)]=(pr[0] if pr else None, r)
    return out
def check_cubes(lab,sc):
    viol=[]
    byq=defaultdict(list)
    for c in lab.cubes:
        for k in lab.keys[c]: byq[k].append(c)
    for c,(p,r) in sc.items():
        if p is None or p not in lab.keys[c]: viol.append(('diag',c,p)); continue
        for t in byq[p]:
            if t!=c and sc[t][1]>=r: viol.append(('later',c,t,p))
    return viol
def check_faces(lab, sel):
    need=lab.n-1-len(lab.cubes)
    qs=set(lab.q); viol=[]
    T=set(lab.tris)
    for t in sel:
        if t not in T: viol.append(('notstab',t))
    byq=defaultdict(list)
    for t in sel:
        if t in T:
            for k in lab.keys[t]: byq[k].append(t)
    for s,(pr,m) in sel.items():
        if s not in T: continue
        if any(p not in qs for p in pr): viol.append(('notqubit',s,pr)); continue
        ks=set(lab.keys[s])
        if sum(p in ks for p in pr)%2!=1: viol.append(('diag',s,pr)); continue
        cand=set()
        for p in pr: cand.update(byq[p])
        for t in cand:
            if t!=s and sel[t][1]>=m:
                kt=set(lab.keys[t])
                if sum(p in kt for p in pr)%2==1: viol.append(('later',s,t))
    return len(sel)-need, viol
def covered(L):
    Lx,Ly,Lz=L
    fam = Lx>=2 and Ly>=2 and Lz>=3
    defi=(Lx==3 and Ly>=6 and Lz>=6) or (Ly==4 and Lx>=5 and Lz>=6) or (Lz==4 and Lx>=5 and Ly>=6)
    gap = Lz==4 and Lx>=4 and Ly>=5
    return fam and not defi and not gap
if __name__=='__main__':
    bad=0
    rng=[(Lx,Ly,Lz) for Lx in range(2,8) for Ly in range(2,10) for Lz in range(3,11)]
    for L in rng:
        lab=Lab(*L)
        if lab.n>800: continue
        # presence check
        T=set(lab.tris)
        G=set((a,x,y,z) for a in range(4) for x in range(2,2*L[0],2) for y in range(0,2*L[1],2) for z in range(0,2*L[2],2) if Pgeo(L,a,x,y,z))
        pres_ok = (T==G)
        qok = all(isq(L,q) for q in lab.q) and sum(1 for x in range(0,2*L[0]+2) for y in range(-1,2*L[1]+1) for z in range(-1,2*L[2]+1) if isq(L,(x,y,z)))==lab.n
        sel=faces_scheme(L); d,v=check_faces(lab,sel)
        sc=cubes_scheme(L,lab); vc=check_cubes(lab,sc)
        ok = pres_ok and qok and d==0 and not v and not vc
        exp = covered(L)
        flag = '' if (ok==exp or (ok and not exp)) else 'UNEXPECTED'
        if not pres_ok or not qok or vc or flag or (ok and not exp):
            print(L,'pres',pres_ok,'q',qok,'faces',d,len(v),'cubes',len(vc),vc[:2],flag,'cov',exp,flush=True)
    print('done')
