"""drop one triangle per complete tetrahedron / octahedron relation: the rest has exactly one relation (the surface around
the hole); removing any one triangle of that surface makes the rest collapsible"""
import sys
from lab import *
def tab(x,y,z):
    if (x+y+z)%4==0: return [(1,1,1),(-1,-1,1),(1,-1,-1),(-1,1,-1)]
    return [(1,1,-1),(-1,-1,-1),(1,-1,1),(-1,1,1)]
def pointing(T,cx,cy,cz):
    pts=[]
    for dx in (-1,1):
        for dy in (-1,1):
            for dz in (-1,1):
                v=(cx+dx,cy+dy,cz+dz)
                tb=tab(*v)
                for a in range(4):
                    if tb[a]==(-dx,-dy,-dz) and (a,)+v in T: pts.append((a,)+v)
    return pts
def D0(lab):
    Lx,Ly,Lz=lab.size
    T=set(lab.tris); D=set(); info={}
    for x in range(2,2*Lx,2):
        for y in range(0,2*Ly,2):
            for z in range(0,2*Lz,2):
                if all((a,x,y,z) in T for a in range(4)):
                    D.add((1,x,y,z)); info[(1,x,y,z)]='tetra'
    for cx in range(1,2*Lx,2):
        for cy in range(-1,2*Ly,2):
            for cz in range(-1,2*Lz,2):
                if (cx+cy+cz)%4!=3: continue
                pts=pointing(T,cx,cy,cz)
                if not pts: continue
                v=0
                for t in pts: v^=lab.vec(t)
                if v==0:
                    # lowest corner a0: (cx-1,cy-1,cz-1) if exists else (cx-1,cy-1,cz+1)
                    c=[t for t in pts if t[0]==0]
                    c.sort(key=lambda t:t[3])
                    if not c: print('octa without a0',(cx,cy,cz),pts); continue
                    D.add(c[0]); info[c[0]]=('octa',(cx,cy,cz),len(pts))
    return D,info
if __name__=='__main__':
    Lx,Ly,Lz=map(int,sys.argv[1:4])
    lab=Lab(Lx,Ly,Lz)
    D,info=D0(lab)
    T=lab.tris
    rest=[t for t in T if t not in D]
    need=lab.n-1-len(lab.cubes)
    print('tris',len(T),'D0',len(D),'rest',len(rest),'need',need,'rank rest',lab.rank(rest))
    o,alive=peel(lab,rest)
    print('peel: remaining',len(alive))
    print(sorted(alive))
    good=[]
    for g in sorted(alive):
        o2,al2=peel(lab,[t for t in rest if t!=g])
        if not al2: good.append(g)
    print('global drops giving full collapse:',len(good),'of',len(alive))
    print(good)
