"""greedy construction of a triangular family from a rank function (the RhombicPlanarCode order (x, y, axis)): shows where
the lexicographic sweep loses members (pairs of axis-0 triangles pointing into an octahedron that touches the hole)"""
import sys
from lab import *
from collections import defaultdict
def greedy(lab, rankf, legpref=None):
    """process faces in decreasing rank (ties: treated simultaneously & conservatively).
    returns selected dict face->probe, dropped list"""
    T=lab.tris
    byq=defaultdict(list)
    for t in T:
        for k in lab.keys[t]: byq[k].append(t)
    r={t:rankf(t) for t in T}
    groups=defaultdict(list)
    for t in T: groups[r[t]].append(t)
    sel={}; dropped=[]
    for rv in sorted(groups, reverse=True):
        G=groups[rv]
        # within tie group process sequentially (deterministic order), ties must avoid each other
        for t in sorted(G):
            ks=lab.keys[t]
            if legpref: ks=sorted(ks,key=lambda k:legpref(t,k))
            ok=None
            for k in ks:
                if all((u==t) or (u not in sel) for u in byq[k] if r[u]>=rv) :
                    # also ensure t doesn't hit probe of tie-mates already selected
                    ok=k;break
            if ok is not None and all(sel[u] not in lab.keys[t] for u in G if u in sel):
                sel[t]=ok
            else: dropped.append(t)
    return sel,dropped
def rk_rp(a): return {1:0,2:1,3:2,0:3}[a]
def rp_rank(t):
    a,x,y,z=t
    return (x,y,rk_rp(a))
if __name__=='__main__':
    Lx,Ly,Lz=map(int,sys.argv[1:4])
    lab=Lab(Lx,Ly,Lz)
    sel,dr=greedy(lab,rp_rank)
    need=lab.rank(lab.tris)
    print('selected',len(sel),'need',need,'rank of sel',lab.rank(list(sel)))
