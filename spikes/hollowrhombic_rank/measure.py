"""GF(2) rank of HollowRhombicCode.stabilizer_matrix against n - k for every size with Lx <= 7, Ly, Lz <= 9, n <= 900
(output: measure.out; lines marked DEF are the deficient sizes = the predicate Deficient).  Run: PYTHONPATH=/repo /venv/bin/python measure.py"""
import sys, itertools, json
import numpy as np
from panqec.codes import HollowRhombicCode
def gf2rank_rows(rows):
    # rows: list of python ints
    basis = {}
    r = 0
    for v in rows:
        while v:
            h = v.bit_length()-1
            if h in basis:
                v ^= basis[h]
            else:
                basis[h] = v; r += 1; break
    return r
def rows_of(H):
    H = H.tocsr()
    out=[]
    for i in range(H.shape[0]):
        v=0
        for j in H.indices[H.indptr[i]:H.indptr[i+1]]:
            v |= 1<<int(j)
        out.append(v)
    return out
res={}
for Lx in range(2,8):
    for Ly in range(2,10):
        for Lz in range(3,10):
            c=HollowRhombicCode(Lx,Ly,Lz)
            n=c.n
            if n>900: continue
            H=c.stabilizer_matrix
            r=gf2rank_rows(rows_of(H))
            ns=H.shape[0]
            cubes=sum(1 for s in c.stabilizer_coordinates if len(s)==3)
            res[(Lx,Ly,Lz)]=(n,c.k,r,ns,cubes)
            d=n-c.k-r
            print(Lx,Ly,Lz,n,c.k,r,ns,cubes,'DEF' if d else '',d, flush=True)
