#!/usr/bin/env python3
"""Assemble /verif/DESIGN.md = design-phase text (DESIGN_base.md, with a corrected head) +
per-property "As built" notes (Cxx.md) + as-built global sections (asbuilt_*.md)."""
import os, re
here = os.path.dirname(os.path.abspath(__file__))
base = open(os.path.join(here, 'DESIGN_base.md')).read()
head_tmp = os.path.join(here, 'head.md')
i5 = base.index('## 5. Per-property designs')
head = open(head_tmp).read() if os.path.exists(head_tmp) else base[:i5]
rest = base[i5:]
# insert as-built notes at the end of each property's subsection
parts = re.split(r'(?m)^(?=### C\d\d )', rest)
out = [parts[0]]
for p in parts[1:]:
    pid = p[4:7]
    note = os.path.join(here, f'{pid}.md')
    # the last property section runs into "---- ## 6": split there
    m = re.search(r'(?m)^-{20,}\n\n## 6\.', p)
    tail = ''
    if m:
        p, tail = p[:m.start()], p[m.start():]
    if os.path.exists(note):
        p = p.rstrip('\n') + '\n\n' + open(note).read().rstrip('\n') + '\n\n'
    out.append(p + tail)
doc = head + ''.join(out)
for extra in ('asbuilt_defects.md', 'asbuilt_seeded.md', 'asbuilt_coverage.md', 'asbuilt_levels.md'):
    f = os.path.join(here, extra)
    if os.path.exists(f):
        doc = doc.rstrip('\n') + '\n\n' + open(f).read()
open(os.path.join(os.path.dirname(here), 'DESIGN.md'), 'w').write(doc)
print('DESIGN.md', len(doc))
