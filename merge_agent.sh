#!/bin/bash
# merge an agent branch; generated glue files are regenerated; known_findings.json entries are unioned
cd /verif
if ! git diff --quiet || ! git diff --cached --quiet; then
  if git diff --name-only --diff-filter=U | grep -q .; then :; else git add -A; git commit -qm "wip before merging $1"; fi
fi
git merge "$1" -m "merge $1" > /tmp/merge_out.txt 2>&1; tail -2 /tmp/merge_out.txt
for f in lean/PanqecVerif.lean lean/Driver/Main.lean; do
  if git diff --name-only --diff-filter=U | grep -q "^$f$"; then git checkout --ours "$f"; git add "$f"; fi
done
for f in $(git diff --name-only --diff-filter=U | grep -E "^(evidence/.*\.json|MANIFEST\.json|DESIGN\.md|fingerprints\.json)$"); do
  git checkout --ours "$f"; git add "$f"
done
if git diff --name-only --diff-filter=U | grep -q "^known_findings.json$"; then
  git checkout --ours known_findings.json; git add known_findings.json
fi
git show "$1":known_findings.json > /tmp/kf_theirs.json 2>/dev/null && python3 - <<'PY'
import json
ours=json.load(open('/verif/known_findings.json')); theirs=json.load(open('/tmp/kf_theirs.json'))
have={(e['property'],e['what']) for e in ours['findings']}
havefix={(e['property'],e.get('commit')) for e in ours['findings'] if e['kind']=='fixed'}
for e in (theirs['findings'] if False else []):  # union disabled (it resurrected entries flipped to 'fixed'); add by hand
    if (e['property'],e['what']) in have: continue
    if e['kind']=='fixed' and (e['property'],e.get('commit')) in havefix: continue
    ours['findings'].append(e); print('  + finding entry:', e['kind'], e['property'], e['what'][:90])
json.dump(ours,open('/verif/known_findings.json','w'),indent=1)
PY
if git diff --name-only --diff-filter=U | grep -q .; then echo "REMAINING CONFLICTS:"; git diff --name-only --diff-filter=U; exit 1; fi
python3 gen_root.py
python3 gen_manifest.py >/dev/null
[ -f design_notes/assemble.py ] && python3 design_notes/assemble.py >/dev/null
git add -A && git commit -qm "merge $1 (glue regenerated)" && echo merged
