#!/bin/bash
# merge an agent branch, regenerating the generated glue files on conflict
cd /verif
git merge "$1" -m "merge $1" 2>&1 | tail -2
for f in lean/PanqecVerif.lean lean/Driver/Main.lean; do
  if git diff --name-only --diff-filter=U | grep -q "^$f$"; then git checkout --ours "$f"; fi
done
if git diff --name-only --diff-filter=U | grep -q .; then echo "REMAINING CONFLICTS:"; git diff --name-only --diff-filter=U; fi
python3 gen_root.py
git add -A && git commit -qm "merge $1 (glue regenerated)" && echo merged
