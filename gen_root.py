#!/usr/bin/env python3
"""Regenerate lean/PanqecVerif.lean (root import list) from the files present."""
import os
root = os.path.join(os.path.dirname(os.path.abspath(__file__)), 'lean')
mods = []
for d, _, fs in os.walk(os.path.join(root, 'PanqecVerif')):
    for f in fs:
        if f.endswith('.lean'):
            rel = os.path.relpath(os.path.join(d, f), root)[:-5].replace(os.sep, '.')
            mods.append(rel)
mods.sort()
open(os.path.join(root, 'PanqecVerif.lean'), 'w').write(''.join(f'import {m}\n' for m in mods))
print(len(mods), 'modules')

# Driver/Main.lean: handler chain from Driver/Ops<Name>.lean (each defines Drv.handle<Name>)
ops = sorted(f[3:-5] for f in os.listdir(os.path.join(root, 'Driver')) if f.startswith('Ops') and f.endswith('.lean'))
main = os.path.join(root, 'Driver', 'Main.lean')
src = open(main).read()
import re
body = src[src.index('open Panqec'):]
body = re.sub(r'def handlers : List \(List String → Option String\) :=\n  \[[^\]]*\]',
              'def handlers : List (List String → Option String) :=\n  [' + ', '.join(f'Drv.handle{o}' for o in ops) + ']', body)
head = 'import Std.Data.HashMap\nimport Driver.Common\n' + ''.join(f'import Driver.Ops{o}\n' for o in ops)
open(main, 'w').write(head + body)
print('handlers:', ops)
