"""Shared machinery of the /verif checks.

A check = regenerate source-derived Lean tables -> lake build -> axiom audit ->
correspondence (implementation vs Lean model driver) -> property oracle on the
implementation -> decision, evidence, replay files.  See DESIGN.md section 0.
"""
from __future__ import annotations

import hashlib
import json
import os
import random
import re
import subprocess
import sys
import time
from dataclasses import dataclass, field
from pathlib import Path
from typing import Any, Callable, Dict, List, Optional, Tuple

VERIF = Path(__file__).resolve().parent.parent
LEAN_DIR = VERIF / 'lean'
DRIVER = LEAN_DIR / '.lake' / 'build' / 'bin' / 'panqec_model'
EVIDENCE_DIR = VERIF / 'evidence'
REPLAY_DIR = VERIF / 'replays'
CORPUS_DIR = VERIF / 'corpus'
KNOWN_FINDINGS = VERIF / 'known_findings.json'
REPO = Path(os.environ.get('PANQEC_REPO', '/repo'))

ALLOWED_AXIOMS = {'propext', 'Classical.choice', 'Quot.sound'}
FORBIDDEN_RE = re.compile(
    r'\bsorry\b|\badmit\b|^axiom\s|native_decide|bv_decide|implemented_by|'
    r'\bunsafe\s|maxHeartbeats\s+0\b', re.M)

GLOBAL_TRUSTED_BASE = [
    'Lean 4.33.0 kernel; axioms allowed: propext, Classical.choice, Quot.sound '
    '(audited by #print axioms on every property theorem on every run)',
    'no sorry/admit/native_decide/bv_decide/own axioms (grep audited on every run)',
    'Mathlib v4.33.0 modules imported by PanqecVerif/Proofs and Properties',
    'hand-written Lean model tied to /repo by the correspondence harness '
    '(differential run of model driver and implementation on generated inputs) '
    'and by tables regenerated from the source on every run',
    'CPython 3.12 / numpy / scipy semantics of the glue the model abstracts',
]


class ToolFailure(Exception):
    """Infrastructure failure (exit 2, never a VIOLATION)."""


def run(cmd, cwd=None, timeout=None, env=None, input=None):
    e = dict(os.environ)
    if env:
        e.update(env)
    p = subprocess.run(cmd, cwd=cwd, timeout=timeout, env=e, input=input,
                       capture_output=True, text=True)
    return p.returncode, p.stdout, p.stderr


# ---------------------------------------------------------------- Lean side

def lake_build(targets: List[str], timeout=3000) -> Tuple[bool, str]:
    cmd = ['lake', 'build'] + targets
    try:
        rc, out, err = run(cmd, cwd=LEAN_DIR, timeout=timeout)
    except subprocess.TimeoutExpired:
        raise ToolFailure(f'lake build timed out: {targets}')
    return rc == 0, out + err


def theorem_names(lean_file: Path) -> List[str]:
    """Names of theorems declared in a Properties file (with namespace)."""
    names = []
    ns: List[str] = []
    src = lean_file.read_text()
    src = strip_comments(src)
    for line in src.splitlines():
        m = re.match(r'\s*namespace\s+(\S+)', line)
        if m:
            ns.append(m.group(1))
            continue
        m = re.match(r'\s*end\s+(\S+)', line)
        if m and ns and ns[-1] == m.group(1):
            ns.pop()
            continue
        m = re.match(r'\s*(?:@\[[^\]]*\]\s*)?(?:private\s+|protected\s+)?theorem\s+(\S+)', line)
        if m:
            names.append('.'.join(ns + [m.group(1)]))
    return names


def strip_comments(src: str) -> str:
    # remove block comments (nested) and line comments
    out = []
    i = 0
    depth = 0
    n = len(src)
    while i < n:
        if src.startswith('/-', i):
            depth += 1
            i += 2
        elif depth and src.startswith('-/', i):
            depth -= 1
            i += 2
        elif depth:
            if src[i] == '\n':
                out.append('\n')
            i += 1
        elif src.startswith('--', i):
            while i < n and src[i] != '\n':
                i += 1
        else:
            out.append(src[i])
            i += 1
    return ''.join(out)


def grep_forbidden(files: List[Path]) -> List[str]:
    hits = []
    for f in files:
        src = strip_comments(f.read_text())
        for m in FORBIDDEN_RE.finditer(src):
            line = src.count('\n', 0, m.start()) + 1
            hits.append(f'{f.relative_to(VERIF)}:{line}: {m.group(0).strip()}')
    return hits


def lean_sources_of(modules: List[str]) -> List[Path]:
    """Transitive project-local sources imported by the given modules."""
    seen: Dict[str, Path] = {}
    todo = list(modules)
    while todo:
        m = todo.pop()
        if m in seen:
            continue
        p = LEAN_DIR / (m.replace('.', '/') + '.lean')
        if not p.exists():
            continue
        seen[m] = p
        for line in p.read_text().splitlines():
            mm = re.match(r'\s*import\s+(\S+)', line)
            if mm and mm.group(1).startswith(('PanqecVerif', 'Driver')):
                todo.append(mm.group(1))
    return sorted(seen.values())


def audit_axioms(prop_module, names: List[str], timeout=1200) -> Dict[str, Any]:
    """#print axioms for each theorem; returns {name: [axioms]} or raises."""
    if not names:
        return {}
    mods = [prop_module] if isinstance(prop_module, str) else list(prop_module)
    tmp = LEAN_DIR / '.lake' / f'audit_{mods[0].split(".")[-1]}_{os.getpid()}.lean'
    tmp.parent.mkdir(exist_ok=True)
    body = ''.join(f'import {m}\n' for m in mods) + ''.join(f'#print axioms {n}\n' for n in names)
    tmp.write_text(body)
    try:
        rc, out, err = run(['lake', 'env', 'lean', str(tmp)], cwd=LEAN_DIR, timeout=timeout)
    finally:
        try:
            tmp.unlink()
        except OSError:
            pass
    text = out + err
    res: Dict[str, Any] = {}
    # messages look like: 'Foo.bar' depends on axioms: [propext, Quot.sound]
    for m in re.finditer(r"'(\S+)' depends on axioms: \[([^\]]*)\]", text, re.S):
        res[m.group(1)] = [a.strip() for a in m.group(2).replace('\n', ' ').split(',') if a.strip()]
    for m in re.finditer(r"'(\S+)' does not depend on any axioms", text):
        res[m.group(1)] = []
    res['_raw_rc'] = rc
    res['_raw'] = text if rc != 0 else ''
    return res


_driver_ready = False


def ensure_driver() -> None:
    global _driver_ready
    if _driver_ready:
        return
    ok, log = lake_build(['panqec_model'])
    if not ok or not DRIVER.exists():
        raise ToolFailure('cannot build model driver:\n' + log[-3000:])
    _driver_ready = True


def driver(lines: List[str], timeout=1800) -> List[str]:
    """Run the Lean model driver on the given op lines."""
    ensure_driver()
    if not lines:
        return []
    for ln in lines:
        if '\n' in ln:
            raise ValueError('newline in driver op')
    try:
        rc, out, err = run([str(DRIVER)], input='\n'.join(lines) + '\n', timeout=timeout)
    except subprocess.TimeoutExpired:
        raise ToolFailure('model driver timed out')
    if rc != 0:
        raise ToolFailure(f'model driver crashed rc={rc}: {err[-2000:]}')
    res = out.split('\n')
    if res and res[-1] == '':
        res.pop()
    if len(res) != len(lines):
        raise ToolFailure(f'driver returned {len(res)} lines for {len(lines)} ops')
    return res


# ---------------------------------------------------------- correspondence

@dataclass
class Stream:
    """One correspondence stream: (op line for the model, implementation's canonical
    answer, free-form description of the input for the replay)."""
    name: str
    ops: List[str] = field(default_factory=list)
    impl: List[str] = field(default_factory=list)
    inputs: List[Any] = field(default_factory=list)
    nontrivial: List[bool] = field(default_factory=list)
    hist: Dict[str, int] = field(default_factory=dict)
    mismatches: List[Dict[str, Any]] = field(default_factory=list)
    post: Optional[Callable[[str, str], str]] = None   # canonicalise (op, model output) before comparing

    def add(self, op: str, impl_answer: str, inp: Any = None, nontrivial: bool = True,
            tag: Optional[str] = None):
        self.ops.append(op)
        self.impl.append(impl_answer)
        self.inputs.append(inp if inp is not None else op)
        self.nontrivial.append(nontrivial)
        if tag:
            self.hist[tag] = self.hist.get(tag, 0) + 1

    def run(self):
        outs = driver(self.ops)
        for op, a, b, inp in zip(self.ops, self.impl, outs, self.inputs):
            if self.post is not None:
                b = self.post(op, b)
            if a != b:
                self.mismatches.append(
                    {'stream': self.name, 'op': op if len(op) < 2000 else op[:2000] + '...',
                     'implementation': a[:2000], 'model': b[:2000], 'input': inp})
        return self

    @property
    def n(self):
        return len(self.ops)

    def distinct_nontrivial(self):
        return len({op for op, nt in zip(self.ops, self.nontrivial) if nt})


# ------------------------------------------------------------------ context

@dataclass
class Ctx:
    prop: str
    tier: str
    seed: int
    rng: random.Random
    t0: float
    notes: List[str] = field(default_factory=list)
    escalate: bool = False
    changed_files: List[str] = field(default_factory=list)

    @property
    def thorough(self):
        return self.tier == 'thorough' or self.escalate

    def np_rng(self, salt=0):
        import numpy as np
        return np.random.default_rng(self.seed * 1000003 + salt)


def load_known_findings() -> List[Dict[str, Any]]:
    if KNOWN_FINDINGS.exists():
        return json.loads(KNOWN_FINDINGS.read_text())['findings']
    return []


def canonical(obj) -> str:
    return json.dumps(obj, sort_keys=True, separators=(',', ':'), default=str)


def finding_matches(entry: Dict[str, Any], prop: str, failure: Dict[str, Any]) -> bool:
    """A failure is a known finding iff the entry is of kind 'finding', same property,
    and every key of entry['match'] has the same value in failure['match']."""
    if entry.get('kind') != 'finding' or entry.get('property') != prop:
        return False
    fm = failure.get('match', {})
    for k, v in entry.get('match', {}).items():
        if k not in fm:
            return False
        if canonical(fm[k]) != canonical(v):
            return False
    return True


def write_replay(prop: str, payload: Dict[str, Any]) -> Path:
    REPLAY_DIR.mkdir(exist_ok=True)
    h = hashlib.sha256(canonical(payload).encode()).hexdigest()[:8]
    p = REPLAY_DIR / f'{prop}-{h}.json'
    payload = dict(payload)
    payload.setdefault('property', prop)
    payload['how_to_run'] = f'./check {prop} --replay {p.relative_to(VERIF)}'
    p.write_text(json.dumps(payload, indent=1, sort_keys=True, default=str))
    return p


def write_evidence(prop: str, ev: Dict[str, Any]) -> None:
    EVIDENCE_DIR.mkdir(exist_ok=True)
    (EVIDENCE_DIR / f'{prop}.json').write_text(json.dumps(ev, indent=1, sort_keys=True, default=str))


def source_fingerprint(files: List[str]) -> str:
    h = hashlib.sha256()
    for f in sorted(files):
        p = REPO / f
        h.update(f.encode())
        if p.exists():
            h.update(p.read_bytes())
    return h.hexdigest()[:16]


FINGERPRINTS = VERIF / 'fingerprints.json'


def property_anchor_files(prop: str) -> List[str]:
    files: List[str] = []
    for line in (VERIF / 'properties.jsonl').read_text().splitlines():
        d = json.loads(line)
        if d['id'] == prop:
            files = [f for f in d['anchors']['files'] if f.endswith(('.py', '.json', '.js'))]
    extra = {'C05': ['panqec/decoders/belief_propagation/mbp_decoder.py', 'panqec/decoders/xcube/_xcube_matching_decoder.py'],
             'C06': ['panqec/decoders/sweepmatch/_sweep_decoder_3d.py', 'panqec/decoders/sweepmatch/_rotated_sweep_decoder.py',
                     'panqec/decoders/sweepmatch/_sweep_match_decoder.py',
                     'panqec/decoders/sweepmatch/_rotated_sweep_match_decoder.py',
                     'panqec/decoders/belief_propagation/mbp_decoder.py'],
             'C14': ['panqec/simulation/_batch_simulation.py', 'panqec/simulation/_base_simulation.py',
                     'panqec/simulation/_direct_simulation.py', 'panqec/utils.py'],
             'C18': ['panqec/error_models/_pauli_error_model.py'],
             'C17': ['panqec/simulation/_base_simulation.py', 'panqec/simulation/_batch_simulation.py',
                     'panqec/analysis.py'],
             'C20': ['panqec/decoders/base/_base_decoder.py'] + sorted(
                 str(f.relative_to(REPO)) for f in (REPO / 'panqec' / 'codes').glob('*/_*_code.py'))}
    # the lattice definitions of every class are what C01 / C02 / C17 speak about
    for pid in ('C01', 'C02', 'C17'):
        extra[pid] = extra.get(pid, []) + sorted(
            str(f.relative_to(REPO)) for f in (REPO / 'panqec' / 'codes').glob('*/_*_code.py'))
    return sorted(set(files + extra.get(prop, [])))


def property_fingerprint(prop: str) -> str:
    return source_fingerprint(property_anchor_files(prop))


def recorded_fingerprints() -> Dict[str, Any]:
    if FINGERPRINTS.exists():
        return json.loads(FINGERPRINTS.read_text())
    return {}


def repo_file_hashes() -> Dict[str, str]:
    """sha256 (16 hex) of every source / data file under panqec/ of the checkout being checked"""
    out = {}
    root = REPO / 'panqec'
    for p in sorted(root.rglob('*')):
        if p.is_file() and p.suffix in ('.py', '.json', '.js') and '__pycache__' not in p.parts:
            out[str(p.relative_to(REPO))] = hashlib.sha256(p.read_bytes()).hexdigest()[:16]
    return out


def changed_files() -> List[str]:
    """files under panqec/ that differ from (or are absent from / new relative to) the state recorded in
    fingerprints.json at the last green run -- lets a deep search spend its budget where the source changed"""
    rec = recorded_fingerprints().get('_files')
    if not rec:
        return []
    now = repo_file_hashes()
    return sorted(f for f in set(rec) | set(now) if rec.get(f) != now.get(f))
