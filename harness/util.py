"""Small helpers shared by the property modules."""
from __future__ import annotations

import json
import re
from typing import Any, Callable, Dict, List


def vec(v) -> str:
    v = [int(x) for x in v]
    if not v:
        return '-'
    if all(0 <= x < 10 for x in v):
        return ''.join(map(str, v))
    return 'v:' + ','.join(map(str, v))


def stack(m) -> str:
    m = list(m)
    if not m:
        return '_'
    return '|'.join(vec(r) for r in m)


def coord(c) -> str:
    return ','.join(str(int(x)) for x in c)


def guarded(fn: Callable[[], str], excmap: Dict[str, Any] | None = None) -> str:
    try:
        return fn()
    except Exception as e:  # noqa: BLE001
        name = type(e).__name__
        if excmap and name in excmap:
            m = excmap[name]
            return m(e) if callable(m) else m
        return f'EXC:{name}'


_HARNESS_BUG = re.compile(r"raised NameError: name '\w+' is not defined")


def first_failures(cases: List[Any], check: Callable[[Any], Any], key: Callable[[Any], Any],
                   limit_per_key: int = 1) -> List[Dict[str, Any]]:
    """Evaluate the property oracle on every case; keep, per distinct key, the smallest
    failing case (size = length of its JSON)."""
    best: Dict[str, Dict[str, Any]] = {}
    for c in cases:
        msg = check(c)
        if msg is None:
            continue
        if isinstance(msg, str) and _HARNESS_BUG.search(msg):
            # an undefined NAME is a defect of whoever wrote the code that raised; panqec's own modules are
            # import-checked by its test-suite, the oracle code of this harness is not: never report it as a
            # failing input of the property
            from harness.core import ToolFailure
            raise ToolFailure(f'the oracle itself raised ({msg[:200]}) on {json.dumps(c, default=str)[:200]}')
        k = json.dumps(key(c), sort_keys=True, default=str)
        size = len(json.dumps(c, default=str))
        if k not in best or size < best[k]['_size']:
            best[k] = {'input': c, 'observed': msg, 'match': key(c), '_size': size}
    out = []
    for k in sorted(best, key=lambda kk: best[kk]['_size']):
        f = best[k]
        f.pop('_size')
        out.append(f)
    return out
