"""C10 - sweep decoders track the true residual syndrome."""
from __future__ import annotations

import functools
import itertools

import numpy as np

from harness.core import Stream
from harness.util import vec, guarded, first_failures

ID = 'C10'
LEVEL = 'proof'
LEVEL_TEXT = ('Lean theorems, for every lattice given as data (face supports as a table), every error, every '
              'tie-break stream, every loop bound and every step of every run of both sweep automata '
              '(SweepDecoder3D, RotatedSweepDecoder3D, all eight sweep directions): if the flip table agrees '
              'with the face stabilizers on every edge (decidable hypothesis flipTableOK / flipTableOKRot) the '
              'tracked signs equal the face syndrome of error + correction so far, the run never raises, the '
              'correction is Z-only, and a stop without excitations leaves zero face syndrome. Face rows are the '
              'rows the decoder does not blank in get_initial_state: rows outside z_indices for SweepDecoder3D, rows '
              'of stabilizer_type face for RotatedSweepDecoder3D (TracksRot keeps the X part of the error, because '
              'on the defect lines of an odd-sized RotatedToric3DCode a face generator carries Z letters). The '
              'hypotheses are proved for Toric3DCode of every size L_i >= 2, Planar3DCode of every size, '
              'RotatedPlanar3DCode of every size and RotatedToric3DCode of every size L_x, L_y >= 2, any L_z, both '
              'parities (rotated_toric3D_flip_table_ok, _stabilizers_distinct, _sweep_edges_ok: coordinate argument '
              'over the (x+y)%4 sub-lattices with the periodic seam as cyclic successor / predecessor and the '
              'has_defect letter rule as a parity rule; odd x odd sizes, which the class does not support, are '
              'covered too; a side of length 1 is a proved negative instance), so C10 holds on all four families of '
              'allowed_codes unconditionally (toric3D_/planar3D_/rotated_planar3D_/rotated_toric3D_sweep_tracks, '
              '_stop_clean). The rotated automaton is modelled as repaired (_wrap in get_sweep_faces, '
              'get_sweep_edges and flip_edge, the code-id test as a flag of the lattice; initial state blanked by '
              'type); regression theorems about the decoder BEFORE the repair (old... definitions): its flip table '
              'on RotatedToric3DCode 2x2x2 is inconsistent on 8 of 10 edges (former finding D10) and its initial '
              'state blanks a face row on the defect line of 2x3x2. Ten RotatedPlanar3DCode and seven '
              'RotatedToric3DCode sizes are additionally kernel-evaluated as an independent cross-check, and the '
              'compiled model evaluates the hypotheses on every size the harness runs. The model is tied to the '
              'decoders by differential runs of flip_edge on every edge, of _wrap / get_sweep_faces / '
              'get_sweep_edges at every vertex in all eight directions, of every sweep_move of traced decodes, and '
              'of full decode results.')
LEVEL_NOTE = ('trusted: Lean kernel + standard axioms; correspondence harness; hand-written Lean transcription of '
              'the two automata and of the four 3-D lattices (compared with the implementation on every run: '
              'coordinates, stabilizer supports, types, z_indices, even x even and odd x even RotatedToric3DCode '
              'sizes; the RotatedToric3DCode record is moreover proved equal, for every size, to the hand-written '
              'lattice model of C01 / C17: rotated_toric3D_lattice_is_the_C01_model); signs are modelled as 0/1 values; the numpy generator behind get_default_direction is an '
              'input stream; `code.id == RotatedToric3DCode` is the Boolean field rotSeam of the lattice record. '
              'The seam repair of RotatedSweepDecoder3D is pending as a commit of the library (known_findings: '
              'fixed ff6f655); the former finding D10 is kept as a regression corpus of the oracle that must pass.')
TECHNIQUE = ('Lean 4 proof (induction over automaton steps from a one-step toggle lemma; coordinate arithmetic '
             'with omega for the all-sizes geometry) + differential correspondence with the compiled model driver')
TRUSTED = ['numpy Generator.choice behind get_default_direction is modelled as an arbitrary stream of values in '
           '{0,1,2} (stub RNG in the harness)',
           'sign arrays hold 0/1 values (numpy uint8 syndromes); modelled as booleans']
ASSUMPTIONS = ['stabilizer and qubit coordinates of a lattice are pairwise distinct (checked on every compared '
               'lattice; hypothesis `Nodup` of the theorems)',
               'sizes inside the supported families of DESIGN section 4']
PROPERTY_MODULES = ['PanqecVerif.Properties.C10', 'PanqecVerif.Properties.C10RotatedToric3DModel']
ANCHOR_FILES = ['panqec/decoders/sweepmatch/_sweep_decoder_3d.py',
                'panqec/decoders/sweepmatch/_rotated_sweep_decoder.py',
                'panqec/codes/base/_stabilizer_code.py',
                'panqec/codes/surface_3d/_toric_3d_code.py',
                'panqec/codes/surface_3d/_planar_3d_code.py',
                'panqec/codes/surface_3d/_rotated_planar_3d_code.py',
                'panqec/codes/surface_3d/_rotated_toric_3d_code.py']

CODE_NAME = {'T3': 'Toric3DCode', 'P3': 'Planar3DCode', 'RP3': 'RotatedPlanar3DCode',
             'RT3': 'RotatedToric3DCode'}
DEC_OF = {'T3': 's3', 'P3': 's3', 'RP3': 'rot', 'RT3': 'rot'}
DEC_NAME = {'s3': 'SweepDecoder3D', 'rot': 'RotatedSweepDecoder3D'}
SWEEP_DIRS = [(1, 0, 1), (1, 0, -1), (0, 1, 1), (0, 1, -1), (-1, 0, 1), (-1, 0, -1), (0, -1, 1), (0, -1, -1)]

SIZES_QUICK = {
    'T3': [(2, 2, 2), (2, 2, 3), (2, 3, 2), (3, 2, 2), (3, 3, 3), (2, 3, 4)],
    'P3': [(2, 2, 2), (1, 2, 3), (2, 1, 1), (3, 2, 2), (2, 3, 2), (3, 3, 3), (2, 3, 4)],
    'RP3': [(2, 2, 2), (1, 2, 3), (2, 1, 1), (3, 3, 3), (3, 4, 2), (4, 3, 3), (2, 3, 4)],
    'RT3': [(2, 2, 2), (2, 4, 3), (4, 2, 2), (2, 3, 2), (3, 4, 2), (4, 4, 3)],
}
SIZES_THOROUGH = {
    'T3': [(4, 4, 4), (4, 2, 3), (3, 4, 5), (5, 2, 2)],
    'P3': [(4, 4, 4), (4, 2, 3), (1, 1, 2), (3, 4, 5), (5, 1, 2)],
    'RP3': [(4, 4, 4), (5, 5, 3), (4, 2, 3), (3, 5, 2), (1, 1, 2), (6, 3, 2)],
    'RT3': [(4, 4, 2), (3, 2, 2), (4, 6, 3), (5, 2, 3), (4, 3, 1), (2, 2, 1), (6, 5, 2)],
}


def sizes(ctx, tag):
    return SIZES_QUICK[tag] + (SIZES_THOROUGH[tag] if ctx.thorough else [])


# ------------------------------------------------------------- implementation access

class ScriptRng:
    """Stub for `decoder._rng`: successive draws return the scripted values, then 0."""

    def __init__(self, script):
        self.script = [int(c) for c in script]
        self.pos = 0

    def _next(self):
        v = self.script[self.pos] if self.pos < len(self.script) else 0
        self.pos += 1
        return v

    def choice(self, a, size=None, **kw):
        v = self._next()
        try:
            v = list(a)[v]
        except Exception:  # noqa: BLE001
            pass
        return np.array([v]) if size is not None else np.int64(v)

    def integers(self, low, high=None, size=None, **kw):
        v = self._next()
        return np.array([v]) if size is not None else np.int64(v)

    @property
    def remaining(self):
        return max(0, len(self.script) - self.pos)


@functools.lru_cache(maxsize=None)
def make_code(tag, size):
    import panqec.codes as pc
    code = getattr(pc, CODE_NAME[tag])(*size)
    code.stabilizer_matrix  # noqa: B018  build once
    return code


def make_dec(tag, size, param=None):
    from panqec.decoders import SweepDecoder3D, RotatedSweepDecoder3D
    from panqec.error_models import PauliErrorModel
    code = make_code(tag, tuple(size))
    em = PauliErrorModel(0, 0, 1)
    if DEC_OF[tag] == 's3':
        return SweepDecoder3D(code, em, 0.1, **({} if param is None else {'max_sweep_factor': param}))
    return RotatedSweepDecoder3D(code, em, 0.1, **({} if param is None else {'max_rounds': param}))


def default_param(tag):
    return 32


def loc_s(loc):
    return ','.join(str(int(v)) for v in loc)


def bits(a):
    a = np.asarray(a).reshape(-1)
    if a.size == 0:
        return '-'
    if a.dtype == bool:
        a = a.astype(np.uint8)
    if ((a == 0) | (a == 1)).all():
        return (a.astype(np.uint8) + 48).tobytes().decode('ascii')
    return ''.join(str(int(v)) for v in a)


def corr_s(d):
    return ';'.join(f'{loc_s(k)}:{v}' for k, v in d.items()) if d else '-'


def parse_corr(s):
    if s == '-':
        return {}
    out = {}
    for item in s.split(';'):
        l, p = item.split(':')
        out[tuple(int(v) for v in l.split(','))] = p
    return out


def spec(tag, size):
    return f'{tag} {size[0]} {size[1]} {size[2]}'


def error_vec(code, zs=(), xs=()):
    e = np.zeros(2 * code.n, dtype=np.uint)
    for q in zs:
        e[code.n + int(q)] = 1
    for q in xs:
        e[int(q)] = 1
    return e


def traced_decode(dec, syndrome, script):
    """Run the real `decode` with `sweep_move` wrapped from outside; returns
    (result or exception, steps, initial signs, rng)."""
    rng = ScriptRng(script)
    dec._rng = rng
    steps = []
    orig = type(dec).sweep_move

    def wrapper(signs, correction, *args):
        rec = {'sd': tuple(int(v) for v in args[0]) if args else None,
               'signs_in': bits(signs), 'corr_in': corr_s(correction), 'pos_in': rng.pos}
        out = orig(dec, signs, correction, *args)
        rec.update(signs_out=bits(out), corr_out=corr_s(correction), pos_out=rng.pos,
                   arr_out=np.array(out).astype(int), dict_out=dict(correction))
        steps.append(rec)
        return out

    dec.sweep_move = wrapper
    try:
        try:
            result = dec.decode(syndrome)
        except Exception as e:  # noqa: BLE001
            result = e
    finally:
        del dec.sweep_move
    return result, steps, rng


def script_slice(script, a, b):
    s = script[a:b]
    return s if s else '-'


# ------------------------------------------------------------------ correspondence

def lattice_stream(ctx):
    s = Stream('lattice-data')
    for tag in CODE_NAME:
        for size in sizes(ctx, tag):
            code = make_code(tag, size)
            sp = spec(tag, size)
            inp = {'code': CODE_NAME[tag], 'size': list(size)}
            s.add(f'sw.lat {sp} qubits', guarded(lambda: ';'.join(loc_s(q) for q in code.qubit_coordinates) or ''),
                  {**inp, 'what': 'qubit_coordinates'}, tag=tag)
            s.add(f'sw.lat {sp} stabs', guarded(lambda: ';'.join(loc_s(q) for q in code.stabilizer_coordinates)),
                  {**inp, 'what': 'stabilizer_coordinates'}, tag=tag)
            s.add(f'sw.lat {sp} types',
                  guarded(lambda: bits([code.stabilizer_type(q) == 'face' for q in code.stabilizer_coordinates])),
                  {**inp, 'what': 'stabilizer_type'}, tag=tag)
            s.add(f'sw.lat {sp} zidx', guarded(lambda: bits(code.z_indices)), {**inp, 'what': 'z_indices'}, tag=tag)
            s.add(f'sw.lat {sp} ops',
                  guarded(lambda: '/'.join(corr_s(code.get_stabilizer(q)) for q in code.stabilizer_coordinates)),
                  {**inp, 'what': 'get_stabilizer'}, tag=tag)
    return s.run()


def flip_answer(dec, loc, signs):
    arr = np.array(signs, dtype=np.uint8)

    def go():
        dec.flip_edge(tuple(loc), arr)
        return bits(arr)
    return guarded(go, {'UnboundLocalError': 'ERR unbound'})


def flip_stream(ctx):
    rng = ctx.np_rng(101)
    s = Stream('flip_edge-every-edge')
    for tag in CODE_NAME:
        for size in sizes(ctx, tag):
            code = make_code(tag, size)
            dec = make_dec(tag, size)
            m = code.n_stabilizers
            sp = spec(tag, size)
            zero = [0] * m
            rnd = [int(v) for v in rng.integers(0, 2, m)]
            for loc in code.qubit_coordinates:
                for signs, kind in ((zero, 'zero'), (rnd, 'random')):
                    if kind == 'random' and code.n > 100 and rng.random() < 0.7:
                        continue
                    s.add(f'sw.flip {DEC_OF[tag]} {sp} {loc_s(loc)} {bits(signs)}', flip_answer(dec, loc, signs),
                          {'code': CODE_NAME[tag], 'size': list(size), 'edge': list(loc), 'signs': bits(signs)},
                          tag=f'{tag}-{kind}')
            # locations that are not edges of the lattice: wrong parity, outside the box
            Lx, Ly, Lz = size
            odd = [(0, 0, 0), (1, 1, 0), (1, 1, 1), (2, 2, 2), (0, 2, 1), (3, 2, 1), (2, 0, 0),
                   (-1, 0, 0), (2 * Lx + 1, 0, 0), (0, 2 * Ly + 1, 2), (1, -2, 0), (0, 0, 2 * Lz + 1),
                   (1, 3, 1), (3, 1, 3), (3, 3, 1), (1, 1, 2 * Lz + 1), (5, 3, 2), (2, 4, 2 * Lz)]
            for loc in odd:
                s.add(f'sw.flip {DEC_OF[tag]} {sp} {loc_s(loc)} {bits(rnd)}', flip_answer(dec, loc, rnd),
                      {'code': CODE_NAME[tag], 'size': list(size), 'edge': list(loc), 'signs': bits(rnd)},
                      tag=f'{tag}-offlattice', nontrivial=False)
    return s.run()


def site_stream(ctx):
    s = Stream('site-toggle')
    code = make_code('T3', (2, 2, 2))
    locs = [(1, 0, 0), (0, 1, 0), (0, 0, 1)]
    for pre in itertools.product(' XYZ', repeat=3):
        base = {l: p for l, p in zip(locs, pre) if p != ' '}
        for p in 'XYZ':
            for l in locs:
                op = dict(base)

                def go():
                    code.site(op, p, l)
                    return corr_s(op)
                s.add(f'sw.site {corr_s(base)} {p} {loc_s(l)}', guarded(go),
                      {'operator': corr_s(base), 'pauli': p, 'location': list(l)}, tag='site')
    return s.run()


def move_answer(dec, sd, signs_bits, corr, script):
    rng = ScriptRng('' if script == '-' else script)
    dec._rng = rng
    arr = np.array([int(c) for c in signs_bits] if signs_bits != '-' else [], dtype=np.uint8)
    op = dict(corr)

    def go():
        out = dec.sweep_move(arr, op, sd) if sd is not None else dec.sweep_move(arr, op)
        return f'{bits(out)} {corr_s(op)} {rng.remaining}'
    return guarded(go, {'UnboundLocalError': 'ERR move'})


def move_op(tag, size, sd, signs_bits, corr_str, script):
    sds = loc_s(sd) if sd is not None else '-'
    return f'sw.move {DEC_OF[tag]} {spec(tag, size)} {sds} {signs_bits} {corr_str} {script or "-"}'


def random_script(rng, n):
    return ''.join(str(int(v)) for v in rng.integers(0, 3, n))


def run_cases(ctx, quick_only=False):
    """(tag, size, zs, xs, script, param) for traced decodes."""
    rng = ctx.np_rng(202)
    cases = []
    # documented witness of the old assignment bug (D9)
    cases.append(('T3', (2, 2, 2), (3, 21), (), '', 32, 'witness-D9'))
    # exhaustive weight <= 2 Z errors on the smallest lattices
    ex = [('T3', (2, 2, 2)), ('P3', (2, 2, 2)), ('RP3', (2, 2, 2)), ('RP3', (3, 3, 2)), ('RT3', (2, 2, 2)),
          ('RT3', (2, 3, 2))]
    if ctx.thorough:
        ex += [('T3', (2, 2, 3)), ('P3', (3, 2, 2)), ('P3', (2, 3, 3)), ('RP3', (3, 3, 3)), ('RP3', (2, 3, 4)),
               ('RT3', (3, 2, 2)), ('RT3', (2, 4, 2)), ('RT3', (3, 4, 2))]
    scripts = ['', '1', '2', '012', '2101']
    for tag, size in ex:
        n = make_code(tag, size).n
        k = 0
        for w in (0, 1, 2):
            for zs in itertools.combinations(range(n), w):
                if not ctx.thorough and w == 2 and n > 24 and rng.random() < 0.5:
                    continue
                cases.append((tag, size, zs, (), scripts[k % len(scripts)], 2 if DEC_OF[tag] == 'rot' else 4,
                              f'exhaustive-w{w}'))
                k += 1
    # random Z errors (plus a few with X components) at several rates
    rnd = [('T3', (2, 2, 2)), ('T3', (3, 3, 3)), ('T3', (2, 3, 4)), ('T3', (3, 2, 2)),
           ('P3', (3, 3, 3)), ('P3', (2, 3, 4)), ('P3', (3, 2, 2)),
           ('RP3', (3, 3, 3)), ('RP3', (3, 4, 2)), ('RP3', (4, 3, 3)), ('RP3', (2, 3, 4)),
           ('RT3', (2, 2, 2)), ('RT3', (2, 4, 3)), ('RT3', (3, 4, 2)), ('RT3', (4, 4, 3)), ('RT3', (2, 3, 2))]
    if ctx.thorough:
        rnd += [('T3', (4, 4, 4)), ('T3', (4, 2, 3)), ('P3', (4, 4, 4)), ('RP3', (5, 5, 3)), ('RP3', (4, 4, 4)),
                ('RT3', (4, 4, 2)), ('RT3', (5, 2, 3)), ('RT3', (4, 6, 3)), ('RT3', (6, 5, 2))]
    reps = 6 if ctx.thorough else 2
    for tag, size in rnd:
        n = make_code(tag, size).n
        for p in (0.03, 0.08, 0.15, 0.3, 0.5):
            for r in range(reps):
                zs = tuple(int(i) for i in np.nonzero(rng.random(n) < p)[0])
                xs = tuple(int(i) for i in np.nonzero(rng.random(n) < p)[0]) if r % 2 else ()
                param = [1, 2, 3, 32][int(rng.integers(0, 4))]
                if DEC_OF[tag] == 'rot':
                    param = min(param, 2)
                cases.append((tag, size, zs, xs, random_script(rng, int(rng.integers(0, 40))), param,
                              f'random-p{p}'))
    return cases


def decode_streams(ctx):
    s_move = Stream('sweep_move-steps-of-traced-decodes')
    s_run = Stream('decode-full-runs')
    s_init = Stream('get_initial_state')
    seen = set()
    for tag, size, zs, xs, script, param, label in run_cases(ctx):
        code = make_code(tag, size)
        dec = make_dec(tag, size, param)
        syn = code.measure_syndrome(error_vec(code, zs, xs))
        init = guarded(lambda: bits(dec.get_initial_state(syn)))
        inp = {'code': CODE_NAME[tag], 'size': list(size), 'error_z': list(zs), 'error_x': list(xs),
               'script': script, 'param': param}
        s_init.add(f'sw.init {DEC_OF[tag]} {spec(tag, size)} {bits(syn)}', init, inp, nontrivial=bool(zs or xs), tag=tag)
        result, steps, rng = traced_decode(dec, syn, script)
        for i, st in enumerate(steps):
            sub = script_slice(script, st['pos_in'], len(script))
            ans = f"{st['signs_out']} {st['corr_out']} {max(0, len(script) - st['pos_out'])}"
            op = move_op(tag, size, st['sd'], st['signs_in'], st['corr_in'], sub)
            if (op, ans) in seen:
                continue
            seen.add((op, ans))
            s_move.add(op, ans, {**inp, 'step': i}, tag=f'{tag}-{label}')
        if isinstance(result, Exception):
            ans = 'ERR run' if isinstance(result, UnboundLocalError) else f'EXC:{type(result).__name__}'
        else:
            fin_signs = steps[-1]['signs_out'] if steps else init
            fin_corr = steps[-1]['corr_out'] if steps else '-'
            traj = '/'.join(f"{st['signs_out']} {st['corr_out']}" for st in steps)
            ans = f'{len(steps)} {fin_signs} {fin_corr} {rng.remaining} {vec(result)} {traj}'
        if len(steps) <= (3000 if ctx.thorough else 600):
            s_run.add(f'sw.run {DEC_OF[tag]} {spec(tag, size)} {param} {bits(syn)} {script or "-"}', ans, inp,
                      nontrivial=bool(steps), tag=f'{tag}-{label}')
    return [s_init.run(), s_move.run(), s_run.run()]


def direct_move_stream(ctx):
    """sweep_move called directly on chosen (signs, correction), all 8 directions."""
    rng = ctx.np_rng(303)
    s = Stream('sweep_move-direct-arbitrary-states')
    targets = [('T3', (2, 2, 2)), ('T3', (3, 3, 3)), ('T3', (2, 3, 4)), ('P3', (3, 3, 3)), ('P3', (2, 3, 2)),
               ('RP3', (3, 3, 3)), ('RP3', (4, 3, 3)), ('RP3', (2, 3, 4)), ('RT3', (2, 2, 2)), ('RT3', (2, 4, 3)),
               ('RT3', (3, 4, 2)), ('RT3', (2, 3, 2))]
    if ctx.thorough:
        targets += [('T3', (4, 4, 4)), ('P3', (4, 4, 4)), ('RP3', (5, 5, 3)), ('RT3', (4, 4, 2)), ('RT3', (5, 2, 3))]
    reps = 8 if ctx.thorough else 3
    for tag, size in targets:
        code = make_code(tag, size)
        dec = make_dec(tag, size)
        m = code.n_stabilizers
        face = np.array([code.stabilizer_type(q) == 'face' for q in code.stabilizer_coordinates])
        for dens in (0.1, 0.3, 0.6, 0.9, 1.0):
            for r in range(reps):
                signs = (rng.random(m) < dens).astype(int)
                if r % 3:
                    signs = signs * face           # excitations on faces only (as in decode)
                corr = {}
                for q in rng.choice(code.n, size=int(rng.integers(0, min(code.n, 8))), replace=False):
                    corr[tuple(code.qubit_coordinates[int(q)])] = 'Z' if (r % 2 == 0 or rng.random() < 0.7) \
                        else str(rng.choice(['X', 'Y']))
                script = random_script(rng, int(rng.integers(0, 60)))
                dirs = SWEEP_DIRS if DEC_OF[tag] == 'rot' else [None]
                for sd in dirs:
                    sb = bits(signs)
                    s.add(move_op(tag, size, sd, sb, corr_s(corr), script), move_answer(dec, sd, sb, corr, script),
                          {'code': CODE_NAME[tag], 'size': list(size), 'signs': sb, 'correction': corr_s(corr),
                           'sweep_direction': list(sd) if sd else None, 'script': script},
                          nontrivial=bool(signs.any()), tag=f'{tag}-dens{dens}')
    # exhaustive weight<=2 errors x all 8 directions, one step from the initial state (rotated decoder)
    for tag, size in [('RP3', (2, 2, 2)), ('RP3', (3, 3, 2)), ('RT3', (2, 2, 2)), ('RT3', (2, 3, 2))] + \
            ([('RP3', (3, 3, 3)), ('RT3', (3, 4, 2))] if ctx.thorough else []):
        code = make_code(tag, size)
        dec = make_dec(tag, size)
        for w in (1, 2):
            for zs in itertools.combinations(range(code.n), w):
                syn = code.measure_syndrome(error_vec(code, zs))
                sb = bits(dec.get_initial_state(syn))
                for sd in SWEEP_DIRS:
                    s.add(move_op(tag, size, sd, sb, '-', '1'), move_answer(dec, sd, sb, {}, '1'),
                          {'code': CODE_NAME[tag], 'size': list(size), 'error_z': list(zs),
                           'sweep_direction': list(sd), 'script': '1'}, tag=f'{tag}-exhaustive-8dirs')
    return s.run()


def table_stream(ctx):
    """The decidable hypothesis `flipTableOK` evaluated by the compiled model (list of the edges on
    which the model's flip table disagrees with the model's face stabilizers) against the same
    list computed on the implementation (flip_edge vs parity-check matrix)."""
    s = Stream('flip-table-consistency-per-lattice')
    for tag in CODE_NAME:
        for size in sizes(ctx, tag):
            code = make_code(tag, size)

            def go():
                bad = [loc for loc in code.qubit_coordinates
                       if check_case({'kind': 'geom', 'code': tag, 'size': list(size), 'edge': list(loc),
                                      'rows': 'as-decoder'})]
                return f'{len(bad)}/{code.n} ' + ';'.join(loc_s(b) for b in bad)
            s.add(f'sw.table {DEC_OF[tag]} {spec(tag, size)}', guarded(go),
                  {'code': CODE_NAME[tag], 'size': list(size), 'what': 'edges with inconsistent flip table'},
                  tag=tag)
    return s.run()


def wrap_stream(ctx):
    """`RotatedSweepDecoder3D._wrap`, `get_sweep_faces`, `get_sweep_edges` (the seam repair of D10) against
    `wrapRot`, `sweepFacesRot`, `sweepEdgesRot`: every vertex x the eight sweep directions, locations around
    and across the seams, on both classes of the rotated decoder."""
    s = Stream('rotated-wrap-sweep-faces-edges')
    rng = ctx.np_rng(505)
    for tag in ('RP3', 'RT3'):
        for size in sizes(ctx, tag):
            code = make_code(tag, size)
            dec = make_dec(tag, size)
            sp = spec(tag, size)
            Lx, Ly, Lz = size
            inp = {'code': CODE_NAME[tag], 'size': list(size)}
            locs = [(x, y, z) for x in (-3, -1, 0, 1, 2, 2 * Lx - 1, 2 * Lx, 2 * Lx + 1, 2 * Lx + 2, 4 * Lx + 1)
                    for y in (-2, 0, 1, 2 * Ly, 2 * Ly + 1, 2 * Ly + 3) for z in (0, 1, 2 * Lz)]
            for loc in locs:
                s.add(f'sw.wrap {sp} {loc_s(loc)}', guarded(lambda: loc_s(dec._wrap(loc))),
                      {**inp, 'location': list(loc), 'what': '_wrap'}, tag=f'{tag}-wrap',
                      nontrivial=(tag == 'RT3'))
            verts = [v for v in code.stabilizer_coordinates if code.stabilizer_type(v) == 'vertex']
            verts += [tuple(int(c) for c in code.stabilizer_coordinates[int(i)])
                      for i in rng.integers(0, code.n_stabilizers, 4)] + [(0, 0, 0), (1, 2 * Ly, 1)]
            for v in verts:
                for sd in SWEEP_DIRS:
                    def go():
                        F = dec.get_sweep_faces(v, sd)
                        E = dec.get_sweep_edges(v, sd)
                        return ';'.join(loc_s(f) for f in F) + ' ' + ';'.join(loc_s(e) for e in E)
                    s.add(f'sw.sweep {sp} {loc_s(v)} {loc_s(sd)}', guarded(go),
                          {**inp, 'vertex': [int(c) for c in v], 'sweep_direction': list(sd),
                           'what': 'get_sweep_faces + get_sweep_edges'}, tag=f'{tag}-sweep')
    return s.run()


def correspondence(ctx):
    streams = [lattice_stream(ctx), flip_stream(ctx), table_stream(ctx), site_stream(ctx), wrap_stream(ctx)]
    streams += decode_streams(ctx)
    streams.append(direct_move_stream(ctx))
    return streams


# ------------------------------------------------------------------ oracle
# The property as stated, evaluated on the implementation only.

def face_rows(code):
    return np.array([code.stabilizer_type(q) == 'face' for q in code.stabilizer_coordinates])


def face_syndrome(code, bsf):
    """face part of measure_syndrome: rows of face stabilizers, other rows blanked"""
    syn = np.array(code.measure_syndrome(np.asarray(bsf, dtype=np.uint) % 2)).astype(int).reshape(-1)
    return syn * face_rows(code)


def z_only(code, op):
    return all(v == 'Z' for v in op.values()) and all(tuple(int(c) for c in k) in code.qubit_index for k in op)


def check_case(case):
    tag = case['code']
    size = tuple(case['size'])
    kind = case['kind']
    try:
        code = make_code(tag, size)
        if kind == 'geom':
            dec = make_dec(tag, size)
            loc = tuple(case['edge'])
            signs = np.zeros(code.n_stabilizers, dtype=np.uint8)
            dec.flip_edge(loc, signs)
            want = face_syndrome(code, error_vec(code, [code.qubit_index[loc]]))
            if case.get('rows') == 'as-decoder':
                # the hypothesis as the MODEL states it: face rows = the rows the decoder does not blank in
                # get_initial_state.  SweepDecoder3D (flipTableOK): `signs[z_indices] = 0`;
                # RotatedSweepDecoder3D (flipTableOKRot): the rows whose stabilizer_type is 'vertex' are blanked,
                # i.e. face rows = rows of type 'face' - the oracle's own notion (the two notions differ only on
                # the mixed X/Z generators of the defect lines of odd-sized RotatedToric3DCode)
                syn = np.array(code.measure_syndrome(error_vec(code, [code.qubit_index[loc]]))).astype(int).reshape(-1)
                if DEC_OF[tag] == 's3':
                    want = syn * (1 - np.asarray(code.z_indices).astype(int))
                else:
                    want = syn * face_rows(code).astype(int)
            got = np.array(signs).astype(int)
            if not np.array_equal(got, want):
                return (f'flip_edge({loc}) toggles stabilizer rows {np.nonzero(got)[0].tolist()} but the face '
                        f'stabilizers anticommuting with Z on that edge are rows {np.nonzero(want)[0].tolist()}')
            return None
        if kind == 'run':
            dec = make_dec(tag, size, case.get('param'))
            err = error_vec(code, case['error_z'], case.get('error_x', ()))
            syn = code.measure_syndrome(err)
            result, steps, rng = traced_decode(dec, syn, case.get('script', ''))
            if isinstance(result, Exception):
                return f'decode raised {type(result).__name__}: {result}'
            init = np.array(dec.get_initial_state(syn)).astype(int)
            if not np.array_equal(init, face_syndrome(code, err)):
                return 'initial state differs from the face syndrome of the error'
            last_signs, last_corr = init, {}
            checked = set()
            for i, st in enumerate(steps):
                op = st['dict_out']
                last_signs, last_corr = st['arr_out'], op
                if (st['signs_out'], st['corr_out']) in checked:
                    continue        # same state as an earlier step of this run
                checked.add((st['signs_out'], st['corr_out']))
                if not z_only(code, op):
                    return f'step {i}: correction is not a Z-only operator on qubits: {corr_s(op)}'
                tot = (err + code.to_bsf(op)) % 2
                want = face_syndrome(code, tot)
                if not np.array_equal(st['arr_out'], want):
                    return (f'step {i}: tracked excitations {np.nonzero(st["arr_out"])[0].tolist()} != face '
                            f'syndrome of error+correction {np.nonzero(want)[0].tolist()} '
                            f'(correction {corr_s(op)})')
            res = np.array(result).astype(int).reshape(-1)
            if not np.array_equal(res % 2, np.array(code.to_bsf(last_corr)).astype(int) % 2) or res[:code.n].any():
                return 'returned correction is not the Z-only operator accumulated by the automaton'
            if not last_signs.any():
                tot = (err + res) % 2
                if face_syndrome(code, tot).any():
                    return 'automaton stopped with no excitations but error+correction has non-zero face syndrome'
            return None
        if kind == 'move':
            dec = make_dec(tag, size)
            rng = ScriptRng(case.get('script', ''))
            dec._rng = rng
            signs = np.array([int(c) for c in case['signs']], dtype=np.uint8)
            op = parse_corr(case['correction'])
            before = np.array(code.to_bsf(op)).astype(int)
            sd = case.get('sweep_direction')
            out = dec.sweep_move(signs, op, tuple(sd)) if sd else dec.sweep_move(signs, op)
            after = np.array(code.to_bsf(op)).astype(int)
            delta = (before + after) % 2
            if delta[:code.n].any():
                return 'sweep_move changed the X part of the correction'
            want = (np.array(signs).astype(int) + face_syndrome(code, delta)) % 2
            if not np.array_equal(np.array(out).astype(int), want):
                return ('sweep_move: change of the tracked excitations differs from the face syndrome of the '
                        'change of the correction')
            return None
    except Exception as e:  # noqa: BLE001
        return f'raised {type(e).__name__}: {e}'
    return None


WHAT = {'geom': 'flip_edge', 'run': 'invariant', 'move': 'step'}


def case_key(c):
    return {'decoder': DEC_NAME[DEC_OF[c['code']]], 'code': CODE_NAME[c['code']], 'what': WHAT[c['kind']]}


def regression_corpus():
    """Inputs of the former finding D10 (RotatedSweepDecoder3D had no periodic seam on RotatedToric3DCode:
    8 of the 10 edges of the 2x2x2 lattice toggled the wrong faces), repaired by `_wrap`; they must pass.
    Plus the defect lines of odd sizes, where `get_initial_state` used to blank a face generator that
    carries Z letters (`z_indices`)."""
    cases = []
    for edge in [(1, 1, 1), (1, 1, 3), (1, 3, 1), (1, 3, 3), (3, 1, 1), (3, 1, 3), (2, 4, 2), (4, 2, 2),
                 (3, 3, 1), (3, 3, 3)]:
        cases.append({'kind': 'geom', 'code': 'RT3', 'size': [2, 2, 2], 'edge': list(edge)})
    for q in range(10):
        for script in ('', '21'):
            cases.append({'kind': 'run', 'code': 'RT3', 'size': [2, 2, 2], 'error_z': [q], 'error_x': [],
                          'script': script, 'param': 2})
    for size, n in (((2, 3, 2), 15), ((3, 2, 2), 15)):
        for q in range(n):
            cases.append({'kind': 'run', 'code': 'RT3', 'size': list(size), 'error_z': [q],
                          'error_x': [(q + 1) % n, (q + 4) % n], 'script': '102', 'param': 1})
    return cases


def oracle_cases(ctx, deep):
    rng = ctx.np_rng(404)
    cases = []

    class C:  # tier view for the generators
        thorough = deep or ctx.thorough
        np_rng = ctx.np_rng
    for tag in CODE_NAME:
        szs = SIZES_QUICK[tag] + (SIZES_THOROUGH[tag] if C.thorough else [])
        for size in szs:
            code = make_code(tag, size)
            for loc in code.qubit_coordinates:
                cases.append({'kind': 'geom', 'code': tag, 'size': list(size), 'edge': [int(v) for v in loc]})
    cases += regression_corpus()
    for tag, size, zs, xs, script, param, label in run_cases(C):
        cases.append({'kind': 'run', 'code': tag, 'size': list(size), 'error_z': list(zs), 'error_x': list(xs),
                      'script': script, 'param': param})
    for tag, size in [('T3', (2, 2, 2)), ('T3', (3, 3, 3)), ('P3', (3, 3, 3)), ('RP3', (3, 3, 3)),
                      ('RP3', (4, 3, 3)), ('RT3', (2, 2, 2)), ('RT3', (2, 4, 3)), ('RT3', (3, 4, 2))]:
        code = make_code(tag, size)
        m = code.n_stabilizers
        face = face_rows(code)
        for dens in (0.2, 0.6, 1.0):
            for r in range(6 if C.thorough else 2):
                signs = (rng.random(m) < dens).astype(int) * face
                corr = {tuple(code.qubit_coordinates[int(q)]): 'Z'
                        for q in rng.choice(code.n, size=int(rng.integers(0, 6)), replace=False)}
                for sd in (SWEEP_DIRS if DEC_OF[tag] == 'rot' else [None]):
                    cases.append({'kind': 'move', 'code': tag, 'size': list(size), 'signs': bits(signs),
                                  'correction': corr_s(corr), 'sweep_direction': list(sd) if sd else None,
                                  'script': random_script(rng, 20)})
    return cases


def oracle(ctx, deep=False, broken=None):
    cases = oracle_cases(ctx, deep)
    fails = first_failures(cases, check_case, key=case_key)
    return fails, {'evaluations': len(cases)}


def replay(ctx, payload):
    return check_case(payload['input']) is not None
