"""C08 - Clifford deformation is one consistent single-qubit relabelling."""
from __future__ import annotations

import numpy as np

from harness import codes as K
from harness.core import Stream
from harness.util import vec, stack, guarded, first_failures
from harness.props.c02 import cstr, coords_str, op_str, ops_str

ID = 'C08'
LEVEL = 'proof'
LEVEL_TEXT = ('Lean theorems for every n and every assignment of permutations of {X,Y,Z} to the qubits (covers X<->Z, '
              'Y<->Z and any other map a class returns; the regenerated table of returned maps is proved to consist of '
              'permutations): the relabelling preserves the symplectic form, is GF(2)-linear and invertible, maps '
              'to_bsf of the relabelled operator to the relabelled BSF vector, preserves every validity clause '
              'including rank, and the deformed code sees D(e) exactly as the original sees e (same syndrome, same '
              'logical effect, same success verdict); apply_deformation is the Hadamard on the index set; for EVERY '
              'sequence of deform calls and property accesses on one object the observable matrices are those of the '
              'last deformation applied to the undeformed code (state-machine invariant by induction). Tied to '
              '_stabilizer_code.deform and the per-class get_deformation by differential runs over all classes, '
              'sizes, names, axes and random call histories.')
LEVEL_NOTE = ('trusted: Lean kernel + standard axioms; correspondence harness; the per-class rule "which qubits get which '
              'map" (XZZX = Hadamard exactly on the qubits along the chosen axis, XY = Y<->Z everywhere) is checked on '
              'every qubit of the bounded size set by the statement-level oracle; for the hand-modelled lattice classes the '
              'closed-form rule is a theorem for all sizes (deformation_rule* in Properties/C01<Class>.lean, incl. XXZZ of '
              'Color488Code, X3Z3 of Color666ToricCode, the Checkerboard XZZX rule of the two rhombic codes and of '
              'HollowRhombicCode; Color3DCode has none); the noise-side '
              'identity P_D(e) = P(D e) is proved in C07/C18 (deformed_distribution, product form) and exercised here')
TECHNIQUE = 'Lean 4 proof (per-qubit case analysis, list induction, state-machine invariant) + differential correspondence'
TRUSTED = ['class getters return fresh dicts on each call (model assumption of Model/Deform.lean, exercised by the history stream)']
ASSUMPTIONS = ['deformation maps are looked up per qubit location and do not depend on object state']


def dmap_str(d):
    return f"{d['X']}{d['Y']}{d['Z']}"


def table_for(code_undeformed, name, kw):
    return {loc: code_undeformed.get_deformation(loc, name, **kw) for loc in code_undeformed.qubit_coordinates}


def table_str(tbl):
    return ';'.join(f'{cstr(k)}:{dmap_str(v)}' for k, v in tbl.items()) if tbl else '_'


def code_set(ctx):
    rng = ctx.np_rng(81)
    out = []
    for cls in K.CLASSES:
        defs = K.deformations(cls)[1:]
        if not defs:
            continue
        if cls in ('RhombicToricCode',):
            sizes = K.all_sizes(cls, 2) + ([(2, 2, 4)] if ctx.thorough else [])
        elif cls == 'HollowRhombicCode':
            sizes = K.all_sizes(cls, 3) + (K.all_sizes(cls, 4, n_max=100)[-2:] if ctx.thorough else [])
        else:
            sizes = K.all_sizes(cls, (4 if ctx.thorough else 3) if K.dimension(cls) == 2 else (3 if ctx.thorough else 2),
                                n_max=130)
        if not ctx.thorough and len(sizes) > 4:
            sizes = [sizes[i] for i in sorted(rng.choice(len(sizes), 4, replace=False))]
        for size in sizes:
            for d in defs:
                out.append((cls, size, d))
    return out


def correspondence(ctx):
    rng = ctx.np_rng(82)
    s_op, s_bsf, s_hist, s_cov = (Stream('deformed-getters-vs-deformOp'), Stream('deformed-matrices-vs-deformBsf'),
                                  Stream('object-history'), Stream('syndrome-effect-covariance'))
    for cls, size, (name, kw) in code_set(ctx):
        label = f'{cls}{size}/{K.deform_tag((name, kw))}'
        base = K.build(cls, size)
        tbl = guarded(lambda: 'ok')
        try:
            table = table_for(base, name, kw)
        except Exception as e:  # noqa
            s_op.add('bad-op table', f'EXC:{type(e).__name__}', {'code': label}, tag='table-fail')
            continue
        ts = table_str(table)
        dcode = K.build(cls, size, (name, kw))
        locs = list(base.stabilizer_coordinates)
        pick = locs if len(locs) <= 8 else [locs[i] for i in sorted(rng.choice(len(locs), 8, replace=False))]
        s_op.add(f'set T {ts}', 'ok', nontrivial=False)
        for loc in pick:
            op = base.get_stabilizer(loc)
            s_op.add(f'deformop {op_str(op)} $T', guarded(lambda: op_str(dcode.get_stabilizer(loc))),
                     {'code': label, 'stabilizer': cstr(loc)}, tag=cls)
        for nm, g0, g1 in (('X', base.get_logicals_x, dcode.get_logicals_x), ('Z', base.get_logicals_z, dcode.get_logicals_z)):
            l0, l1 = g0(), guarded(lambda: g1(), None)
            if isinstance(l1, str):
                s_op.add('bad-op logicals', l1, {'code': label}, tag='logical-fail')
                continue
            for i in range(min(len(l0), 3)):
                s_op.add(f'deformop {op_str(l0[i])} $T', op_str(l1[i]), {'code': label, 'logical': nm, 'i': i}, tag=cls)
        # matrix level
        maps = ','.join(dmap_str(table[q]) for q in base.qubit_coordinates)
        H0 = K.dense(base.stabilizer_matrix)
        H1 = guarded(lambda: K.dense(dcode.stabilizer_matrix), None)
        if isinstance(H1, str):
            s_bsf.add('bad-op H', H1, {'code': label}, tag='H-fail')
            continue
        s_bsf.add(f'set M {maps}', 'ok', nontrivial=False)
        rows = list(range(len(H0))) if len(H0) <= 6 else sorted(rng.choice(len(H0), 6, replace=False))
        for i in rows:
            s_bsf.add(f'deformbsf $M {vec(H0[i])}', vec(H1[i]), {'code': label, 'row': int(i)}, tag=cls)
        for nm, m0, m1 in (('X', base.logicals_x, dcode.logicals_x), ('Z', base.logicals_z, dcode.logicals_z)):
            for i in range(min(len(m0), 2)):
                s_bsf.add(f'deformbsf $M {vec(m0[i])}', vec(m1[i]), {'code': label, 'logical': nm, 'i': i}, tag=cls)
        # covariance: deformed code on D(e) == original code on e
        s_cov.add(f'set M {maps}', 'ok', nontrivial=False)
        s_cov.add(f'set H1 {stack(H1)}', 'ok', nontrivial=False)
        for _ in range(3):
            e = [int(x) for x in rng.integers(0, 2, 2 * base.n)]
            syn0 = vec(base.measure_syndrome(np.array(e, dtype='uint8')))
            # model: D(e) then syndrome with the deformed matrix, must equal implementation's syndrome of e
            # (two driver ops; the second uses the first's expected value computed here from the implementation)
            De = [0] * (2 * base.n)
            n = base.n
            for qi, q in enumerate(base.qubit_coordinates):
                x, z = e[qi], e[n + qi]
                p = {(0, 0): 'I', (1, 0): 'X', (1, 1): 'Y', (0, 1): 'Z'}[(x, z)]
                p2 = 'I' if p == 'I' else table[q][p]
                De[qi] = 1 if p2 in 'XY' else 0
                De[n + qi] = 1 if p2 in 'YZ' else 0
            s_cov.add(f'deformbsf $M {vec(e)}', vec(De), {'code': label, 'error': vec(e), 'what': 'D(e)'}, tag=cls)
            s_cov.add(f'synd $H1 {vec(De)}', syn0, {'code': label, 'error': vec(e),
                                                   'what': 'syndrome of D(e) under deformed H == syndrome of e'}, tag=cls)
    # object histories
    for _ in range(60 if ctx.thorough else 20):
        cands = [c for c in K.CLASSES if len(K.deformations(c)) > 1]
        cls = cands[int(rng.integers(0, len(cands)))]
        sizes = (K.all_sizes(cls, 2, n_max=60) or K.all_sizes(cls, 3, n_max=60) or K.all_sizes(cls, 4, n_max=80))
        size = sizes[int(rng.integers(0, len(sizes)))]
        base = K.build(cls, size)
        obj = K.build(cls, size)
        defs = K.deformations(cls)[1:]
        steps, desc = [], []
        try:
            for _s in range(int(rng.integers(1, 7))):
                r = rng.random()
                if r < 0.45:
                    name, kw = defs[int(rng.integers(0, len(defs)))]
                    obj.deform(name, **kw)
                    steps.append('d=' + table_str(table_for(base, name, kw)))
                    desc.append(f'deform({name},{kw})')
                elif r < 0.65:
                    obj.stabilizer_matrix
                    steps.append('aH'); desc.append('H')
                elif r < 0.85:
                    obj.logicals_x
                    steps.append('aX'); desc.append('Lx')
                else:
                    obj.logicals_z
                    steps.append('aZ'); desc.append('Lz')
            ans = f"{stack(K.dense(obj.stabilizer_matrix))} {stack(K.dense(obj.logicals_x))} {stack(K.dense(obj.logicals_z))}"
        except Exception as e:  # noqa
            ans = f'EXC:{type(e).__name__}'
        qs = coords_str(base.qubit_coordinates)
        ops = ops_str(base.get_stabilizer(l) for l in base.stabilizer_coordinates)
        s_hist.add(f'objrun {qs} {ops} {ops_str(base.get_logicals_x())} {ops_str(base.get_logicals_z())} {"/".join(steps)}',
                   ans, {'code': f'{cls}{size}', 'history': desc}, tag=f'len={len(steps)}')
    return [s.run() for s in (s_op, s_bsf, s_cov, s_hist)]


# ------------------------------------------------------------------ oracle

AXIS_CLASSES = {'Toric2DCode', 'Planar2DCode', 'RotatedPlanar2DCode', 'Toric3DCode', 'Planar3DCode',
                'RotatedPlanar3DCode', 'RotatedToric3DCode', 'XCubeCode'}
# 'Checkerboard XZZX' of the rhombic codes: X<->Z exactly on the z edges of the checkerboard (rule proved for
# all sizes in Properties/C01Rhombic{Planar,Toric}Code.lean: deformation_rule / deformation_on_qubits)
CHECKERBOARD_CLASSES = {'RhombicPlanarCode', 'RhombicToricCode'}


def check_shared_noise(c):
    """ONE noise-model object with a deformation name (and the kwargs given, possibly none = every class's own
    default axis) serves codes of several classes one after the other: on each, the deformed distribution must be
    the undeformed one relabelled by THAT class's get_deformation -- whatever class came before."""
    from panqec.error_models import PauliErrorModel
    name, kw = c['deform'][0], c['deform'][1]
    try:
        em0 = PauliErrorModel(0.25, 0.125, 0.625)
        emd = PauliErrorModel(0.25, 0.125, 0.625, deformation_name=name, deformation_kwargs=dict(kw) if kw else None)
        idx = {'I': 0, 'X': 1, 'Y': 2, 'Z': 3}
        for rnd in range(2):
            for cls, size in c['sequence']:
                base = K.build(cls, tuple(size))
                table = table_for(base, name, kw)
                p0 = em0.probability_distribution(base, 0.25)
                p1 = emd.probability_distribution(base, 0.25)
                for qi, q in enumerate(base.qubit_coordinates):
                    for s_ in 'XYZ':
                        if p1[idx[s_]][qi] != p0[idx[table[q][s_]]][qi]:
                            return (f'round {rnd}: one model object, {cls}{tuple(size)} after '
                                    f'{[x[0] for x in c["sequence"]][:[x[0] for x in c["sequence"]].index(cls)]}: '
                                    f'P_D({s_}) on qubit {q} is not P(D({s_})) for the deformation this class applies')
    except Exception as e:  # noqa
        return f'raised {type(e).__name__}: {e}'
    return None


def check_case(c):
    if c.get('kind') == 'shared-noise':
        return check_shared_noise(c)
    cls, size, name, kw = c['class'], tuple(c['size']), c['deform'][0], c['deform'][1]
    try:
        rng = np.random.default_rng(5)
        base = K.build(cls, size)
        d1 = K.build(cls, size, (name, kw))
        n = base.n
        table = table_for(base, name, kw)
        for loc, d in table.items():
            if sorted(d.keys()) != ['X', 'Y', 'Z'] or sorted(d.values()) != ['X', 'Y', 'Z']:
                return f'get_deformation({loc}) = {d} is not a relabelling of X,Y,Z'
            if name == 'XY' and dmap_str(d) != 'XZY':
                return f'XY deformation at {loc} is {d}, expected Y<->Z'
            if name == 'XZZX' and cls in AXIS_CLASSES and 'deformation_axis' in kw:
                want = 'ZYX' if base.qubit_axis(loc) == kw['deformation_axis'] else 'XYZ'
                if dmap_str(d) != want:
                    return (f'XZZX along {kw["deformation_axis"]}: qubit {loc} (axis {base.qubit_axis(loc)}) '
                            f'gets {d}')
            if name == 'Checkerboard XZZX' and cls in CHECKERBOARD_CLASSES:
                x, y, z = loc
                on = z % 2 == 1 and ((z % 4 == 3 and (x + y) % 4 == 2) or (z % 4 == 1 and (x + y) % 4 == 0))
                if dmap_str(d) != ('ZYX' if on else 'XYZ'):
                    return f'Checkerboard XZZX: qubit {loc} gets {d}, expected {"X<->Z" if on else "identity"}'
            # same answer from the deformed object and on repeated calls (depends on location only)
            if d1.get_deformation(loc, name, **kw) != d:
                return f'get_deformation({loc}) differs between a deformed and an undeformed object'
        if d1.n != n or d1.k != base.k:
            return 'n or k changed by the deformation'
        for loc in base.stabilizer_coordinates:
            op0, op1 = base.get_stabilizer(loc), d1.get_stabilizer(loc)
            if {q: table[q][p] for q, p in op0.items()} != dict(op1):
                return f'deformed stabilizer at {loc} is not the relabelled undeformed one'
        for g0, g1 in ((base.get_logicals_x, d1.get_logicals_x), (base.get_logicals_z, d1.get_logicals_z)):
            for a, b in zip(g0(), g1()):
                if {q: table[q][p] for q, p in a.items()} != dict(b):
                    return 'deformed logical is not the relabelled undeformed one'
        # covariance
        def D(e):
            out = [0] * (2 * n)
            for qi, q in enumerate(base.qubit_coordinates):
                p = {(0, 0): 'I', (1, 0): 'X', (1, 1): 'Y', (0, 1): 'Z'}[(int(e[qi]), int(e[n + qi]))]
                p2 = 'I' if p == 'I' else table[q][p]
                out[qi] = 1 if p2 in 'XY' else 0
                out[n + qi] = 1 if p2 in 'YZ' else 0
            return np.array(out, dtype='uint8')
        for _ in range(4):
            e = rng.integers(0, 2, 2 * n).astype('uint8')
            if list(base.measure_syndrome(e)) != list(d1.measure_syndrome(D(e))):
                return f'syndrome of D(e) under the deformed code differs from syndrome of e, e={vec(e)}'
            if list(base.logical_errors(e)) != list(d1.logical_errors(D(e))):
                return f'logical effect of D(e) under the deformed code differs, e={vec(e)}'
        # noise side: P_D(e) = P(D e)
        from panqec.error_models import PauliErrorModel
        em0, emd = PauliErrorModel(0.25, 0.125, 0.625), PauliErrorModel(0.25, 0.125, 0.625, deformation_name=name,
                                                                       deformation_kwargs=kw)
        try:
            p0 = em0.probability_distribution(base, 0.25)
            p1 = emd.probability_distribution(base, 0.25)
            idx = {'I': 0, 'X': 1, 'Y': 2, 'Z': 3}
            for qi, q in enumerate(base.qubit_coordinates):
                for s in 'XYZ':
                    if p1[idx[s]][qi] != p0[idx[table[q][s]]][qi]:
                        return f'deformed noise: P_D({s}) on qubit {q} is not P(D({s}))'
        except TypeError:
            pass
        # history independence: every derived datum of a used-then-deformed object equals a fresh one's
        others = [d for d in K.deformations(cls)[1:]]
        obj = K.build(cls, size)
        K.warm(obj)
        for nm2, kw2 in others[:2]:
            obj.deform(nm2, **kw2)
            K.warm(obj)
        obj.deform(name, **kw)

        def derived(c):
            out = {'H': K.dense(c.stabilizer_matrix), 'Lx': K.dense(c.logicals_x), 'Lz': K.dense(c.logicals_z),
                   'n': c.n, 'k': c.k, 'd': int(c.d), 'x_indices': [bool(b) for b in c.x_indices],
                   'z_indices': [bool(b) for b in c.z_indices], 'is_css': bool(c.is_css)}
            if c.is_css:
                out['Hx'] = K.dense(c.Hx)
                out['Hz'] = K.dense(c.Hz)
            probe = np.random.default_rng(9).integers(0, 2, 2 * c.n).astype('uint8')
            out['syndrome(probe)'] = [int(x) for x in c.measure_syndrome(probe)]
            out['effect(probe)'] = [int(x) for x in c.logical_errors(probe)]
            return out
        da, db = derived(obj), derived(d1)
        for key in db:
            if da.get(key) != db[key]:
                return (f'after use + deform on one object, {key} differs from a freshly deformed code '
                        '(result of deform depends on earlier deform calls / property accesses)')
    except Exception as e:  # noqa
        return f'raised {type(e).__name__}: {e}'
    return None


def oracle(ctx, deep=False, broken=None):
    cases = [{'class': cls, 'size': list(size), 'deform': [d[0], d[1]]} for cls, size, d in code_set(ctx)]
    if deep:
        for cls in K.CLASSES:
            defs = K.deformations(cls)[1:]
            for size in K.all_sizes(cls, 4 if K.dimension(cls) == 2 else 3, n_max=200):
                for d in defs:
                    c = {'class': cls, 'size': list(size), 'deform': [d[0], d[1]]}
                    if c not in cases:
                        cases.append(c)
    # one noise-model object across classes (default kwargs: every class applies its own default axis)
    import panqec.codes as _C
    byname = {}
    for cls in K.CLASSES:
        for nm in getattr(_C, cls).deformation_names:
            sz = (K.all_sizes(cls, 2, n_max=60) or K.all_sizes(cls, 3, n_max=120) or K.all_sizes(cls, 4, n_max=200))
            if sz:
                byname.setdefault(nm, []).append([cls, list(sz[-1])])
    for nm, seq in byname.items():
        if len(seq) >= 2:
            for order in (seq, seq[::-1]):
                cases.append({'kind': 'shared-noise', 'class': 'several', 'size': [], 'deform': [nm, {}],
                              'sequence': order})
    fails = first_failures(cases, check_case, key=lambda c: {'class': c['class'], 'deform': c['deform'][0]})
    return fails, {'evaluations': len(cases)}


def replay(ctx, payload):
    return check_case(payload['input']) is not None
