"""C02 - the parity-check matrix is the faithful image of the lattice definition."""
from __future__ import annotations

import itertools
import json
import os
import subprocess
import sys

import numpy as np

from harness import codes as K
from harness.core import Stream, REPO
from harness.util import vec, stack, guarded, first_failures

ID = 'C02'
LEVEL = 'proof'
LEVEL_TEXT = ('Lean theorems for every well-formed code specification (library or user-defined, any number of '
              'coordinates, any X/Y/Z supports): the two assembly loops of the code (sparse-dict accumulation for '
              'stabilizer_matrix, += on an array for to_bsf) equal the declarative BSF image; to_bsf/from_bsf are '
              'mutually inverse; for CSS matrices the X/Z row masks partition the rows, Hx/Hz are the blocks and the '
              'X-(Z-)part of a syndrome depends only on the Z-(X-)part of the error. The model is tied to '
              '_stabilizer_code.py by differential runs on all library classes (index order) and on randomly '
              'generated user-defined subclasses; hash-seed independence of indexing is a runtime test.')
LEVEL_NOTE = ('trusted: Lean kernel + standard axioms; correspondence harness; Python dict insertion order and scipy '
              'dok/csr semantics as modelled; coordinate distinctness of the library classes is proved for all sizes for the '
              'hand-modelled classes (theorem wf of Properties/C01<Class>.lean, incl. the three 2-D colour codes and Color3DCode whose qubit lists '
              'are derived from the stabilizer supports, and HollowRhombicCode) and checked on instances for the others; interpreter hash randomisation is exercised by subprocess runs with '
              'different PYTHONHASHSEED (a test, the model has no hash-dependent construct)')
TECHNIQUE = 'Lean 4 proof (list induction) + differential correspondence with the compiled model driver'
TRUSTED = ['scipy dok->csr conversion and csr slicing/indexing semantics',
           'hash-seed independence is tested in subprocesses, not proved']
ASSUMPTIONS = ['operators are Python dicts (distinct keys); qubit coordinates are distinct (checked)']

PAULI = 'IXYZ'


def cstr(c):
    return '.'.join(str(int(x)) for x in c)


def coords_str(cs):
    cs = list(cs)
    return ';'.join(cstr(c) for c in cs) if cs else '_'


def op_str(op, sort=False):
    items = list(op.items())
    if sort:
        items.sort()
    return ';'.join(f'{cstr(k)}:{v}' for k, v in items) if items else '-'


def sort_op_string(op, out):
    """dict equality is order-free: compare from_bsf results as sorted entry lists"""
    if not op.startswith('frombsf') or out in ('-', 'bad-op'):
        return out

    def key(t):
        c, p = t.split(':')
        return (tuple(int(x) for x in c.split('.')), p)
    return ';'.join(sorted(out.split(';'), key=key))


def ops_str(ops):
    ops = list(ops)
    return '|'.join(op_str(o) for o in ops) if ops else '_'


def code_cases(ctx):
    """(label, code object) over library classes x sizes x deformations."""
    rng = ctx.np_rng(21)
    out = []
    for cls in K.CLASSES:
        max_l = (4 if ctx.thorough else 3) if K.dimension(cls) == 2 else (3 if ctx.thorough else 2)
        if cls in ('RhombicToricCode', 'Color3DCode'):
            # even sides only: the smallest lattice, and lattices whose sides differ pairwise in every position
            # (a period / bound taken from the wrong axis shows only when L_x, L_y, L_z differ)
            sizes = K.all_sizes(cls, 2) + [(4, 2, 2), (2, 2, 4)]
            if ctx.thorough:
                sizes += [(2, 4, 2), (4, 4, 2), (2, 4, 6) if cls == 'RhombicToricCode' else (2, 4, 4)]
        elif cls == 'HollowRhombicCode':
            sizes = K.all_sizes(cls, 4 if ctx.thorough else 3, n_max=120)
        else:
            sizes = K.all_sizes(cls, max_l, n_max=160)
            if not sizes:
                sizes = K.all_sizes(cls, max_l + 1, n_max=160)
        # rectangular included; subsample in the quick tier
        if cls not in ('RhombicToricCode', 'Color3DCode') and not ctx.thorough and len(sizes) > 6:
            idx = sorted(rng.choice(len(sizes), 6, replace=False))
            sizes = [sizes[i] for i in idx]
        for size in sizes:
            for deform in K.deformations(cls):
                out.append((f'{cls}{size}/{K.deform_tag(deform)}', cls, size, deform))
    return out


def make_user_code(rng, dim=None):
    """A randomly generated user-defined StabilizerCode subclass instance."""
    from panqec.codes import StabilizerCode
    dim = dim or int(rng.integers(1, 5))
    n = int(rng.integers(1, 9))
    m = int(rng.integers(1, 7))
    pts = set()
    while len(pts) < n + m:
        pts.add(tuple(int(x) for x in rng.integers(-3, 6 if dim > 1 else 40, dim)))
    pts = list(pts)
    rng.shuffle(pts)
    qubits, stabs = pts[:n], pts[n:]
    css = rng.random() < 0.5
    ops = {}
    for s in stabs:
        w = int(rng.integers(1, n + 1))
        sup = [qubits[i] for i in rng.choice(n, w, replace=False)]
        if css:
            p = 'XZ'[int(rng.integers(0, 2))]
            ops[s] = {q: p for q in sup}
        else:
            ops[s] = {q: 'XYZ'[int(rng.integers(0, 3))] for q in sup}
    lx = [{qubits[int(rng.integers(0, n))]: 'X'}]
    lz = [{qubits[int(rng.integers(0, n))]: 'Z'}]

    class UserCode(StabilizerCode):
        dimension = 2
        label = 'user'

        def get_qubit_coordinates(self):
            return list(qubits)

        def get_stabilizer_coordinates(self):
            return list(stabs)

        def qubit_axis(self, location):
            return 'x'

        def stabilizer_type(self, location):
            return 'vertex'

        def get_stabilizer(self, location):
            return dict(ops[location])

        def get_logicals_x(self):
            return [dict(o) for o in lx]

        def get_logicals_z(self):
            return [dict(o) for o in lz]

    return UserCode(1, 1), {'qubits': qubits, 'stabs': stabs,
                            'ops': [[list(k), v] for s in stabs for k, v in ops[s].items()]}


def shuffled_csr(v, rng, stored_zeros=False):
    """1 x len(v) csr row holding v with its column indices in random order; with stored_zeros some
    positions where v is 0 are stored explicitly with the value 0 (what `(H[i] + H[j])` followed by
    `.data %= 2` produces) -- the same vector, another legitimate sparse representation"""
    from scipy.sparse import csr_matrix
    cols = [i for i, x in enumerate(v) if x]
    data = [1] * len(cols)
    if stored_zeros:
        zeros = [i for i, x in enumerate(v) if not x]
        rng.shuffle(zeros)
        extra = zeros[:max(1, min(len(zeros), 1 + len(v) // 4))]
        cols += extra
        data += [0] * len(extra)
    perm = list(range(len(cols)))
    rng.shuffle(perm)
    cols = [cols[i] for i in perm]
    data = [data[i] for i in perm]
    return csr_matrix((np.array(data, dtype='uint8'), np.array(cols, dtype=int), np.array([0, len(cols)])),
                      shape=(1, len(v)))


def add_code_streams(s_asm: Stream, s_conv: Stream, s_css: Stream, label, code, rng, tag, n_rows=6):
    qs = coords_str(code.qubit_coordinates)
    stab_ops = [code.get_stabilizer(loc) for loc in code.stabilizer_coordinates]
    H = guarded(lambda: stack(K.dense(code.stabilizer_matrix)) if code.n_stabilizers else '_')
    s_asm.add(f'hmat {qs} {ops_str(stab_ops)}', H, {'code': label, 'what': 'stabilizer_matrix'}, tag=tag)
    s_asm.add(f'hmatspec {qs} {ops_str(stab_ops)}', H, {'code': label, 'what': 'stabilizer_matrix(spec)'},
              tag=tag)
    m = code.n_stabilizers
    rows = list(range(m)) if m <= n_rows else sorted(rng.choice(m, n_rows, replace=False))
    Hd = K.dense(code.stabilizer_matrix) if m else []
    for i in rows:
        op = stab_ops[i]
        s_conv.add(f'tobsf {qs} {op_str(op)}', guarded(lambda: vec(code.to_bsf(op))),
                   {'code': label, 'stabilizer': i, 'what': 'to_bsf'}, tag=tag)
        row = Hd[i]
        s_conv.add(f'frombsf {qs} {vec(row)}', guarded(lambda: op_str(code.from_bsf(np.array(row)), sort=True)),
                   {'code': label, 'stabilizer': i, 'what': 'from_bsf dense'}, tag=tag)
        s_conv.add(f'frombsf {qs} {vec(row)}',
                   guarded(lambda: op_str(code.from_bsf(code.stabilizer_matrix[i]), sort=True)),
                   {'code': label, 'stabilizer': i, 'what': 'from_bsf sparse row'}, tag=tag)
    for nm, getter, mat in (('X', code.get_logicals_x, 'logicals_x'), ('Z', code.get_logicals_z, 'logicals_z')):
        lops = getter()
        L = K.dense(getattr(code, mat))
        for i, op in enumerate(lops[:3]):
            s_conv.add(f'tobsf {qs} {op_str(op)}', vec(L[i]), {'code': label, 'logical': nm, 'i': i}, tag=tag)
    # random error vectors through from_bsf
    for _ in range(2):
        v = [int(x) for x in rng.integers(0, 2, 2 * code.n)]
        s_conv.add(f'frombsf {qs} {vec(v)}', guarded(lambda: op_str(code.from_bsf(np.array(v)), sort=True)),
                   {'code': label, 'what': 'from_bsf random', 'bsf': v}, tag=tag)
        s_conv.add(f'frombsf {qs} {vec(v)}',
                   guarded(lambda: op_str(code.from_bsf(shuffled_csr(v, rng)), sort=True)),
                   {'code': label, 'what': 'from_bsf sparse row with unsorted indices', 'bsf': v}, tag=tag)
        s_conv.add(f'frombsf {qs} {vec(v)}',
                   guarded(lambda: op_str(code.from_bsf(shuffled_csr(v, rng, stored_zeros=True)), sort=True)),
                   {'code': label, 'what': 'from_bsf sparse row with explicitly stored zeros', 'bsf': v}, tag=tag)
    # CSS structure
    if m:
        Hs = stack(Hd)
        s_css.add(f'set H {Hs}', 'ok', nontrivial=False)
        xi = guarded(lambda: ''.join('1' if b else '0' for b in code.x_indices))
        zi = guarded(lambda: ''.join('1' if b else '0' for b in code.z_indices))
        css = guarded(lambda: '1' if code.is_css else '0')
        s_css.add('css $H', f'{xi} {zi} {css}', {'code': label, 'what': 'x_indices z_indices is_css'}, tag=tag)

        def hx():
            try:
                a = K.dense(code.Hx)
                return stack(a)
            except ValueError:
                return 'ERR notcss'

        def hz():
            try:
                a = K.dense(code.Hz)
                return stack(a)
            except ValueError:
                return 'ERR notcss'
        s_css.add('hx $H', guarded(hx), {'code': label, 'what': 'Hx'}, tag=tag)
        s_css.add('hz $H', guarded(hz), {'code': label, 'what': 'Hz'}, tag=tag)
        e = np.array([int(x) for x in rng.integers(0, 2, 2 * code.n)], dtype='uint8')
        synd = guarded(lambda: vec(code.measure_syndrome(e)))
        s_css.add(f'synd $H {vec(e)}', synd, {'code': label, 'what': 'measure_syndrome', 'error': vec(e)}, tag=tag)
        sy = code.measure_syndrome(e)
        s_css.add(f'extract x $H {vec(sy)}', guarded(lambda: vec(code.extract_x_syndrome(sy))),
                  {'code': label, 'what': 'extract_x_syndrome'}, tag=tag)
        s_css.add(f'extract z $H {vec(sy)}', guarded(lambda: vec(code.extract_z_syndrome(sy))),
                  {'code': label, 'what': 'extract_z_syndrome'}, tag=tag)


def correspondence(ctx):
    rng = ctx.np_rng(22)
    s_asm, s_conv, s_css = Stream('assembly-H'), Stream('to_bsf-from_bsf', post=sort_op_string), Stream('css-blocks-syndrome')
    for label, cls, size, deform in code_cases(ctx):
        try:
            code = K.build(cls, size, deform)
        except Exception as e:  # noqa
            s_asm.add('bad-op-construct', f'EXC:{type(e).__name__}', {'code': label}, tag='construct-fail')
            continue
        add_code_streams(s_asm, s_conv, s_css, label, code, rng, cls)
    s_user_a, s_user_c, s_user_s = Stream('user-assembly-H'), Stream('user-to_bsf-from_bsf', post=sort_op_string), Stream('user-css')
    for i in range(120 if ctx.thorough else 40):
        code, desc = make_user_code(rng)
        add_code_streams(s_user_a, s_user_c, s_user_s, f'user#{i}:{json.dumps(desc)}', code, rng, 'user')
    # malformed: operator naming a coordinate that is not a qubit -> KeyError
    s_bad = Stream('malformed-operator')
    from panqec.codes import Toric2DCode
    c = Toric2DCode(2, 2)
    qs = coords_str(c.qubit_coordinates)
    for bad in ({(0, 0): 'X'}, {(1, 0): 'X', (9, 9): 'Z'}, {(1, 0): 'Y', (1, 1): 'X'}):
        s_bad.add(f'tobsf {qs} {op_str(bad)}', guarded(lambda: vec(c.to_bsf(bad)), {'KeyError': 'ERR key'}),
                  {'what': 'to_bsf with a non-qubit key', 'op': op_str(bad)}, tag='keyerror')
    return [s.run() for s in (s_asm, s_conv, s_css, s_user_a, s_user_c, s_user_s, s_bad)]


# ------------------------------------------------------------------ oracle

def bsf_image(code, op):
    n = code.n
    idx = {loc: i for i, loc in enumerate(code.qubit_coordinates)}
    v = [0] * (2 * n)
    for loc, p in op.items():
        if p in 'XY':
            v[idx[loc]] ^= 1
        if p in 'YZ':
            v[n + idx[loc]] ^= 1
    return v


def check_code(code, label, rng, library=True):
    """statement of C02 on one code; returns failure message or None"""
    try:
        qs = [tuple(int(x) for x in q) for q in code.qubit_coordinates]
        ss = [tuple(int(x) for x in q) for q in code.stabilizer_coordinates]
        if len(set(qs)) != len(qs):
            return 'qubit coordinates not distinct'
        if len(set(ss)) != len(ss):
            return 'stabilizer coordinates not distinct'
        if set(qs) & set(ss):
            return f'qubit and stabilizer coordinates overlap at {sorted(set(qs) & set(ss))[:3]}'
        n = code.n
        H = K.dense(code.stabilizer_matrix) if code.n_stabilizers else []
        if len(H) != len(ss):
            return 'number of rows != number of stabilizer coordinates'
        for i, loc in enumerate(code.stabilizer_coordinates):
            op = code.get_stabilizer(loc)
            if not op:
                return f'stabilizer {i} at {loc} is empty'
            if any(k not in set(code.qubit_coordinates) for k in op):
                return f'stabilizer {i} acts outside the qubit set'
            want = bsf_image(code, op)
            if H[i] != want:
                return f'row {i} of H differs from the BSF image of get_stabilizer({loc})'
            if [int(x) for x in code.to_bsf(op)] != want:
                return f'to_bsf(get_stabilizer({loc})) is not its BSF image'
            back = code.from_bsf(np.array(want))
            if dict(back) != dict(op):
                return f'from_bsf(to_bsf(op)) != op for stabilizer {i}'
        for _ in range(3):
            v = [int(x) for x in rng.integers(0, 2, 2 * n)]
            op = code.from_bsf(np.array(v))
            if [int(x) for x in code.to_bsf(op)] != v:
                return f'to_bsf(from_bsf(v)) != v for v={vec(v)}'
            op2 = code.from_bsf(shuffled_csr(v, rng))
            if dict(op2) != dict(op):
                return f'from_bsf of a sparse row (unsorted column indices) differs from from_bsf of the dense vector v={vec(v)}'
            op3 = code.from_bsf(shuffled_csr(v, rng, stored_zeros=True))
            if dict(op3) != dict(op):
                return f'from_bsf of a sparse row with explicitly stored zeros differs from from_bsf of the dense vector v={vec(v)}'
        if H:
            Ha = np.array(H)
            xr = [any(r[:n]) for r in H]
            zr = [any(r[n:]) for r in H]
            css = not any(a and b for a, b in zip(xr, zr))
            if bool(code.is_css) != css:
                return 'is_css wrong'
            if css:
                if [bool(b) for b in code.x_indices] != xr or [bool(b) for b in code.z_indices] != zr:
                    return 'x/z row masks wrong'
                if any((a == b) for a, b in zip(xr, zr)):
                    return 'X/Z row masks do not partition the rows'
                if K.dense(code.Hx) != [r[:n] for r, f in zip(H, xr) if f]:
                    return 'Hx is not the X block of the X rows'
                if K.dense(code.Hz) != [r[n:] for r, f in zip(H, zr) if f]:
                    return 'Hz is not the Z block of the Z rows'
                e1 = rng.integers(0, 2, 2 * n).astype('uint8')
                e2 = e1.copy()
                e2[:n] = rng.integers(0, 2, n)        # change only the X part of the error
                s1, s2 = code.measure_syndrome(e1), code.measure_syndrome(e2)
                if list(code.extract_x_syndrome(s1)) != list(code.extract_x_syndrome(s2)):
                    return 'X-part of the syndrome changed when only the X-part of the error changed'
                e3 = e1.copy()
                e3[n:] = rng.integers(0, 2, n)
                s3 = code.measure_syndrome(e3)
                if list(code.extract_z_syndrome(s1)) != list(code.extract_z_syndrome(s3)):
                    return 'Z-part of the syndrome changed when only the Z-part of the error changed'
    except Exception as e:  # noqa
        return f'raised {type(e).__name__}: {e}'
    return None


HASH_DUMP = r'''
import sys, json, hashlib
sys.path.insert(0, sys.argv[1])
import panqec.codes as C
out = []
for cls, size in json.loads(sys.argv[2]):
    code = getattr(C, cls)(*size)
    h = hashlib.sha256()
    h.update(repr(code.qubit_coordinates).encode())
    h.update(repr(code.stabilizer_coordinates).encode())
    h.update(repr(sorted(code.qubit_index.items(), key=lambda kv: kv[1])).encode())
    h.update(code.stabilizer_matrix.toarray().tobytes())
    h.update(code.logicals_x.tobytes()); h.update(code.logicals_z.tobytes())
    h.update(repr([code.stabilizer_type(l) for l in code.stabilizer_coordinates]).encode())
    out.append(h.hexdigest())
print(json.dumps(out))
'''


def hash_seed_test(ctx):
    """indexing identical in processes with different hash seeds (runtime test)"""
    cases = []
    for cls in K.CLASSES:
        sizes = K.all_sizes(cls, 2) or K.all_sizes(cls, 3) or K.all_sizes(cls, 4)
        cases.append([cls, list(sizes[-1])])
    res = []
    for seed in ('0', '1', '12345') + (('random', '7') if ctx.thorough else ()):
        env = dict(os.environ, PYTHONHASHSEED=seed)
        p = subprocess.run([sys.executable, '-c', HASH_DUMP, str(REPO), json.dumps(cases)],
                           capture_output=True, text=True, env=env, timeout=600)
        if p.returncode != 0:
            return [{'input': {'kind': 'hashseed', 'seed': seed}, 'observed': 'subprocess failed: ' + p.stderr[-400:],
                     'match': {'kind': 'hashseed'}}], 0
        res.append(json.loads(p.stdout))
    fails = []
    for i, (cls, size) in enumerate(cases):
        if len({r[i] for r in res}) != 1:
            fails.append({'input': {'kind': 'hashseed', 'class': cls, 'size': size},
                          'observed': 'indexing/matrices differ between PYTHONHASHSEED values',
                          'match': {'kind': 'hashseed', 'class': cls}})
    return fails, len(cases) * len(res)


def oracle(ctx, deep=False, broken=None):
    rng = ctx.np_rng(23)
    cases = []
    for label, cls, size, deform in code_cases(ctx):
        cases.append({'kind': 'library', 'class': cls, 'size': list(size),
                      'deform': [deform[0], deform[1]]})
    if deep:
        for cls in K.CLASSES:
            extra = K.all_sizes(cls, 4 if K.dimension(cls) == 2 else 3, n_max=250)
            for size in extra:
                c = {'kind': 'library', 'class': cls, 'size': list(size), 'deform': [None, {}]}
                if c not in cases:
                    cases.append(c)

    for c in list(cases):
        if c['deform'][0] is not None and rng.random() < (1.0 if deep else 0.35):
            cases.append(dict(c, reuse=True))

    def chk(c):
        try:
            code = K.build(c['class'], tuple(c['size']), (c['deform'][0], c['deform'][1]), reuse=bool(c.get('reuse')))
        except Exception as e:  # noqa
            return f'construction raised {type(e).__name__}: {e}'
        return check_code(code, str(c), np.random.default_rng(1))
    fails = first_failures(cases, chk, key=lambda c: {'kind': 'library', 'class': c['class'],
                                                      'reuse': bool(c.get('reuse'))})
    n = len(cases)
    # user-defined codes
    for i in range(60 if deep else 25):
        code, desc = make_user_code(rng)
        msg = check_code(code, 'user', rng, library=False)
        n += 1
        if msg:
            fails.append({'input': {'kind': 'user', 'spec': desc}, 'observed': msg, 'match': {'kind': 'user'}})
            break
    hf, hn = hash_seed_test(ctx)
    fails.extend(hf)
    return fails, {'evaluations': n + hn, 'hash_seed_runs': hn}


def replay(ctx, payload):
    c = payload['input']
    if c.get('kind') == 'library':
        try:
            code = K.build(c['class'], tuple(c['size']), (c['deform'][0], c['deform'][1]), reuse=bool(c.get('reuse')))
        except Exception:
            return True
        return check_code(code, str(c), np.random.default_rng(1)) is not None
    if c.get('kind') == 'hashseed':
        return bool(hash_seed_test(ctx)[0])
    return True
