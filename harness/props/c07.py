"""C07 - Pauli noise model is the stated i.i.d. channel and is sampled faithfully."""
from __future__ import annotations

import itertools
import math
import warnings
from fractions import Fraction
from unittest import mock

import numpy as np

from harness import core
from harness.core import Stream
from harness.util import vec, guarded, first_failures

ID = 'C07'
LEVEL = 'proof'
LEVEL_TEXT = ('Lean theorems over the rationals for every error rate p in [0,1], every direction on the simplex '
              '(faces and vertices included), every per-qubit deformation dict that is a permutation, every value of '
              'the uniform variate and every number of qubits: the per-qubit distribution is (1-p, p r_x, p r_y, p r_z) '
              'permuted as the code permutes it, non-negative, sums to 1; the pre-image of each Pauli under fast_choice '
              'is the half-open interval of exactly its probability (p=0 always I, p=1 never I); generate() is the '
              'qubit-wise image in BSF; X-/Z-flip events are intervals of length px+py / pz+py; the numbers given to '
              'PyMatching and ldpc are those marginals ([z|x] order for non-CSS), update_probabilities is the '
              'conditional probability, weight > 0 iff marginal < 1/2. The model is tied to the code by exact '
              'differential runs on dyadic inputs with a stub RNG and boundary spies.')
LEVEL_NOTE = ('trusted: Lean kernel + standard axioms; correspondence harness; float arithmetic is exact on the dyadic '
              'inputs used and assumed correctly rounded elsewhere; eps=1e-20 in get_weights is modelled as 0 and np.log '
              'as a strictly increasing function (weights are compared through their odds ratio); PyMatching and ldpc '
              'are spied at their boundary, not verified; numpy Generator.random() is modelled as an arbitrary value in [0,1)')
TECHNIQUE = ('Lean 4 proof (linear arithmetic over Rat, induction over qubit lists) + differential correspondence with the '
             'compiled model driver: stub RNG through the public rng= parameter, mock spies on pymatching.Matching and '
             'ldpc.BpOsdDecoder')
TRUSTED = ['IEEE-754 double arithmetic: exact on the dyadic grids used by the correspondence; for other inputs the '
           'theorems hold for the real-number channel and the implementation is within rounding of it',
           'get_weights: eps = 1e-20 treated as 0; np.log strictly increasing',
           'numpy.random.Generator.random() returns a value in [0,1) (the theorems quantify over all of them)']
ASSUMPTIONS = ['0 <= p <= 1, r_x, r_y, r_z >= 0, r_x + r_y + r_z = 1 (the constructor only checks the sum with np.isclose)',
               'the dict returned by code.get_deformation is a permutation of {X,Y,Z} (true for every library code; '
               'a dict with an image outside X,Y,Z raises KeyError in the code and in the model)']
ANCHOR_FILES = ['panqec/error_models/_pauli_error_model.py', 'panqec/error_models/_base_error_model.py',
                'panqec/bpauli.py', 'panqec/decoders/belief_propagation/bposd_decoder.py',
                'panqec/decoders/matching/_matching_decoder.py']

# ------------------------------------------------------------------ shared helpers (also used by c18)

LETTERS = 'IXYZ'


def fr(x) -> Fraction:
    """exact value of a float / int / Fraction"""
    if isinstance(x, Fraction):
        return x
    return Fraction(float(x))


def rs(q) -> str:
    q = fr(q)
    return f'{q.numerator}/{q.denominator}'


def rlist(xs) -> str:
    xs = list(xs)
    return ','.join(rs(x) for x in xs) if xs else '-'


def parse_rat(tok: str) -> Fraction:
    a, b = tok.split('/')
    return Fraction(int(a), int(b))


# code classes x sizes used by the generators: (quick sizes, extra thorough sizes)
CODE_SIZES = {
    'Toric2DCode': ([(2, 2), (3, 2)], [(4, 3)]),
    'Planar2DCode': ([(1, 1), (2, 3)], [(3, 3)]),
    'RotatedPlanar2DCode': ([(2, 2), (3, 2)], [(4, 4)]),
    'Color666ToricCode': ([(2, 2)], [(4, 4)]),
    'Color488Code': ([(2, 2)], [(4, 4)]),
    'Toric3DCode': ([(2, 2, 2)], [(3, 2, 2)]),
    'Planar3DCode': ([(1, 1, 1), (2, 2, 1)], [(2, 2, 2)]),
    'RotatedPlanar3DCode': ([(2, 2, 2)], [(3, 2, 2)]),
    'RotatedToric3DCode': ([(2, 2, 1)], [(2, 2, 2)]),
    'RhombicToricCode': ([(2, 2, 2)], []),
    'RhombicPlanarCode': ([(2, 2, 1)], [(2, 2, 2)]),
    'HollowRhombicCode': ([(2, 2, 3)], []),
    'XCubeCode': ([(2, 2, 2)], [(3, 2, 2)]),
}

MATCHING_CODES = ('Toric2DCode', 'Planar2DCode', 'RotatedPlanar2DCode')  # MatchingDecoder.allowed_codes

CYCLES = [{'X': 'Y', 'Y': 'Z', 'Z': 'X'}, {'X': 'Z', 'Y': 'X', 'Z': 'Y'},
          {'X': 'X', 'Y': 'Y', 'Z': 'Z'}, {'X': 'Y', 'Y': 'X', 'Z': 'Z'}]


def make_code(name, size):
    """Library classes by name; 'Cyc3' / 'BadI' / 'NonPerm' are user-defined subclasses of
    Toric2DCode whose get_deformation returns 3-cycles / an image 'I' / a non-injective dict
    (the public extension point the error model calls)."""
    import panqec.codes as C
    if name in ('Cyc3', 'BadI', 'NonPerm'):
        base = C.Toric2DCode

        class Custom(base):  # type: ignore
            deformation_names = ['CUSTOM']

            def get_deformation(self, location, deformation_name, **kwargs):
                x, y = location
                k = (x + 2 * y) % 4
                if name == 'Cyc3':
                    return dict(CYCLES[k])
                if name == 'BadI':
                    return {'X': 'X', 'Y': 'I' if k == 1 else 'Y', 'Z': 'Z'}
                return {'X': 'Z', 'Y': 'Z', 'Z': 'X' if k % 2 else 'Z'}
        Custom.__name__ = name
        return Custom(*size)
    return getattr(C, name)(*size)


def deformation_options(name):
    """[(deformation_name, kwargs)] a class offers (None = undeformed noise)."""
    import inspect
    import panqec.codes as C
    if name in ('Cyc3', 'BadI', 'NonPerm'):
        return [('CUSTOM', {})]
    cls = getattr(C, name)
    opts = [(None, {})]
    has_axis = 'deformation_axis' in inspect.signature(cls.get_deformation).parameters
    for dn in cls.deformation_names:
        opts.append((dn, {}))
        if has_axis:
            for ax in 'xyz'[:cls.dimension]:
                opts.append((dn, {'deformation_axis': ax}))
    return opts


def make_model(r, dname=None, dkw=None):
    from panqec.error_models import PauliErrorModel
    rx, ry, rz = (float(fr(x)) for x in r)
    return PauliErrorModel(rx, ry, rz, deformation_name=dname, deformation_kwargs=dict(dkw) if dkw else None)


def deformation_words(code, dname, dkw):
    """per-qubit dicts obtained exactly as probability_distribution obtains them -> three-letter words;
    None when the model has no deformation name"""
    if dname is None:
        return None
    words = []
    for i in range(code.n):
        d = code.get_deformation(code.qubit_coordinates[i], dname, **(dkw or {}))
        words.append(str(d['X']) + str(d['Y']) + str(d['Z']))
    return words


def chan_tokens(p, r, n, words) -> str:
    d = '-' if words is None else (','.join(words) if words else '_')
    return f'{rs(p)} {rs(r[0])} {rs(r[1])} {rs(r[2])} {n} {d}'


def simplex_grid(den):
    return [(Fraction(a, den), Fraction(b, den), Fraction(den - a - b, den))
            for a in range(den + 1) for b in range(den + 1 - a)]


def p_grid(den):
    return [Fraction(k, den) for k in range(den + 1)]


def stated_dist(p, r, word):
    """The property's statement, independent of the implementation: (1-p, p rx, p ry, p rz), the
    probability of sigma on a deformed qubit being the undeformed probability of D(sigma)."""
    p = fr(p)
    base = {'I': 1 - p, 'X': p * fr(r[0]), 'Y': p * fr(r[1]), 'Z': p * fr(r[2])}
    if word is None:
        return base
    D = dict(zip('XYZ', word))
    return {'I': base['I'], 'X': base[D['X']], 'Y': base[D['Y']], 'Z': base[D['Z']]}


def cum_intervals(d):
    """half-open u-intervals [lo, hi) of I, X, Y, Z in this order"""
    out = {}
    lo = Fraction(0)
    for s in LETTERS:
        out[s] = (lo, lo + d[s])
        lo += d[s]
    return out


class StubMismatch(Exception):
    """the implementation asked the scripted generator for something the script does not provide (another
    method, more variates): the sampling MECHANISM differs from one-uniform-per-qubit inverse-CDF sampling.
    Not a violation by itself -- the distribution is what the property fixes; see kind 'sample-stat'."""


class StubRng:
    """stands in for numpy.random.Generator: .random() returns the scripted values in order
    (.random(k) returns the next k as an array, so a vectorised refactoring still works)"""

    def __init__(self, us):
        self.us = [float(u) for u in us]
        self.k = 0

    def random(self, size=None, *a, **kw):
        if size is None:
            if self.k >= len(self.us):
                raise StubMismatch('more variates requested than one per qubit')
            u = self.us[self.k]
            self.k += 1
            return u
        m = int(np.prod(size))
        if self.k + m > len(self.us):
            raise StubMismatch('more variates requested than one per qubit')
        out = np.array(self.us[self.k:self.k + m], dtype=float).reshape(size)
        self.k += m
        return out

    def __getattr__(self, name):
        raise StubMismatch(f'Generator.{name} requested')


def edge_us(d, rng, n_extra=2):
    """interesting variates for one qubit: interval end-points, their float neighbours, 0,
    the largest double below 1 and a few dyadic interior points"""
    iv = cum_intervals(d)
    pts = {Fraction(0)}
    for s in LETTERS:
        pts.add(iv[s][0])
        pts.add(iv[s][1])
    out = set()
    for q in pts:
        f = float(q)
        for g in (f, math.nextafter(f, 0.0), math.nextafter(f, 2.0)):
            if 0.0 <= g < 1.0:
                out.add(g)
    out.add(math.nextafter(1.0, 0.0))
    for _ in range(n_extra):
        out.add(int(rng.integers(0, 1024)) / 1024)
    return sorted(out)


def two_pass(ops, impl_objs, canon):
    """Canonicalise implementation answers that are floats obtained through log/division:
    run the model first, then echo the model's token wherever the implementation's float agrees
    with it under the stated rule, and print the float otherwise."""
    outs = core.driver(ops)
    return [guarded(lambda o=o, m=m: canon(m, o)) for o, m in zip(impl_objs, outs)]


def weight_token(model_tok, w):
    """matching weight w = -log((P+eps)/(1-P+eps)) against the model's odds P/(1-P)"""
    w = float(w)
    if model_tok == 'inf':
        return 'inf' if w < -40 else repr(w)
    q = parse_rat(model_tok)
    if q == 0:
        return model_tok if w > 40 else repr(w)
    sign_ok = (w > 0) == (q < 1) and (w == 0) == (q == 1)
    close = abs(math.exp(-w) - float(q)) <= 1e-9 * float(q)
    return model_tok if (sign_ok and close) else repr(w)


def weights_canon(model_line, wpair):
    if '|' not in model_line:
        return 'impl-weights ' + repr([list(map(float, w)) for w in wpair])
    mx, mz = model_line.split('|')
    res = []
    for mtoks, w in ((mx, wpair[0]), (mz, wpair[1])):
        toks = [] if mtoks == '-' else mtoks.split(',')
        w = list(np.asarray(w, dtype=float).reshape(-1))
        if len(toks) != len(w):
            res.append(f'len{len(w)}')
            continue
        res.append(','.join(weight_token(t, x) for t, x in zip(toks, w)) if w else '-')
    return '|'.join(res)


def round_token(model_tok, x):
    """float obtained by one correctly rounded division of exact operands"""
    x = float(x)
    if math.isnan(x):
        return 'nan'
    if math.isinf(x):
        return 'inf' if x > 0 else '-inf'
    if model_tok in ('nan', 'inf', '-inf'):
        return rs(x)
    q = parse_rat(model_tok)
    return model_tok if float(q) == x else rs(x)


def round_tokens(model_toks, xs):
    xs = list(np.asarray(xs, dtype=float).reshape(-1))
    toks = [] if model_toks == '-' else model_toks.split(',')
    if len(toks) != len(xs):
        return rlist(xs) if all(math.isfinite(v) for v in xs) else repr(xs)
    return ','.join(round_token(t, x) for t, x in zip(toks, xs)) if xs else '-'


def same_matrix(a, b):
    try:
        return a.shape == b.shape and (a != b).nnz == 0
    except Exception:  # noqa
        return False


# ------------------------------------------------------------------ implementation observers

def impl_dist(code, em, p):
    pi, px, py, pz = em.probability_distribution(code, float(fr(p)))
    if not (len(pi) == len(px) == len(py) == len(pz) == code.n):
        return f'lengths {len(pi)},{len(px)},{len(py)},{len(pz)}'
    if code.n == 0:
        return '-'
    return ';'.join(','.join(rs(v[i]) for v in (pi, px, py, pz)) for i in range(code.n))


def impl_generate(code, em, p, us):
    rng = StubRng(us)
    e = em.generate(code, float(fr(p)), rng=rng)
    e = np.asarray(e)
    if e.ndim != 1:
        return f'shape {e.shape}'
    return vec([int(x) for x in e])


def spy_matching(code, em, p, error_type):
    """what MatchingDecoder.__init__ passes to pymatching.Matching: [(sector, weights)]"""
    from panqec.decoders import MatchingDecoder
    import panqec.decoders.matching._matching_decoder as mod
    with mock.patch.object(mod, 'Matching') as M:
        MatchingDecoder(code, em, float(fr(p)), error_type=error_type)
        calls = []
        for c in M.call_args_list:
            H = c.args[0] if c.args else c.kwargs.get('H', c.kwargs.get('graph'))
            w = c.kwargs.get('spacelike_weights', c.kwargs.get('weights'))
            if w is None and len(c.args) > 1:
                w = c.args[1]
            sect = 'Hz' if same_matrix(H, code.Hz) else ('Hx' if same_matrix(H, code.Hx) else '?')
            calls.append((sect, None if w is None else np.array(w, dtype=float)))
    return calls


def matching_canon(model_line, calls):
    mparts = model_line.split(';') if model_line else []
    out = []
    for k, (sect, w) in enumerate(calls):
        mt = mparts[k].split(':', 1)[1] if k < len(mparts) and ':' in mparts[k] else ''
        if w is None:
            out.append(f'{sect}:None')
            continue
        toks = [] if mt in ('', '-') else mt.split(',')
        w = list(w.reshape(-1))
        if len(toks) != len(w):
            out.append(f'{sect}:len{len(w)}')
        else:
            out.append(f'{sect}:' + (','.join(weight_token(t, x) for t, x in zip(toks, w)) if w else '-'))
    return ';'.join(out)


class BpSpy:
    """fake ldpc.BpOsdDecoder: records update_channel_probs / decode, returns scripted decodings"""

    def __init__(self, code, css, script):
        self.code = code
        self.css = css
        self.script = script
        self.log = []
        outer = self

        class Fake:
            def __init__(self, H, *a, **kw):
                self.H = H
                self.kw = kw

            def label(self):
                if outer.css:
                    if same_matrix(self.H, outer.code.Hz):
                        return 'x'
                    if same_matrix(self.H, outer.code.Hx):
                        return 'z'
                    return '?'
                return 'joint' if same_matrix(self.H, outer.code.stabilizer_matrix) else '?'

            def update_channel_probs(self, probs):
                outer.log.append(('upd', self.label(), np.array(probs, dtype=float, copy=True)))

            def decode(self, syndrome):
                outer.log.append(('dec', self.label(), None))
                return np.array(outer.script[self.label()], dtype=np.uint8)
        self.Fake = Fake


def spy_bposd(code, em, p, channel_update, script):
    from panqec.decoders import BeliefPropagationOSDDecoder
    import panqec.decoders.belief_propagation.bposd_decoder as mod
    css = bool(code.is_css)
    spy = BpSpy(code, css, script)
    with mock.patch.object(mod, 'BpOsdDecoder', spy.Fake), np.errstate(all='ignore'), warnings.catch_warnings():
        warnings.simplefilter('ignore')
        dec = BeliefPropagationOSDDecoder(code, em, float(fr(p)), channel_update=channel_update)
        syn = np.zeros(code.stabilizer_matrix.shape[0], dtype=np.uint8)
        corr = dec.decode(syn)
    return spy.log, [int(x) for x in np.asarray(corr).reshape(-1)]


def bposd_canon(model_line, obs):
    log, corr = obs
    mcalls = model_line.split(' -> ')[0].split(';') if ' -> ' in model_line else []
    out = []
    for k, (kind, lab, probs) in enumerate(log):
        if kind == 'dec':
            out.append(f'dec.{lab}')
            continue
        mt = ''
        if k < len(mcalls) and mcalls[k].startswith('upd.') and ':' in mcalls[k]:
            mt = mcalls[k].split(':', 1)[1]
        out.append(f'upd.{lab}:' + round_tokens(mt, probs))
    return ';'.join(out) + ' -> ' + vec(corr)


def impl_update(code, em, p, direction, corr, px, py, pz):
    from panqec.decoders import BeliefPropagationOSDDecoder
    dec = BeliefPropagationOSDDecoder(code, em, float(fr(p)))
    with np.errstate(all='ignore'), warnings.catch_warnings():
        warnings.simplefilter('ignore')
        return dec.update_probabilities(np.array(corr, dtype=np.uint8), np.array(px, dtype=float),
                                        np.array(py, dtype=float), np.array(pz, dtype=float),
                                        direction=direction)


# ------------------------------------------------------------------ generators

def code_list(ctx, extra=()):
    out = []
    for name, (quick, more) in CODE_SIZES.items():
        for size in quick + (more if ctx.thorough else []):
            out.append((name, size))
    out.extend(extra)
    return out


def channel_samples(ctx, rng, k):
    """k dyadic channels, always including the corner cases"""
    P = p_grid(16)
    R = simplex_grid(8)
    fixed = [(Fraction(0), R[7]), (Fraction(1), R[11]), (Fraction(1, 2), (Fraction(1), Fraction(0), Fraction(0))),
             (Fraction(1, 4), (Fraction(0), Fraction(1), Fraction(0))), (Fraction(3, 4), (Fraction(0), Fraction(0), Fraction(1))),
             (Fraction(1, 2), (Fraction(1, 2), Fraction(0), Fraction(1, 2))), (Fraction(1), (Fraction(1, 2), Fraction(1, 2), Fraction(0)))]
    out = [fixed[int(i)] for i in rng.choice(len(fixed), min(2, k), replace=False)]
    # "all error rates": the sub-threshold regime (rates far below 1/16) and rates next to 1, still dyadic
    extreme = [Fraction(1, 32), Fraction(1, 64), Fraction(3, 128), Fraction(1, 1024), Fraction(63, 64),
               Fraction(1023, 1024)]
    if len(out) < k:
        out.append((extreme[int(rng.integers(len(extreme)))], R[int(rng.integers(len(R)))]))
    while len(out) < k:
        out.append((P[int(rng.integers(len(P)))], R[int(rng.integers(len(R)))]))
    return out


def correspondence(ctx):
    from panqec.error_models._pauli_error_model import fast_choice
    rng = ctx.np_rng(7)
    streams = []
    codes = code_list(ctx, extra=[('Cyc3', (2, 2)), ('Cyc3', (3, 2))])
    kchan = 12 if ctx.thorough else 3

    # --- probability_distribution: every class x deformation name x axis
    s = Stream('probability_distribution')
    built = []
    for name, size in codes:
        code = make_code(name, size)
        for dname, dkw in deformation_options(name):
            try:
                words = deformation_words(code, dname, dkw)
            except Exception:  # axis not offered by this class
                continue
            built.append((name, size, code, dname, dkw, words))
            for p, r in channel_samples(ctx, rng, kchan):
                em = make_model(r, dname, dkw)
                ans = guarded(lambda: impl_dist(code, em, p), {'KeyError': 'ERR KeyError'})
                s.add(f'n.dist {chan_tokens(p, r, code.n, words)}', ans,
                      {'code': name, 'size': size, 'deformation': dname, 'kwargs': dkw, 'p': rs(p), 'r': [rs(x) for x in r]},
                      nontrivial=(p != 0), tag=f'{name}:{dname}')
    # exhaustive small grid on one undeformed and one three-cycle code
    for name, size in (('Toric2DCode', (2, 2)), ('Cyc3', (2, 2))):
        code = make_code(name, size)
        dname, dkw = deformation_options(name)[-1]
        words = deformation_words(code, dname, dkw)
        for r in simplex_grid(4 if not ctx.thorough else 8):
            em = make_model(r, dname, dkw)   # one model object for all rates: the cache must key on the rate
            for p in p_grid(8 if not ctx.thorough else 16):
                ans = guarded(lambda: impl_dist(code, em, p), {'KeyError': 'ERR KeyError'})
                s.add(f'n.dist {chan_tokens(p, r, code.n, words)}', ans,
                      {'code': name, 'size': size, 'deformation': dname, 'kwargs': dkw, 'p': rs(p), 'r': [rs(x) for x in r]},
                      nontrivial=(p != 0), tag='grid')
    streams.append(s.run())

    # --- fast_choice directly (including vectors that do not sum to one: last-option fallback)
    s = Stream('fast_choice')
    vecs = []
    for p, r in channel_samples(ctx, rng, 40 if ctx.thorough else 16):
        vecs.append([1 - p, p * r[0], p * r[1], p * r[2]])
    for _ in range(12):
        vecs.append([Fraction(int(rng.integers(0, 5)), 16) for _ in range(4)])  # sums below/above 1
    for pv in vecs:
        d = dict(zip(LETTERS, pv))
        for u in edge_us(d, rng):
            ans = guarded(lambda: str(fast_choice(('I', 'X', 'Y', 'Z'), [float(x) for x in pv], rng=StubRng([u]))))
            s.add(f'n.choice {rs(u)} ' + ' '.join(rs(x) for x in pv), ans,
                  {'probs': [rs(x) for x in pv], 'u': rs(u)}, tag='edge')
    streams.append(s.run())

    # --- generate(): stub RNG through the public rng= parameter
    s = Stream('generate')
    reps = 10 if ctx.thorough else 2
    for name, size, code, dname, dkw, words in built:
        if code.n > 60 and not ctx.thorough:
            continue
        for p, r in channel_samples(ctx, rng, reps):
            em = make_model(r, dname, dkw)
            us = []
            for i in range(code.n):
                d = stated_dist(p, r, None if words is None else words[i])
                cand = edge_us(d, rng)
                us.append(cand[int(rng.integers(len(cand)))])
            ans = guarded(lambda: impl_generate(code, em, p, us))
            s.add(f'n.gen {chan_tokens(p, r, code.n, words)} {rlist(us)}', ans,
                  {'code': name, 'size': size, 'deformation': dname, 'kwargs': dkw, 'p': rs(p), 'r': [rs(x) for x in r],
                   'us': [rs(u) for u in us]}, nontrivial=(p != 0), tag=f'{name}:{dname}')
    streams.append(s.run())

    # --- get_weights and what MatchingDecoder hands to pymatching
    s = Stream('weights-and-matching')
    ops, objs, inps, tags, canons = [], [], [], [], []
    for name, size, code, dname, dkw, words in built:
        if code.n > 60:
            continue
        for p, r in channel_samples(ctx, rng, reps):
            em = make_model(r, dname, dkw)
            inp = {'code': name, 'size': size, 'deformation': dname, 'kwargs': dkw, 'p': rs(p), 'r': [rs(x) for x in r]}
            with np.errstate(all='ignore'):
                w = guarded(lambda: em.get_weights(code, float(fr(p))))
            ops.append(f'n.weights {chan_tokens(p, r, code.n, words)}')
            objs.append(w)
            canons.append(weights_canon)
            inps.append(dict(inp, fn='get_weights'))
            tags.append('get_weights')
            if name in MATCHING_CODES and not same_matrix(code.Hx, code.Hz):
                for et in (None, 'X', 'Z'):
                    with np.errstate(all='ignore'):
                        calls = guarded(lambda: spy_matching(code, em, p, et))
                    ops.append(f'n.match {et} {chan_tokens(p, r, code.n, words)}')
                    objs.append(calls)
                    canons.append(matching_canon)
                    inps.append(dict(inp, fn='MatchingDecoder', error_type=et))
                    tags.append(f'matching:{et}')
    outs = core.driver(ops)
    for op, o, m, inp, tag, canon in zip(ops, objs, outs, inps, tags, canons):
        ans = o if isinstance(o, str) else guarded(lambda: canon(m, o))
        s.add(op, ans, inp, tag=tag)
    streams.append(s.run())

    # --- BP-OSD: priors, conditional update, [z|x] ordering
    s = Stream('bposd-priors')
    ops, objs, inps, tags, canons = [], [], [], [], []
    bp_codes = [('Toric2DCode', (2, 2), None), ('Planar2DCode', (2, 2), None), ('Toric2DCode', (2, 2), 'XZZX'),
                ('Planar2DCode', (2, 2), 'XY'), ('Toric3DCode', (2, 2, 2), None)]
    if ctx.thorough:
        bp_codes += [('RotatedPlanar2DCode', (3, 3), None), ('Toric3DCode', (2, 2, 2), 'XZZX'),
                     ('XCubeCode', (2, 2, 2), None), ('RotatedPlanar3DCode', (2, 2, 2), None)]
    for name, size, code_def in bp_codes:
        code = make_code(name, size)
        if code_def is not None:
            code.deform(code_def)
        css = bool(code.is_css)
        n = code.n
        if css and same_matrix(code.Hx, code.Hz):
            continue   # self-dual code: the spy could not tell the X decoder from the Z decoder
        for dname, dkw in deformation_options(name)[:3]:
            words = deformation_words(code, dname, dkw)
            for p, r in channel_samples(ctx, rng, reps + 1):
                em = make_model(r, dname, dkw)
                inp = {'code': name, 'size': size, 'code_deformation': code_def, 'deformation': dname, 'kwargs': dkw,
                       'p': rs(p), 'r': [rs(x) for x in r]}
                if css:
                    for cu in (False, True):
                        zc = [int(x) for x in rng.integers(0, 2, n)]
                        xc = [int(x) for x in rng.integers(0, 2, n)]
                        obs = guarded(lambda: spy_bposd(code, em, p, cu, {'x': xc, 'z': zc, '?': [0] * n}))
                        ops.append(f'n.bpcss {int(cu)} {chan_tokens(p, r, n, words)} {vec(zc)} {vec(xc)}')
                        objs.append(obs)
                        canons.append(bposd_canon)
                        inps.append(dict(inp, channel_update=cu, z_correction=zc, x_correction=xc))
                        tags.append(f'css:update={int(cu)}')
                else:
                    c = [int(x) for x in rng.integers(0, 2, 2 * n)]
                    obs = guarded(lambda: spy_bposd(code, em, p, False, {'joint': c, '?': [0] * (2 * n)}))
                    ops.append(f'n.bpnon {chan_tokens(p, r, n, words)} {vec(c)}')
                    objs.append(obs)
                    canons.append(bposd_canon)
                    inps.append(dict(inp, decoding=c))
                    tags.append('noncss')
    # update_probabilities called directly with arbitrary dyadic arrays (both directions, guards)
    code = make_code('Toric2DCode', (2, 2))
    em0 = make_model((1, 0, 0))
    vals = [Fraction(0), Fraction(1, 8), Fraction(1, 4), Fraction(3, 8), Fraction(1, 2), Fraction(1)]
    for _ in range(120 if ctx.thorough else 40):
        m = int(rng.integers(1, 7))
        corr = [int(x) for x in rng.choice([0, 1, 1, 0, 2], m)]
        px, py, pz = ([vals[int(i)] for i in rng.integers(0, len(vals), m)] for _ in range(3))
        for direction in ('z->x', 'x->z', 'x->y'):
            if direction == 'x->y' and rng.random() < 0.8:
                continue
            res = guarded(lambda: impl_update(code, em0, Fraction(1, 8), direction, corr, px, py, pz),
                          {'ValueError': 'ERR direction', 'IndexError': 'ERR IndexError'})
            ops.append(f'n.upd {direction} {vec(corr)} {rlist(px)} {rlist(py)} {rlist(pz)}')
            objs.append(res)
            canons.append(round_tokens)
            inps.append({'fn': 'update_probabilities', 'direction': direction, 'correction': corr,
                         'px': [rs(x) for x in px], 'py': [rs(x) for x in py], 'pz': [rs(x) for x in pz]})
            tags.append(f'update:{direction}')
    outs = core.driver(ops)
    for op, o, m, inp, tag, canon in zip(ops, objs, outs, inps, tags, canons):
        ans = o if isinstance(o, str) else guarded(lambda: canon(m, o))
        s.add(op, ans, inp, tag=tag)
    streams.append(s.run())

    # --- dicts the code cannot use / non-permutations
    s = Stream('deformation-malformed')
    for name in ('BadI', 'NonPerm'):
        code = make_code(name, (2, 2))
        words = deformation_words(code, 'CUSTOM', {})
        for p, r in channel_samples(ctx, rng, 3):
            em = make_model(r, 'CUSTOM', {})
            ans = guarded(lambda: impl_dist(code, em, p), {'KeyError': 'ERR KeyError'})
            s.add(f'n.dist {chan_tokens(p, r, code.n, words)}', ans,
                  {'code': name, 'size': (2, 2), 'deformation': 'CUSTOM', 'p': rs(p), 'r': [rs(x) for x in r]}, tag=name)
    streams.append(s.run())
    return streams


# ------------------------------------------------------------------ oracle: the statement, on the implementation

def case_objects(case):
    code = make_code(case['code'], tuple(case['size']))
    if case.get('code_deformation'):
        code.deform(case['code_deformation'])
    dname, dkw = case.get('deformation'), case.get('kwargs') or {}
    p = parse_rat(case['p'])
    r = tuple(parse_rat(x) for x in case['r'])
    em = make_model(r, dname, dkw)
    words = deformation_words(code, dname, dkw)
    dists = [stated_dist(p, r, None if words is None else words[i]) for i in range(code.n)]
    return code, em, p, r, dists


TAIL = 1e-10   # two-sided binomial tail below which an observed frequency contradicts the stated probability


def sampling_statistics(code, em, pf, dists, N, seed):
    """N errors drawn with a real numpy Generator (whatever mechanism generate() uses); per qubit the
    count of every letter, and for neighbouring qubits the count of `both faulty`, must be compatible
    with the stated channel: exact binomial tail probability >= TAIL (about 6.5 sigma).  With a few
    thousand comparisons per run the chance of a false alarm is below 1e-6."""
    from scipy.stats import binom
    n = code.n
    rng = np.random.default_rng(seed)
    cnt = np.zeros((n, 4), dtype=np.int64)
    both = np.zeros(max(n - 1, 0), dtype=np.int64)
    for _ in range(N):
        e = np.asarray(em.generate(code, pf, rng=rng))
        if e.shape != (2 * n,):
            return f'generate returned shape {e.shape}, expected ({2 * n},)'
        x, z = e[:n].astype(np.int64), e[n:].astype(np.int64)
        if ((x | z) > 1).any() or (x < 0).any() or (z < 0).any():
            return 'generate returned a non-binary vector'
        idx = x + 2 * z               # I=0 X=1 Z=2 Y=3
        cnt[np.arange(n), idx] += 1
        f = idx != 0
        both += (f[:-1] & f[1:])
    col = {'I': 0, 'X': 1, 'Z': 2, 'Y': 3}

    def tail(k, q):
        q = float(q)
        if q <= 0:
            return 1.0 if k == 0 else 0.0
        if q >= 1:
            return 1.0 if k == N else 0.0
        return min(1.0, 2 * min(binom.cdf(k, N, q), binom.sf(k - 1, N, q)))

    for i in range(n):
        for s_ in LETTERS:
            k = int(cnt[i, col[s_]])
            t = tail(k, dists[i][s_])
            if t < TAIL:
                return (f'qubit {i}: {s_} sampled {k} times in {N} (frequency {k / N:.5f}), stated probability '
                        f'{float(dists[i][s_]):.5f} (binomial tail {t:.1e})')
    for i in range(n - 1):
        q = (1 - dists[i]['I']) * (1 - dists[i + 1]['I'])
        t = tail(int(both[i]), q)
        if t < TAIL:
            return (f'qubits {i},{i + 1} both faulty {int(both[i])} times in {N}, independent draws give '
                    f'probability {float(q):.6f} (binomial tail {t:.1e})')
    return None


def _check_siblings(case):
    """Several model OBJECTS (same class; same direction up to the 4 decimals a label prints, same deformation
    name, different deformation kwargs) and several code OBJECTS (same class, equal n, another shape) live in
    one process and are queried one after the other, every model on every code: each answer must be the stated
    distribution of THAT model on THAT code -- whatever was asked before (caches keyed too coarsely)."""
    p = parse_rat(case['p'])
    pf = float(p)
    codes = [make_code(case['code'], tuple(sz)) for sz in case['sizes']]
    models = []
    for m in case['models']:
        r = tuple(parse_rat(x) for x in m['r'])
        models.append((r, m.get('deformation'), m.get('kwargs') or {}, make_model(r, m.get('deformation'), m.get('kwargs') or {})))
    for rnd in range(2):                       # second round: everything is cached by now
        for mi, (r, dname, dkw, em) in enumerate(models):
            for ci, code in enumerate(codes):
                words = deformation_words(code, dname, dkw)
                arrs = em.probability_distribution(code, pf)
                for i in range(code.n):
                    want = stated_dist(p, r, None if words is None else words[i])
                    got = {s_: fr(arrs[k][i]) for k, s_ in enumerate(LETTERS)}
                    if got != want:
                        return (f'round {rnd}, model {mi} (r={[rs(x) for x in r]}, {dname} {dkw}) on code {ci} '
                                f'{case["code"]}{tuple(case["sizes"][ci])}, qubit {i}: distribution '
                                f'{ {k: str(v) for k, v in got.items()} } is not the stated '
                                f'{ {k: str(v) for k, v in want.items()} }')
    return None


def check_case(case):
    """None if the property holds on this input, else a description of the violation."""
    try:
        return _check_case(case)
    except Exception as e:  # noqa
        return f'raised {type(e).__name__}: {e}'


def _check_case(case):
    kind = case['kind']
    if kind == 'update':
        return _check_update(case)
    if kind == 'choice':
        # fast_choice on an explicit weight vector: the letter whose cumulative interval contains u;
        # a variate beyond the total (only possible through rounding slack or unnormalised weights)
        # goes to the last option
        from panqec.error_models._pauli_error_model import fast_choice
        pv = [parse_rat(t) for t in case['probs']]
        u = parse_rat(case['u'])
        got = fast_choice(('I', 'X', 'Y', 'Z'), [float(x) for x in pv], rng=StubRng([float(u)]))
        iv = cum_intervals(dict(zip(LETTERS, pv)))
        want = [t for t in LETTERS if iv[t][0] <= u < iv[t][1]]
        want = want[0] if want else 'Z'
        return None if got == want else f'fast_choice returned {got} for u={u}, weights {case["probs"]}: expected {want}'
    if kind == 'dist-siblings':
        return _check_siblings(case)
    code, em, p, r, dists = case_objects(case)
    n = code.n
    pf = float(p)
    if kind == 'dist':
        arrs = em.probability_distribution(code, pf)
        if len(arrs) != 4 or any(len(a) != n for a in arrs):
            return 'probability_distribution does not return four arrays of length n'
        for i in range(n):
            got = {s: fr(arrs[k][i]) for k, s in enumerate(LETTERS)}
            if any(v < 0 for v in got.values()):
                return f'negative probability on qubit {i}: {got}'
            if sum(got.values()) != 1:
                return f'probabilities of qubit {i} sum to {sum(got.values())}'
            if got != dists[i]:
                return f'qubit {i}: distribution { {k: str(v) for k, v in got.items()} } is not the stated ' \
                       f'{ {k: str(v) for k, v in dists[i].items()} }'
        return None
    if kind == 'dist-after-use':
        # the distribution must still be the stated one after the model has been USED on the same
        # (model, code, rate): weights, sampling, probabilities of errors, decoder construction/decoding
        em.probability_distribution(code, pf)
        em.get_weights(code, pf)
        em.generate(code, pf, rng=np.random.default_rng(3))
        try:
            em.error_probability(np.zeros(2 * n, dtype='uint8'), code, pf)
            em.error_probability(np.ones(2 * n, dtype='uint8'), code, pf, log_output=True)
        except Exception:  # noqa
            pass
        if code.is_css:
            try:
                from panqec.decoders import MatchingDecoder, BeliefPropagationOSDDecoder
                if case['code'] in MATCHING_CODES:
                    MatchingDecoder(code, em, pf).decode(np.zeros(code.n_stabilizers, dtype='uint8'))
                BeliefPropagationOSDDecoder(code, em, pf, channel_update=True, max_bp_iter=5).decode(
                    np.zeros(code.n_stabilizers, dtype='uint8'))
            except Exception:  # noqa
                pass
        em.get_weights(code, pf)
        arrs = em.probability_distribution(code, pf)
        for i in range(n):
            got = {s_: fr(arrs[k][i]) for k, s_ in enumerate(LETTERS)}
            if got != dists[i]:
                return (f'after get_weights / generate / error_probability / decoders on the same (model, code, rate), '
                        f'qubit {i} has { {k: str(v) for k, v in got.items()} }, stated '
                        f'{ {k: str(v) for k, v in dists[i].items()} }')
        return None
    if kind == 'dist-sequence':
        # one model object asked for several error rates in a row (results are cached by the code)
        for ps in case['rates']:
            pq = parse_rat(ps)
            arrs = em.probability_distribution(code, float(pq))
            words = deformation_words(code, case.get('deformation'), case.get('kwargs') or {})
            for i in range(n):
                want = stated_dist(pq, r, None if words is None else words[i])
                got = {s_: fr(arrs[k][i]) for k, s_ in enumerate(LETTERS)}
                if got != want:
                    return f'rate {ps} asked after {case["rates"][:case["rates"].index(ps)]}: qubit {i} has ' \
                           f'{ {k: str(v) for k, v in got.items()} }, stated { {k: str(v) for k, v in want.items()} }'
        return None
    if kind == 'sample':
        us = [float(parse_rat(u)) for u in case['us']]
        stub = StubRng(us)
        try:
            e = np.asarray(em.generate(code, pf, rng=stub))
        except StubMismatch:
            # another sampling mechanism: the scripted variates say nothing; a real generator instead
            e = np.asarray(em.generate(code, pf, rng=np.random.default_rng(len(us))))
            stub = None
        if e.shape != (2 * n,):
            return f'generate returned shape {e.shape}, expected ({2 * n},)'
        if not all(int(v) in (0, 1) for v in e):
            return 'generate returned a non-binary vector'
        for i in range(n):
            got = {(0, 0): 'I', (1, 0): 'X', (1, 1): 'Y', (0, 1): 'Z'}[(int(e[i]), int(e[n + i]))]
            if dists[i][got] == 0:
                return f'qubit {i}: sampled {got}, which the stated channel gives probability 0'
        if p == 0 and e.any():
            return 'p = 0 produced an error'
        if p == 1 and any(int(e[i]) == 0 and int(e[n + i]) == 0 for i in range(n)):
            return 'p = 1 left a qubit without error'
        return None
    if kind == 'sample-stat':
        return sampling_statistics(code, em, pf, dists, case['N'], case['seed'])
    if kind == 'weights':
        with np.errstate(all='ignore'):
            wx, wz = em.get_weights(code, pf)
        for lab, w, marg in (('x', wx, [d['X'] + d['Y'] for d in dists]), ('z', wz, [d['Z'] + d['Y'] for d in dists])):
            if len(w) != n:
                return f'weights_{lab} has length {len(w)}'
            for i in range(n):
                msg = llr_mismatch(float(w[i]), marg[i])
                if msg:
                    return f'weights_{lab}[{i}] {msg}'
        return None
    if kind == 'matching':
        with np.errstate(all='ignore'):
            calls = spy_matching(code, em, p, case.get('error_type'))
        want = {'Hz': [d['X'] + d['Y'] for d in dists], 'Hx': [d['Z'] + d['Y'] for d in dists]}
        expect_sectors = {None: ['Hz', 'Hx'], 'X': ['Hz'], 'Z': ['Hx']}[case.get('error_type')]
        if sorted(c[0] for c in calls) != sorted(expect_sectors):
            return f'matchers built on {[c[0] for c in calls]}, expected {expect_sectors}'
        for sect, w in calls:
            if w is None or len(w) != n:
                return f'matcher on {sect} got no per-qubit weights'
            for i in range(n):
                msg = llr_mismatch(float(w[i]), want[sect][i])
                if msg:
                    return f'matcher on {sect}, qubit {i}: {msg}'
        return None
    if kind == 'bposd':
        css = bool(code.is_css)
        xm = [d['X'] + d['Y'] for d in dists]
        zm = [d['Z'] + d['Y'] for d in dists]
        if css:
            zc, xc = case['z_correction'], case['x_correction']
            log, corr = spy_bposd(code, em, p, case['channel_update'], {'x': xc, 'z': zc, '?': [0] * n})
            ups = [(lab, [fr(v) if math.isfinite(v) else v for v in pr]) for k, lab, pr in log if k == 'upd']
            if len(ups) < 2 or ('x', xm) not in ups[:2] or ('z', zm) not in ups[:2]:
                return 'the X decoder (built on Hz) / Z decoder (built on Hx) did not receive the X-flip / Z-flip marginals'
            if case['channel_update']:
                if len(ups) != 3 or ups[2][0] != 'x':
                    return 'no conditional update of the X decoder'
                for i in range(n):
                    d = dists[i]
                    if zc[i] == 1:
                        want = d['Y'] / (d['Z'] + d['Y']) if d['Z'] + d['Y'] != 0 else Fraction(0)
                    elif d['I'] + d['X'] != 0:
                        want = d['X'] / (d['I'] + d['X'])
                    else:
                        continue  # conditioning on a null event
                    got = ups[2][1][i]
                    if not (isinstance(got, Fraction) and abs(got - want) <= Fraction(1, 10 ** 12)):
                        return f'updated prior of qubit {i} is {got}, P(x-flip | z-flip={zc[i]}) = {want}'
            if corr != list(xc) + list(zc):
                return 'returned correction is not [x_correction | z_correction]'
        else:
            c = case['decoding']
            log, corr = spy_bposd(code, em, p, False, {'joint': c, '?': [0] * (2 * n)})
            ups = [(lab, [fr(v) for v in pr]) for k, lab, pr in log if k == 'upd']
            if ups != [('joint', zm + xm)]:
                return 'non-CSS decoder did not receive [z-marginals | x-marginals]'
            if corr != list(c[n:]) + list(c[:n]):
                return 'non-CSS decoding not re-ordered to [x | z]'
        return None
    return f'unknown kind {kind}'


def _check_update(case):
    """update_probabilities(correction, px, py, pz, direction) on explicit per-qubit distributions:
    entry i must be P(other flip | decoded flip = correction[i])"""
    code = make_code('Toric2DCode', (2, 2))
    em = make_model((1, 0, 0))
    ds = [[parse_rat(t) for t in q] for q in case['dists']]      # (pI, pX, pY, pZ) per qubit
    corr = case['correction']
    px, py, pz = ([d[k] for d in ds] for k in (1, 2, 3))
    got = impl_update(code, em, Fraction(1, 8), case['direction'], corr, px, py, pz)
    if len(got) != len(corr):
        return f'result has length {len(got)}'
    for i, d in enumerate(ds):
        pI, pX, pY, pZ = d
        if case['direction'] == 'z->x':
            joint, marg = ((pY, pZ + pY) if corr[i] == 1 else (pX, pI + pX))
        else:
            joint, marg = ((pY, pX + pY) if corr[i] == 1 else (pZ, pI + pZ))
        if marg == 0:
            if corr[i] == 1 and float(got[i]) != 0.0:
                return f'entry {i} is {got[i]!r} after conditioning on a flip of probability 0 (code keeps 0)'
            continue
        want = joint / marg
        if not (math.isfinite(float(got[i])) and abs(fr(got[i]) - want) <= Fraction(1, 10 ** 12)):
            return f'entry {i} is {float(got[i])!r}, conditional probability given flip={corr[i]} is {want}'
    return None


def llr_mismatch(w, P):
    """weight must be -log(P/(1-P)) (up to the 1e-20 regulariser): sign and value"""
    if P == 1:
        return None if w < -40 else f'= {w!r} for marginal 1'
    if P == 0:
        return None if w > 40 else f'= {w!r} for marginal 0'
    odds = P / (1 - P)
    if (w > 0) != (P < Fraction(1, 2)) or (w == 0) != (P == Fraction(1, 2)):
        return f'= {w!r} has the wrong sign for marginal {P}'
    if abs(math.exp(-w) - float(odds)) > 1e-9 * float(odds):
        return f'= {w!r}, expected -log({odds})'
    return None


def oracle_cases(ctx, deep):
    rng = ctx.np_rng(17)
    cases = []
    names = [('Toric2DCode', (2, 2)), ('Planar2DCode', (2, 2)), ('RotatedPlanar2DCode', (2, 2)), ('Cyc3', (2, 2)),
             ('Toric3DCode', (2, 2, 2)), ('XCubeCode', (2, 2, 2)), ('Color666ToricCode', (2, 2))]
    if deep:
        names += [(nm, sz[0][0]) for nm, sz in CODE_SIZES.items() if (nm, sz[0][0]) not in names]
    kch = 12 if deep else 4
    P16 = p_grid(16)
    for name, size in names:
        code = make_code(name, size)
        for dname, dkw in deformation_options(name):
            try:
                words = deformation_words(code, dname, dkw)
            except Exception:  # noqa
                continue
            for p, r in channel_samples(ctx, rng, kch):
                base = {'code': name, 'size': list(size), 'deformation': dname, 'kwargs': dkw, 'p': rs(p),
                        'r': [rs(x) for x in r]}
                cases.append(dict(base, kind='dist'))
                if len(cases) % 3 == 1:
                    p2 = P16[int(rng.integers(len(P16)))]
                    cases.append(dict(base, kind='dist-sequence', rates=[rs(p), rs(p2), rs(p)]))
                for _ in range(3 if deep else 1):
                    us = []
                    for i in range(code.n):
                        cand = edge_us(stated_dist(p, r, None if words is None else words[i]), rng)
                        us.append(cand[int(rng.integers(len(cand)))])
                    cases.append(dict(base, kind='sample', us=[rs(u) for u in us]))
                cases.append(dict(base, kind='weights'))
                if len(cases) % 4 == 0 or deep:
                    cases.append(dict(base, kind='dist-after-use'))
                if name in MATCHING_CODES and not same_matrix(code.Hx, code.Hz):
                    for et in (None, 'X', 'Z'):
                        cases.append(dict(base, kind='matching', error_type=et))
                if name in ('Toric2DCode', 'Planar2DCode') and not same_matrix(code.Hx, code.Hz):
                    n = code.n
                    for cu in (False, True):
                        cases.append(dict(base, kind='bposd', channel_update=cu,
                                          z_correction=[int(x) for x in rng.integers(0, 2, n)],
                                          x_correction=[int(x) for x in rng.integers(0, 2, n)]))
                    if dname is not None:  # XZZX-deformed code objects are not CSS: joint decoder
                        cases.append(dict(base, kind='bposd', code_deformation='XZZX',
                                          decoding=[int(x) for x in rng.integers(0, 2, 2 * n)]))
    # sibling objects in one process (coarse cache keys: label without kwargs / 4 decimals, class name + n)
    sib = [('RotatedPlanar2DCode', [(2, 3), (3, 2)]), ('Toric2DCode', [(2, 3), (3, 2)]),
           ('Toric3DCode', [(2, 2, 3), (3, 2, 2)])] + \
        ([('RotatedPlanar3DCode', [(2, 2, 3), (2, 3, 2)]), ('Planar2DCode', [(2, 3), (3, 2)]),
          ('XCubeCode', [(2, 2, 3), (2, 3, 2)])] if deep else [])
    for name, sizes in sib:
        opts = deformation_options(name)
        byname = {}
        for dname, dkw in opts:
            if dname is not None:
                byname.setdefault(dname, []).append(dkw)
        r = (Fraction(1, 8), Fraction(1, 8), Fraction(3, 4))
        r2 = (Fraction(1, 8) + Fraction(1, 2 ** 16), Fraction(1, 8), Fraction(3, 4) - Fraction(1, 2 ** 16))
        for dname, kws in byname.items():
            models = [{'r': [rs(x) for x in r], 'deformation': dname, 'kwargs': kw} for kw in kws]
            models.append({'r': [rs(x) for x in r2], 'deformation': dname, 'kwargs': kws[-1]})
            models.append({'r': [rs(x) for x in r], 'deformation': None, 'kwargs': {}})
            cases.append({'kind': 'dist-siblings', 'code': name, 'sizes': [list(x) for x in sizes], 'models': models,
                          'p': rs(Fraction(1, 4))})
    # statistics of real sampling (mechanism-free): biased directions, deformed and not, tiny to large rates
    stat_codes = [('Toric2DCode', (2, 2)), ('RotatedPlanar2DCode', (3, 3))] + \
        ([('Toric3DCode', (2, 2, 2)), ('RhombicToricCode', (2, 2, 2)), ('Color666ToricCode', (2, 2)),
          ('Planar2DCode', (3, 2))] if deep else [])
    stat_ch = [(Fraction(1, 32), (Fraction(1, 8), Fraction(1, 8), Fraction(3, 4))),
               (Fraction(1, 16), (Fraction(3, 4), Fraction(0), Fraction(1, 4))),
               (Fraction(1, 4), (Fraction(1, 2), Fraction(1, 4), Fraction(1, 4)))] + \
        ([(Fraction(1, 1024), (Fraction(1, 4), Fraction(1, 4), Fraction(1, 2))),
          (Fraction(3, 128), (Fraction(0), Fraction(0), Fraction(1))),
          (Fraction(1, 64), (Fraction(5, 8), Fraction(1, 4), Fraction(1, 8))),
          (Fraction(7, 8), (Fraction(1, 8), Fraction(5, 8), Fraction(1, 4))),
          (Fraction(1), (Fraction(1, 2), Fraction(1, 2), Fraction(0)))] if deep else [])
    for ci, (name, size) in enumerate(stat_codes):
        opts = deformation_options(name)
        for di, (dname, dkw) in enumerate(opts):
            if not deep and di not in (0, len(opts) - 1):
                continue
            for pi_, (p, r) in enumerate(stat_ch):
                if not deep and (ci + di + pi_) % 3 != 0:
                    continue
                if deep and di not in (0, len(opts) - 1) and (ci + di + pi_) % 4 != 0:
                    continue
                N = 60000 if p < Fraction(1, 256) else (20000 if deep else 8000)
                cases.append({'code': name, 'size': list(size), 'deformation': dname, 'kwargs': dkw, 'p': rs(p),
                              'r': [rs(x) for x in r], 'kind': 'sample-stat', 'N': N,
                              'seed': int(rng.integers(0, 2 ** 31))})
    for _ in range(40 if deep else 12):
        pv = [Fraction(int(rng.integers(0, 5)), 16) for _ in range(4)]
        for u in edge_us(dict(zip(LETTERS, pv)), rng):
            cases.append({'kind': 'choice', 'probs': [rs(x) for x in pv], 'u': rs(u)})
    for _ in range(60 if deep else 20):
        m = int(rng.integers(1, 6))
        ds = []
        for _q in range(m):
            p, r = channel_samples(ctx, rng, 3)[-1]
            d = stated_dist(p, r, ['XYZ', 'ZYX', 'YZX', 'XZY'][int(rng.integers(4))])
            ds.append([rs(d[t]) for t in LETTERS])
        for direction in ('z->x', 'x->z'):
            cases.append({'kind': 'update', 'direction': direction, 'dists': ds,
                          'correction': [int(x) for x in rng.integers(0, 2, m)]})
    return cases


def oracle(ctx, deep=False, broken=None):
    cases = oracle_cases(ctx, deep)
    fails = first_failures(cases, check_case,
                           key=lambda c: {'kind': c['kind'], 'deformed': c.get('deformation') is not None,
                                          'direction': c.get('direction')})
    return fails, {'evaluations': len(cases)}


def replay(ctx, payload):
    return check_case(payload['input']) is not None
