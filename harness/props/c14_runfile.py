"""C14, end of the pipeline: the task body `run_file` really executed (in-process, tiny codes), and the chain
run_parallel plan -> run_file per task -> merge-results -> Analysis.

Streams (model: lean/PanqecVerif/Model/RunFile.lean, ops in lean/Driver/OpsRunFile.lean):

* `run_file`          one op per call of the real `run_file(input.json, results file, n_trials, progress=<tqdm
                      subclass>, log_file=...)`; several calls in a row on the same results file (first call: no file;
                      later calls: the file the earlier call left, with fewer / equal / more trials, sometimes with a
                      changed specification), `.json` and `.json.gz`.  Compared: label, method, number and identity
                      numbers of the simulations, the text of the progress log, the range handed to `progress`, the
                      number of `run_once` calls, the temporary file, and the results document record by record
                      (recorded inputs, n_runs, lengths of the three result lists).
* `plan-run-merge`    a data directory with I input files, N nodes x C cores: `run_parallel` is invoked for every job
                      index with `multiprocessing.Process` replaced by an in-process executor (start() runs the task
                      body at once), then `merge-results` over the result files, then `Analysis(merged file)`:
                      the trials per (input, simulation) that the analysis reports vs the model's total.
"""
from __future__ import annotations

import contextlib
import copy
import glob as globmod
import io
import json
import os
import shutil
import tempfile
import types
import warnings
from unittest import mock

from harness.core import Stream

TINY_CODES = {'Toric2DCode': [(2, 2), (3, 2), (2, 3), (3, 3)],
              'Planar2DCode': [(2, 2), (3, 2), (2, 3)],
              'RotatedPlanar2DCode': [(2, 2), (3, 3)]}
DECODERS = {'MatchingDecoder': [{}, {'error_type': 'X'}],
            'BeliefPropagationOSDDecoder': [{'max_bp_iter': 5, 'osd_order': 0}, {'max_bp_iter': 10}, {}]}
DIRS = [(0.25, 0.25, 0.5), (1, 0, 0), (0, 0, 1), (0.5, 0.25, 0.25), (0.125, 0.125, 0.75)]
RATES = [0.0625, 0.125, 0.1875, 0.25, 0.1, 0.3]


@contextlib.contextmanager
def silence():
    with contextlib.redirect_stdout(io.StringIO()), contextlib.redirect_stderr(io.StringIO()), \
            warnings.catch_warnings():
        warnings.simplefilter('ignore')
        yield


# ------------------------------------------------------------------ canonical text

def rec_inputs_str(inp) -> str:
    """The recorded `inputs` of one record in the syntax of the model's `showSim`."""
    from harness.props.c13 import enc

    def blk(b):
        return b['name'] + enc(dict(sorted(b['parameters'].items())))
    return f"{blk(inp['code'])}|{blk(inp['error_model'])}|{blk(inp['decoder'])}|{enc(inp['error_rate'])}"


def ident_key(inp) -> str:
    """The harness' own identity of a record: every field of the recorded inputs."""
    from harness.props.c13 import enc
    return enc({k: inp[k] for k in sorted(inp)})


def record_relations(rec, codes_by_key) -> str:
    """C11's record relations on one record of the results file ('' = all hold)."""
    import numpy as np
    res, inp = rec['results'], rec['inputs']
    bad = []
    ee, su, cs = res.get('effective_error'), res.get('success'), res.get('codespace')
    if not (isinstance(ee, list) and isinstance(su, list) and isinstance(cs, list)):
        return 'lists-missing'
    k = inp['code'].get('k')
    for t in range(min(len(ee), len(su), len(cs))):
        row = np.array(ee[t])
        if row.shape != (2 * k,):
            bad.append('effective-error-width')
            break
        if bool(su[t]) != (bool(np.all(row == 0)) and bool(cs[t])):
            bad.append('success-flag')
            break
    if inp.get('method') != {'name': 'direct', 'parameters': {}}:
        bad.append('method')
    wt = res.get('wall_time')
    if not (isinstance(wt, (int, float)) and wt >= 0):
        bad.append('wall-time')
    ck = (inp['code']['name'], json.dumps(inp['code']['parameters'], sort_keys=True))
    if ck in codes_by_key:
        c = codes_by_key[ck]
        if (int(c.n), int(c.k), int(c.d)) != (inp['code']['n'], inp['code']['k'], inp['code']['d']):
            bad.append('code-nkd')
    else:
        bad.append('code-not-requested')
    return ','.join(bad)


def read_doc(path):
    from panqec.utils import load_json
    if not os.path.exists(path):
        return None
    return load_json(path)


def doc_text(doc, codes_by_key) -> str:
    if doc is None:
        return 'A'
    parts = []
    for rec in doc:
        res = rec['results']
        s = (f"{rec_inputs_str(rec['inputs'])}/{res['n_runs']}/{len(res['effective_error'])}/"
             f"{len(res['success'])}/{len(res['codespace'])}")
        rel = record_relations(rec, codes_by_key)
        if rel:
            s += f' BAD:{rel}'
        parts.append(s)
    return 'C[' + '&'.join(parts) + ']'


def expansion(spec, out_file):
    """(simulations' recorded inputs as the implementation builds them, code objects by key)."""
    from panqec.simulation import read_input_dict
    with silence():
        b = read_input_dict(copy.deepcopy(spec), out_file, verbose=False)
    inputs = [json.loads(json.dumps(s._inputs, default=_np_default)) for s in b._simulations]
    codes = {}
    for s in b._simulations:
        codes[(s.code.id, json.dumps(s.code.params, sort_keys=True))] = s.code
    return inputs, codes


def _np_default(o):
    import numpy as np
    if isinstance(o, np.integer):
        return int(o)
    if isinstance(o, np.floating):
        return float(o)
    if isinstance(o, np.bool_):
        return bool(o)
    raise TypeError(type(o).__name__)


def pre_text(doc, sim_inputs) -> str:
    """The results file before the call, in the numbering of the expansion of the current specification."""
    if doc is None:
        return 'A'
    keys = [ident_key(i) for i in sim_inputs]
    parts = []
    foreign = 0
    for rec in doc:
        k = ident_key(rec['inputs'])
        if k in keys:
            x = keys.index(k)
        else:
            x = len(keys) + foreign
            foreign += 1
        parts.append(f"{x}/{rec['results']['n_runs']}")
    return 'C[' + '|'.join(parts) + ']'


ERRMAP = {'KeyError': 'ERR key', 'TypeError': 'ERR type', 'UnboundLocalError': 'ERR unbound'}


def classify(e) -> str:
    name = type(e).__name__
    if name == 'ValueError' and ('empty' in str(e) and ('min' in str(e) or 'sequence' in str(e) or 'iterable' in str(e))):
        return 'ERR min-of-empty'
    if name == 'ValueError':
        return 'ERR value'
    if name in ('EOFError', 'BadGzipFile'):
        return 'ERR eof'
    return ERRMAP.get(name, f'EXC:{name}:{str(e)[:60]}')


class Workdir:
    def __init__(self):
        self.dir = tempfile.mkdtemp(prefix='verif_c14rf_')
        self.k = 0

    def close(self):
        shutil.rmtree(self.dir, ignore_errors=True)

    def fresh(self, ext):
        self.k += 1
        d = os.path.join(self.dir, f'case{self.k}')
        os.makedirs(d)
        return os.path.join(d, 'in.json'), os.path.join(d, 'out' + ext), os.path.join(d, 'progress.txt')


def call_run_file(spec, in_file, out_file, log_file, n_trials, plain_tqdm=False):
    """One real `run_file` call; returns (answer text, op line pieces, document after)."""
    from harness.props.c13 import enc, esc
    from panqec.simulation import run_file
    from panqec.simulation import _direct_simulation as ds
    from tqdm import tqdm

    with open(in_file, 'w') as f:
        json.dump(spec, f)
    if os.path.exists(log_file):
        os.remove(log_file)
    try:
        sim_inputs, codes = expansion(spec, out_file)
    except Exception:  # noqa: BLE001  (the call below reports it)
        sim_inputs, codes = [], {}
    before = read_doc(out_file)
    pre = pre_text(before, sim_inputs)
    fmt = 'g' if out_file.endswith('.gz') else 'j'
    op = f'runfile {fmt} {n_trials} {pre} {enc(spec)}'

    seen = []

    class RecTqdm(tqdm):
        """what run_parallel passes (`tqdm`), recording the iterable it is given"""

        def __init__(self, iterable=None, *a, **kw):
            seen.append(list(iterable))
            super().__init__(iterable, *a, **kw)

    calls = [0]
    real_run_once = ds.run_once

    def counting_run_once(*a, **kw):
        calls[0] += 1
        return real_run_once(*a, **kw)

    batch_box = {}
    from panqec.simulation import _batch_simulation as bsmod
    real_read = bsmod.read_input_json

    def recording_read(*a, **kw):
        b = real_read(*a, **kw)
        batch_box['b'] = b
        return b

    try:
        with silence(), mock.patch.object(ds, 'run_once', counting_run_once), \
                mock.patch.object(bsmod, 'read_input_json', recording_read):
            run_file(in_file, out_file, n_trials, progress=(tqdm if plain_tqdm else RecTqdm), log_file=log_file)
    except Exception as e:  # noqa: BLE001
        return classify(e), op, read_doc(out_file) if os.path.exists(out_file) else None
    after = read_doc(out_file)
    b = batch_box.get('b')
    keys = [ident_key(i) for i in sim_inputs]
    ids = [keys.index(k) for k in keys]
    log = open(log_file).read() if os.path.exists(log_file) else 'none'
    if plain_tqdm:
        # the iterable is not observable through the real tqdm: take the range from the file before the call
        lo = None
    else:
        if len(seen) != 1:
            return f'BAD progress called {len(seen)} times', op, after
        rng_list = seen[0]
        if rng_list and rng_list != list(range(rng_list[0], rng_list[-1] + 1)):
            return f'BAD progress iterable {rng_list[:8]}', op, after
        lo = (rng_list[0], rng_list[-1] + 1) if rng_list else (0, 0)
    text = after
    # earlier trials are kept as a prefix (C12) - a violation is made visible in the answer
    prefix_bad = ''
    if before is not None and after is not None and after != before:
        # (a call that runs nothing leaves the file untouched; a call that writes it has adopted, for every
        # simulation, the first record with equal inputs)
        for rec in after:
            k = ident_key(rec['inputs'])
            old = next((r for r in before if ident_key(r['inputs']) == k), None)
            if old is not None:
                for key in ('effective_error', 'success', 'codespace'):
                    o, nw = old['results'][key], rec['results'][key]
                    if nw[:len(o)] != o:
                        prefix_bad = ' BAD:earlier-trials-changed'
    ans = (f"label={esc(b.label)} method={esc(b.method)} n={len(b._simulations)} "
           f"ids={','.join(map(str, ids)) if ids else '-'} log={log} "
           f"prog={'?' if lo is None else f'{lo[0]}:{lo[1]}'} run={calls[0]} "
           f"tmp={'A' if not os.path.exists(out_file + '.tmp') else 'PRESENT'} "
           f"file={doc_text(text, codes)}{prefix_bad}")
    return ans, op, after


# ------------------------------------------------------------------ generators

def pick(rng, seq):
    return seq[int(rng.integers(len(seq)))]


def sample(rng, seq, k):
    idx = rng.choice(len(seq), size=min(k, len(seq)), replace=False)
    return [seq[int(i)] for i in idx]


def gen_ranges(rng, max_sims=6):
    from harness.props.c13 import code_param_form
    name = pick(rng, list(TINY_CODES))
    dname = pick(rng, list(DECODERS))
    lens = [int(rng.integers(1, 4)) for _ in range(4)]
    while lens[0] * lens[1] * lens[2] * lens[3] > max_sims:
        i = int(rng.integers(4))
        lens[i] = max(1, lens[i] - 1)
    sizes = sample(rng, TINY_CODES[name], lens[0])
    cparams = [code_param_form(rng, s, 2) for s in sizes]
    nparams = []
    for d in sample(rng, DIRS, lens[1]):
        nparams.append({'r_x': d[0], 'r_y': d[1], 'r_z': d[2]} if rng.random() < 0.6 else list(d))
    dparams = sample(rng, DECODERS[dname], lens[2])
    r = {'label': pick(rng, ['exp', 'my run', 'x1']),
         'code': {'name': name, 'parameters': cparams if rng.random() < 0.8 or len(cparams) > 1 or
                  not isinstance(cparams[0], dict) else cparams[0]},
         'error_model': {'name': 'PauliErrorModel', 'parameters': nparams if rng.random() < 0.8 or len(nparams) > 1 or
                         not isinstance(nparams[0], dict) else nparams[0]},
         'decoder': {'name': dname, 'parameters': dparams if len(dparams) > 1 or rng.random() < 0.5 else dparams[0]},
         'error_rate': sample(rng, RATES, lens[3])}
    if rng.random() < 0.2:
        del r['label']
    if rng.random() < 0.3:
        r['method'] = {'name': 'direct', 'parameters': {}}
    return r


def gen_spec(rng):
    w = rng.random()
    if w < 0.6:
        return {'ranges': gen_ranges(rng)}, 'single-ranges'
    if w < 0.8:
        return {'ranges': [gen_ranges(rng, max_sims=3) for _ in range(int(rng.integers(1, 3)))]}, 'list-of-ranges'
    runs = []
    for _ in range(int(rng.integers(1, 4))):
        r = gen_ranges(rng, max_sims=1)

        def one(p):
            return p[0] if isinstance(p, list) and p and isinstance(p[0], (dict, list)) else p
        runs.append({'code': {'name': r['code']['name'], 'parameters': one(r['code']['parameters'])},
                     'error_model': {'name': 'PauliErrorModel', 'parameters': one(r['error_model']['parameters'])},
                     'decoder': {'name': r['decoder']['name'], 'parameters': one(r['decoder']['parameters'])
                                 if isinstance(one(r['decoder']['parameters']), dict) else {}},
                     'error_rate': r['error_rate'][0]})
    return {'runs': runs}, 'runs'


FIXED = {'ranges': {'label': 'two sizes', 'code': {'name': 'Toric2DCode', 'parameters': [{'L_x': 2}, {'L_x': 3, 'L_y': 2}]},
                    'error_model': {'name': 'PauliErrorModel', 'parameters': {'r_x': 0.25, 'r_y': 0.25, 'r_z': 0.5}},
                    'decoder': {'name': 'MatchingDecoder', 'parameters': {}}, 'error_rate': [0.125, 0.25]}}


def stream_run_file(ctx, rng):
    s = Stream('run_file')
    wd = Workdir()
    try:
        n_specs = 40 if ctx.thorough else 14
        specs = [(FIXED, 'single-ranges')] + [gen_spec(rng) for _ in range(n_specs)]
        for i, (spec, form) in enumerate(specs):
            ext = '.json.gz' if i % 2 == 0 else '.json'
            in_file, out_file, log_file = wd.fresh(ext)
            # a chain of calls on the same results file
            k = int(rng.integers(0, 5))
            n = int(rng.integers(0, 7))
            chain = [k, n] + ([int(rng.integers(0, 7))] if rng.random() < 0.5 else [])
            if i == 0:
                chain = [2, 5, 3, 0, 6]
            cur = spec
            for step, nt in enumerate(chain):
                tag = form + ('/fresh' if step == 0 else
                              ('/resume-more' if nt > chain[step - 1] else '/resume-not-more')) + \
                    ('/gz' if ext.endswith('.gz') else '/json')
                plain = (i + step) % 5 == 4
                ans, op, _ = call_run_file(cur, in_file, out_file, log_file, nt, plain_tqdm=plain)
                if plain:
                    op = op.replace('runfile ', 'runfileq ', 1)
                s.add(op, ans, {'spec': cur, 'chain': chain[:step + 1], 'ext': ext},
                      nontrivial=not ans.startswith('ERR'), tag=tag)
        # a changed specification on an existing file: grown, shrunk, a value listed twice
        for j in range(6 if ctx.thorough else 3):
            ext = '.json.gz' if j % 2 else '.json'
            in_file, out_file, log_file = wd.fresh(ext)
            a = copy.deepcopy(FIXED)
            a['ranges']['error_rate'] = sample(rng, RATES, 2)
            grown = copy.deepcopy(a)
            grown['ranges']['error_rate'] = a['ranges']['error_rate'] + [r for r in RATES
                                                                       if r not in a['ranges']['error_rate']][:1]
            shrunk = copy.deepcopy(a)
            shrunk['ranges']['error_rate'] = a['ranges']['error_rate'][:1]
            twice = copy.deepcopy(a)
            twice['ranges']['error_rate'] = a['ranges']['error_rate'] + a['ranges']['error_rate'][:1]
            for (sp, nt, tag) in ((a, 2, 'changed/first'), (grown, 4, 'changed/grown'), (shrunk, 5, 'changed/shrunk'),
                                  (twice, 6, 'changed/value-twice'), (twice, 3, 'changed/value-twice')):
                ans, op, _ = call_run_file(sp, in_file, out_file, log_file, nt)
                s.add(op, ans, {'spec': sp, 'n_trials': nt, 'ext': ext}, tag=tag)
        # specifications that raise, or expand to nothing
        for sp, tag in (({}, 'neither'), ({'ranges': []}, 'empty-list-of-ranges'), ({'runs': []}, 'empty-runs'),
                        ({'ranges': {**FIXED['ranges'], 'method': {'name': 'other', 'parameters': {}}}},
                         'unknown-method')):
            in_file, out_file, log_file = wd.fresh('.json')
            ans, op, _ = call_run_file(sp, in_file, out_file, log_file, 3)
            s.add(op, ans, {'spec': sp}, nontrivial=False, tag='raises/' + tag)
    finally:
        wd.close()
    return s


# ------------------------------------------------------------------ plan -> run -> merge -> Analysis

class InProcess:
    """stand-in for multiprocessing.Process: start() runs the task body at once, in this process"""
    log = None

    def __init__(self, *a, **kw):
        self.target = kw.get('target')
        self.args = tuple(kw.get('args', ()))
        self.kwargs = dict(kw.get('kwargs', {}) or {})
        InProcess.log.append(self)

    def start(self):
        self.target(*self.args, **self.kwargs)

    def join(self, *a, **kw):
        pass


def pipeline_specs(I):
    """I input specifications whose simulations are pairwise different across the inputs."""
    out = []
    sizes = [(2, 2), (3, 2), (2, 3), (3, 3)]
    for j in range(I):
        out.append({'ranges': {'label': f'input{j}',
                               'code': {'name': 'Toric2DCode' if j % 2 == 0 else 'Planar2DCode',
                                        'parameters': [{'L_x': sizes[j % 3][0], 'L_y': sizes[j % 3][1]}]},
                               'error_model': {'name': 'PauliErrorModel',
                                               'parameters': {'r_x': 0.25, 'r_y': 0.25, 'r_z': 0.5}},
                               'decoder': {'name': 'MatchingDecoder' if j % 3 else 'BeliefPropagationOSDDecoder',
                                           'parameters': {} if j % 3 else {'max_bp_iter': 5, 'osd_order': 0}},
                               'error_rate': [0.0625 * (j + 1), 0.5 - 0.0625 * (j + 1)][:1 + (j % 2 == 0)]}})
    return out


def run_pipeline(I, N, C, T, names=None, first=None):
    """Returns (per (input index in glob order, simulation index): trials seen by Analysis and in the merged file,
    planned triples, error text or None)."""
    import panqec.cli as pcli
    from panqec.analysis import Analysis
    from panqec.utils import load_json
    d = tempfile.mkdtemp(prefix='verif_c14pipe_')
    try:
        os.makedirs(os.path.join(d, 'inputs'))
        specs = pipeline_specs(I)
        names = names or ['zeta', 'alpha', 'mid_10', 'mid_2', 'b', 'a']
        for j, sp in enumerate(specs):
            with open(os.path.join(d, 'inputs', f'{names[j]}.json'), 'w') as f:
                json.dump(sp, f)
        InProcess.log = []
        fake_mp = types.SimpleNamespace(Process=InProcess, cpu_count=lambda: C)
        with silence(), mock.patch.object(pcli, 'multiprocessing', fake_mp):
            if first is not None:
                # an earlier, smaller request left partial results in the same directory (wall-time kill and
                # resubmission, or a first pass with fewer trials); no --delete-existing
                for job in range(1, N + 1):
                    pcli.run_parallel.callback(d, first, N, job, C, False)
                InProcess.log = []
            for job in range(1, N + 1):
                pcli.run_parallel.callback(d, T, N, job, C, False)
        planned = [(os.path.basename(p.args[0]), os.path.basename(p.args[1]), p.args[2]) for p in InProcess.log]
        # the order of the inputs as run_parallel saw it
        order = [os.path.basename(f) for f in globmod.glob(f"{os.path.join(d, 'inputs')}/*.json")]
        files = sorted(globmod.glob(os.path.join(d, 'results', '*.json.gz')))
        merged = os.path.join(d, 'merged-results.json.gz')
        totals_merged, totals_analysis = {}, {}
        sims = {}
        for j, nm in enumerate(order):
            sp = json.load(open(os.path.join(d, 'inputs', nm)))
            inputs, _ = expansion(sp, os.path.join(d, 'none.json'))
            for x, inp in enumerate(inputs):
                sims[ident_key(inp)] = (j, x)
                totals_merged[(j, x)] = 0
                totals_analysis[(j, x)] = 0
        if files:
            with silence():
                pcli.merge_results.callback(tuple(files), merged)
            doc = load_json(merged)

            def walk(x):
                if isinstance(x, list):
                    for y in x:
                        yield from walk(y)
                else:
                    yield x
            for rec in walk(doc):
                key = ident_key(rec['inputs'])
                if key not in sims:
                    return None, planned, 'merged file holds a record of no requested simulation'
                n_runs = rec['results']['n_runs']
                if not (n_runs == len(rec['results']['success']) == len(rec['results']['effective_error'])
                        == len(rec['results']['codespace'])):
                    return None, planned, 'record with unequal list lengths'
                totals_merged[sims[key]] += n_runs
            with silence():
                a = Analysis(merged)
                res = a.get_results()
            by_row = {}
            for _, row in res.iterrows():
                k = (row['code'], json.dumps(row['code_params'], sort_keys=True), row['decoder'],
                     json.dumps(row['decoder_params'], sort_keys=True), round(float(row['error_rate']), 6))
                by_row[k] = by_row.get(k, 0) + int(row['n_trials'])
            for j, nm in enumerate(order):
                sp = json.load(open(os.path.join(d, 'inputs', nm)))
                inputs, _ = expansion(sp, os.path.join(d, 'none.json'))
                for x, inp in enumerate(inputs):
                    k = (inp['code']['name'], json.dumps(inp['code']['parameters'], sort_keys=True),
                         inp['decoder']['name'], json.dumps(inp['decoder']['parameters'], sort_keys=True),
                         round(float(inp['error_rate']), 6))
                    totals_analysis[(j, x)] = by_row.pop(k, 0)
            if by_row:
                return None, planned, f'Analysis reports rows of no requested simulation: {list(by_row)[:2]}'
        n_sims = [len(expansion(json.load(open(os.path.join(d, 'inputs', nm))), os.path.join(d, 'n.json'))[0])
                  for nm in order]
        return (totals_merged, totals_analysis, n_sims), planned, None
    finally:
        shutil.rmtree(d, ignore_errors=True)


def pipeline_answer(I, N, C, T):
    try:
        r, planned, err = run_pipeline(I, N, C, T)
    except Exception as e:  # noqa: BLE001
        return f'EXC:{type(e).__name__}:{str(e)[:80]}', '-'
    if err:
        return 'BAD ' + err, '-'
    merged, analysis, n_sims = r
    if merged != analysis:
        return f'BAD merged file and Analysis disagree: {merged} vs {analysis}', '-'
    return ';'.join(f'{j}:{x}={analysis[(j, x)]}' for (j, x) in sorted(analysis)), n_sims


def stream_pipeline(ctx, rng):
    s = Stream('plan-run-merge')
    cases = [(3, 2, 2, 7), (1, 2, 2, 10), (2, 2, 2, 5), (4, 2, 2, 6), (2, 2, 2, 1)]
    if ctx.thorough:
        cases += [(3, 2, 3, 11), (5, 3, 2, 9), (2, 1, 4, 13), (1, 1, 4, 10), (4, 2, 3, 4)]
    for (I, N, C, T) in cases:
        ans, n_sims = pipeline_answer(I, N, C, T)
        # every input j has simulations 0..n_sims[j]-1; the model op takes one identity list for all inputs, so
        # one op per distinct number of simulations
        if n_sims == '-':
            s.add(f'pipeline 0 {I} {N} {C} {T} 0', ans, {'I': I, 'N': N, 'C': C, 'T': T}, tag='error')
            continue
        for m in sorted(set(n_sims)):
            ids = ','.join(str(x) for x in range(m))
            want = ';'.join(p for p in ans.split(';') if n_sims[int(p.split(':')[0])] == m)
            s.add(f'pipeline {ids} {I} {N} {C} {T} {",".join(str(j) for j in range(I) if n_sims[j] == m)}', want,
                  {'I': I, 'N': N, 'C': C, 'T': T}, tag=f'I={I},N={N},C={C}')
    return s


def streams(ctx):
    rng = ctx.np_rng(1414)
    out = []
    s = stream_run_file(ctx, rng)
    out.append(s.run())
    out.append(stream_pipeline(ctx, rng).run())
    return out
