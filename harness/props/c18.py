"""C18 - error probabilities multiply per qubit and normalise."""
from __future__ import annotations

import itertools
import math
import types
import warnings
from fractions import Fraction
from unittest import mock

import numpy as np

from harness import core
from harness.core import Stream
from harness.util import vec, guarded, first_failures
from harness.props import c07 as N
from harness.props.c07 import fr, rs, rlist, parse_rat, chan_tokens, make_code, make_model, \
    deformation_options, deformation_words, stated_dist, channel_samples, StubRng, cum_intervals, LETTERS

ID = 'C18'
LEVEL = 'proof'
LEVEL_TEXT = ('Lean theorems over the rationals for every number of qubits, every list of per-qubit distributions and '
              'every error: error_probability is the product over qubits of the channel probability of the Pauli on '
              'that qubit; if every per-qubit distribution sums to 1 the probabilities of all 4^n Pauli strings sum to 1 '
              '(induction on n); the log form is the logarithm of the product (sum of logs of the same vector); the '
              'probability is the volume of the box of uniform variates on which generate() returns that error; the '
              'splitting acceptance probability is min(1, likelihood ratio) and, for the single-qubit move, the ratio of '
              'the two single-qubit probabilities. The pre-fix Y mask is proved NOT to normalise (regression witness). '
              'The body of SplittingSimulation is modelled whole (Model/Splitting.lean) and proved about for every code, '
              'every decoder (any function of the syndrome), every channel / deformation, every previous error and every '
              'draw: each call of get_next_error proposes previous error times the drawn letter, accepts with probability '
              'min(1, P(new)/P(previous)) of the C18 product probabilities (= ratio of the two single-qubit probabilities), '
              'moves iff the coin is 1 and the proposal does not decode successfully, and returns the error with its own '
              'probability; the step is in detailed balance with, and leaves stationary, the product distribution '
              'restricted to the set of errors that fail to decode (the complement of success of run_once, C11); a chain '
              'never leaves that set; the initial error is checked against decoders[0] only; _run keeps one list of '
              'length n_runs per error rate and run(a); run(b) = run(a+b); get_results raises TypeError until postprocess '
              'has run and afterwards reports n_runs and one estimate per rate, the first being the direct Monte-Carlo '
              'frequency; compute_optimal_c returns the grid point just below the balance point lhs = rhs = N/2 or the '
              'fallback 1; the telescoping product is exact when every factor is an exact ratio; the acceptance-ratio '
              'identity c E_j[g(c a/b)] / E_{j+1}[g(b/(c a))] = Z_{j+1}/Z_j holds for every c when both densities are '
              'taken on the same error. PROVED NEGATION: the class instead pairs log P_j of chain j with log P_{j+1} of '
              "chain j+1 (two different errors); on an exact population it returns 0.4856 where the ratio is 5/12 "
              '(estimator_is_not_the_acceptance_ratio; observation D17, outside the statement of C18). '
              'The model is tied to the code by exact differential runs on dyadic channels.')
LEVEL_NOTE = ('trusted: Lean kernel + standard axioms; correspondence harness; float products are exact on the dyadic '
              'inputs used (compared exactly) and within 1e-12 relative otherwise; np.log / np.exp are not modelled: '
              'log outputs are compared with the log of the exact rational to 1e-9. Splitting chain: numpy.random.choice '
              '(the only sampling call of the class) is scripted, a different sampling mechanism is reported as broken '
              'correspondence and decided by the oracle; the Metropolis coin is modelled on the uniform variate behind '
              'RandomState.choice(p=...) (cumsum / searchsorted right), scripted variates within 1e-9 of 1-q are dropped; '
              'decoders are a parameter (recorded answers per error rate). Not proved: irreducibility of the chain on '
              'the failure set (a hypothesis of the splitting method). Not tested: long-run statistics of p_est (MCMC '
              'output: no cheap sound bound; instead the one-step kernel is tested on independent calls with exact '
              'binomial confidence intervals at level 1e-10, independently of how qubit and letter are proposed)')
TECHNIQUE = ('Lean 4 proof (induction over qubit lists, ring arithmetic over Rat; Real.log of a product for the log form; '
             'state-machine invariants of the chain by induction over sweeps; field arithmetic for the estimator; '
             'decide +kernel for the population witness) '
             '+ differential correspondence with the compiled model driver, exhaustive over all 4^n errors for n <= 4 '
             '(quick) / n <= 6 (thorough); whole traces of the real SplittingSimulation under scripted draws')
TRUSTED = ['IEEE-754 double products of dyadic numbers are exact while the odd part fits in 53 bits (checked per case); '
           'np.log/np.exp accurate to 1e-9 relative',
           'numpy RandomState.choice(a, p=p) returns the index searchsorted(cumsum(p)/sum(p), u, side=right) of one '
           'uniform variate u (the model of the Metropolis coin)']
ASSUMPTIONS = ['errors are binary vectors of length 2n (numpy truthiness is modelled for other integers; other lengths '
               'are rejected by the model while numpy may broadcast)',
               'acceptance ratio (C18.lean): the previous error has non-zero probability; the chain model '
               '(C18Splitting.lean) covers probability 0 as the code behaves (q = 1)',
               'estimator: recorded probabilities are positive and all chains have the same number of samples '
               '(otherwise the model answers "unmodelled"); at least one sample after start_run (else ValueError, modelled)',
               'decoders are deterministic functions of the syndrome (C06)']
ANCHOR_FILES = ['panqec/error_models/_base_error_model.py', 'panqec/error_models/_pauli_error_model.py',
                'panqec/simulation/_splitting_simulation.py']
PROPERTY_MODULES = ['PanqecVerif.Properties.C18', 'PanqecVerif.Properties.C18Splitting']

SMALL_CODES = [('Planar2DCode', (1, 1)), ('Toric2DCode', (1, 1)), ('Planar2DCode', (2, 1)), ('Toric3DCode', (1, 1, 1)),
               ('RotatedPlanar2DCode', (2, 2)), ('Toric2DCode', (2, 1)), ('Cyc3', (2, 1))]          # n <= 4
MEDIUM_CODES = [('Planar2DCode', (2, 2)), ('RotatedPlanar2DCode', (2, 3))]                            # n = 5, 6
LARGE_CODES = [('Toric2DCode', (3, 3)), ('Toric3DCode', (2, 2, 2)), ('Planar2DCode', (4, 4)), ('XCubeCode', (2, 2, 2)),
               ('Cyc3', (4, 3)), ('RhombicToricCode', (2, 2, 2)), ('Color666ToricCode', (2, 2))]


def odd_part_bits(q: Fraction) -> int:
    a = abs(q.numerator)
    while a and a % 2 == 0:
        a //= 2
    return a.bit_length()


def prob_token(model_tok, x):
    """np.prod of floats against the exact rational: exact when the exact value is a double whose
    partial products are doubles too, else relative 1e-12"""
    x = float(x)
    if not math.isfinite(x):
        return repr(x)
    q = parse_rat(model_tok)
    d = q.denominator
    dyadic = d & (d - 1) == 0
    if dyadic and odd_part_bits(q) <= 53 and d.bit_length() < 1000:
        return model_tok if Fraction(x) == q else rs(x)
    return model_tok if abs(Fraction(x) - q) <= Fraction(1, 10 ** 12) * abs(q) else rs(x)


def log_of_vector(tokens):
    qs = [parse_rat(t) for t in tokens]
    if any(q < 0 for q in qs):
        return float('nan')
    if any(q == 0 for q in qs):
        return float('-inf')
    return math.fsum(math.log(q.numerator) - math.log(q.denominator) for q in qs)


def log_token(model_line, x):
    """np.sum(np.log(prob_vector)) against the model's prob_vector"""
    x = float(x)
    if model_line.startswith('ERR') or model_line == 'bad-args':
        return repr(x)
    ref = log_of_vector([] if model_line == '-' else model_line.split(','))
    if math.isinf(ref) or math.isnan(ref):
        same = (math.isnan(ref) and math.isnan(x)) or ref == x
    else:
        same = abs(x - ref) <= 1e-9 * (1 + abs(ref))
    return model_line if same else f'log={x!r}'


def all_errors(n):
    for bits in itertools.product((0, 1), repeat=2 * n):
        yield list(bits)


def error_of_letters(s):
    return [1 if c in 'XY' else 0 for c in s] + [1 if c in 'ZY' else 0 for c in s]


def impl_eprob(code, em, p, e, dtype='uint8', log=False):
    with np.errstate(all='ignore'), warnings.catch_warnings():
        warnings.simplefilter('ignore')
        return em.error_probability(np.array(e, dtype=dtype), code, float(fr(p)), log_output=log)


def spy_split(code, em, p, prev, idx, letter):
    """get_next_error with numpy's global RNG scripted: observe the candidate letters, the proposed
    error (argument of measure_syndrome) and the acceptance probability q."""
    from panqec.simulation._splitting_simulation import SplittingSimulation
    seen = {'letters': None, 'q': None, 'new': None, 'k': 0}

    def fake_choice(a, *args, **kw):
        k = seen['k']
        seen['k'] += 1
        if k == 0:
            return idx
        if k == 1:
            seen['letters'] = ''.join(str(x) for x in a)
            return letter
        pr = kw.get('p', args[-1] if args else None)
        seen['q'] = float(pr[1])
        return 1

    real = code.measure_syndrome

    def fake_measure(err):
        seen['new'] = [int(x) for x in np.asarray(err).reshape(-1)]
        return real(err)

    class Dec:
        def decode(self, syndrome, **kw):
            return np.zeros(2 * code.n, dtype=np.uint8)

    sim = types.SimpleNamespace(code=code, error_model=em)
    with mock.patch('numpy.random.choice', side_effect=fake_choice), \
            mock.patch.object(code, 'measure_syndrome', side_effect=fake_measure), \
            np.errstate(all='ignore'), warnings.catch_warnings():
        warnings.simplefilter('ignore')
        SplittingSimulation.get_next_error(sim, Dec(), float(fr(p)), np.array(prev, dtype='uint'))
    return seen


def split_canon(model_line, seen):
    parts = model_line.split(' ')
    if len(parts) != 2 or seen['q'] is None:
        return f"{vec(seen['new']) if seen['new'] is not None else 'not-proposed'} q={seen['q']!r}"
    q = parse_rat(parts[1])
    ok = abs(seen['q'] - float(q)) <= 1e-9 * max(float(q), 1e-300) if q != 0 else seen['q'] == 0.0
    new = seen['new']
    if new is None and seen['q'] == 0.0:
        # the coin cannot come up 1 when q = 0: the proposal is never measured; accept the model's
        new_tok = parts[0]
    else:
        new_tok = vec(new) if new is not None else 'not-proposed'
    return f"{new_tok} {parts[1] if ok else repr(seen['q'])}"


def supported_error(rng, dists):
    """a random error of non-zero probability under the stated distributions"""
    letters = []
    for d in dists:
        opts = [s for s in LETTERS if d[s] != 0]
        letters.append(opts[int(rng.integers(len(opts)))])
    return error_of_letters(letters)


def channels_for(ctx, rng, name, k):
    out = []
    for dname, dkw in deformation_options(name):
        for p, r in channel_samples(ctx, rng, k):
            out.append((dname, dkw, p, r))
    return out


def correspondence(ctx):
    rng = ctx.np_rng(18)
    streams = []

    def run_two_pass(s, ops, objs, inps, tags, canons):
        outs = core.driver(ops)
        for op, o, m, inp, tag, canon in zip(ops, objs, outs, inps, tags, canons):
            ans = o if isinstance(o, str) else guarded(lambda: canon(m, o))
            s.add(op, ans, inp, tag=tag)
        return s.run()

    # --- all 4^n errors on the small codes, exact
    s = Stream('error_probability-exhaustive')
    ops, objs, inps, tags, canons = [], [], [], [], []
    small = SMALL_CODES + (MEDIUM_CODES if ctx.thorough else [])
    for name, size in small:
        code = make_code(name, size)
        n = code.n
        chans = channels_for(ctx, rng, name, 2 if n <= 2 or ctx.thorough else 1)
        if n >= 4 and not ctx.thorough:
            chans = [chans[int(i)] for i in rng.choice(len(chans), min(4, len(chans)), replace=False)]
        for dname, dkw, p, r in chans:
            try:
                words = deformation_words(code, dname, dkw)
            except Exception:  # noqa
                continue
            em = make_model(r, dname, dkw)
            ct = chan_tokens(p, r, n, words)
            for e in all_errors(n):
                dt = ('uint8', 'int64', 'bool', 'uint64')[int(rng.integers(0, 4))] if rng.random() < 0.2 else 'uint8'
                ops.append(f'n.eprob {ct} {vec(e)}')
                objs.append(guarded(lambda: impl_eprob(code, em, p, e, dt)))
                canons.append(prob_token)
                inps.append({'code': name, 'size': size, 'deformation': dname, 'kwargs': dkw, 'p': rs(p),
                             'r': [rs(x) for x in r], 'error': vec(e), 'dtype': dt})
                tags.append(f'n={n}')
    streams.append(run_two_pass(s, ops, objs, inps, tags, canons))

    # --- log_output and larger codes
    s = Stream('error_probability-log-and-large')
    ops, objs, inps, tags, canons = [], [], [], [], []
    reps = 12 if ctx.thorough else 4
    for name, size in SMALL_CODES[2:] + LARGE_CODES:
        code = make_code(name, size)
        n = code.n
        for dname, dkw, p, r in channels_for(ctx, rng, name, 2):
            try:
                words = deformation_words(code, dname, dkw)
            except Exception:  # noqa
                continue
            em = make_model(r, dname, dkw)
            ct = chan_tokens(p, r, n, words)
            dists = [stated_dist(p, r, None if words is None else words[i]) for i in range(n)]
            for j in range(reps):
                e = supported_error(rng, dists) if j % 2 == 0 else [int(x) for x in rng.integers(0, 2, 2 * n)]
                inp = {'code': name, 'size': size, 'deformation': dname, 'kwargs': dkw, 'p': rs(p),
                       'r': [rs(x) for x in r], 'error': vec(e)}
                ops.append(f'n.eprob {ct} {vec(e)}')
                objs.append(guarded(lambda: impl_eprob(code, em, p, e)))
                canons.append(prob_token)
                inps.append(inp)
                tags.append('prod:n<=8' if n <= 8 else 'prod:large')
                ops.append(f'n.pvec {ct} {vec(e)}')
                objs.append(guarded(lambda: impl_eprob(code, em, p, e, log=True)))
                canons.append(log_token)
                inps.append(dict(inp, log_output=True))
                tags.append('log')
    streams.append(run_two_pass(s, ops, objs, inps, tags, canons))

    # --- splitting method: proposal and acceptance probability
    s = Stream('splitting-acceptance')
    ops, objs, inps, tags, canons = [], [], [], [], []
    for name, size in [('Toric2DCode', (2, 2)), ('Planar2DCode', (2, 2)), ('Cyc3', (2, 2)), ('Toric3DCode', (2, 2, 2))]:
        code = make_code(name, size)
        n = code.n
        for dname, dkw, p, r in channels_for(ctx, rng, name, 3 if ctx.thorough else 2):
            if p == 0:
                continue
            try:
                words = deformation_words(code, dname, dkw)
            except Exception:  # noqa
                continue
            em = make_model(r, dname, dkw)
            ct = chan_tokens(p, r, n, words)
            dists = [stated_dist(p, r, None if words is None else words[i]) for i in range(n)]
            for _ in range(reps):
                prev = supported_error(rng, dists)
                idx = int(rng.integers(n))
                cand = [c for c in 'XYZ' if dists[idx][c] != 0]
                letter = cand[int(rng.integers(len(cand)))]
                inp = {'code': name, 'size': size, 'deformation': dname, 'kwargs': dkw, 'p': rs(p),
                       'r': [rs(x) for x in r], 'previous': vec(prev), 'index': idx, 'letter': letter}
                seen = guarded(lambda: spy_split(code, em, p, prev, idx, letter))
                ops.append(f'n.split {ct} {vec(prev)} {idx} {letter}')
                objs.append(seen)
                canons.append(split_canon)
                inps.append(inp)
                tags.append('step')
    streams.append(run_two_pass(s, ops, objs, inps, tags, canons))

    # --- the body of SplittingSimulation: chain of _run / get_next_error, estimator (harness/props/c18_splitting.py)
    from harness.props import c18_splitting as SP
    streams.append(SP.chain_stream(ctx, ctx.np_rng(1801)))
    streams.append(SP.estimator_stream(ctx, ctx.np_rng(1802)))

    # --- wrong lengths (only those where numpy cannot broadcast)
    s = Stream('error_probability-malformed')
    code = make_code('Toric2DCode', (2, 1))
    n = code.n
    em = make_model((Fraction(1, 2), Fraction(1, 4), Fraction(1, 4)))
    ct = chan_tokens(Fraction(1, 4), em.direction, n, None)
    for ln in (2 * n + 2, 2 * n + 4, 2 * n - 2, 4 * n):
        e = [1] * ln
        ans = guarded(lambda: rs(impl_eprob(code, em, Fraction(1, 4), e)), {'ValueError': 'ERR shape'})
        s.add(f'n.eprob {ct} {vec(e)}', ans, {'error_length': ln, 'n': n}, tag='length')
    streams.append(s.run())
    return streams


# ------------------------------------------------------------------ oracle

def stated_probability(dists, e):
    n = len(dists)
    q = Fraction(1)
    for i in range(n):
        s = {(0, 0): 'I', (1, 0): 'X', (1, 1): 'Y', (0, 1): 'Z'}[(int(bool(e[i])), int(bool(e[n + i])))]
        q *= dists[i][s]
    return q


def close(x, q, rel=Fraction(1, 10 ** 12)):
    x = float(x)
    if not math.isfinite(x):
        return False
    return abs(Fraction(x) - q) <= rel * abs(q)


def check_case(case):
    if str(case.get('kind', '')).startswith('split-'):
        from harness.props import c18_splitting as SP
        return SP.check_case(case)
    try:
        return _check_case(case)
    except Exception as e:  # noqa
        return f'raised {type(e).__name__}: {e}'


def _check_case(case):
    code, em, p, r, dists = N.case_objects(case)
    n = code.n
    kind = case['kind']
    if kind == 'sum':
        total = Fraction(0)
        for e in all_errors(n):
            total += fr(impl_eprob(code, em, p, e))
        if abs(total - 1) > Fraction(1, 10 ** 12):
            return f'probabilities of all {4 ** n} errors sum to {float(total)!r}'
        return None
    if kind == 'product':
        e = [int(c) for c in case['error']]
        want = stated_probability(dists, e)
        got = impl_eprob(code, em, p, e)
        if not close(got, want):
            return f'error_probability = {float(got)!r}, product of per-qubit probabilities = {float(want)!r}'
        lg = float(impl_eprob(code, em, p, e, log=True))
        if want == 0:
            if lg != float('-inf'):
                return f'log output {lg!r} for an impossible error'
        else:
            ref = math.log(want.numerator) - math.log(want.denominator)
            if not abs(lg - ref) <= 1e-9 * (1 + abs(ref)):
                return f'log output {lg!r}, log of the probability is {ref!r}'
        return None
    if kind == 'log-large':
        # many qubits: the probability underflows in floating point but its logarithm does not;
        # the log form must be the sum of the per-qubit logs, and log-differences (what the
        # Metropolis step uses) must be the log of the likelihood ratio
        rng2 = np.random.default_rng(case['seed'])
        e = [int(x) for x in (rng2.random(2 * n) < 0.5)]
        ref = 0.0
        for i in range(n):
            s_ = {(0, 0): 'I', (1, 0): 'X', (1, 1): 'Y', (0, 1): 'Z'}[(e[i], e[n + i])]
            q = dists[i][s_]
            if q == 0:
                return None
            ref += math.log(q.numerator) - math.log(q.denominator)
        lg = float(impl_eprob(code, em, p, e, log=True))
        if not (math.isfinite(lg) and abs(lg - ref) <= 1e-9 * (1 + abs(ref))):
            return f'log output {lg!r} on n={n} qubits, sum of per-qubit log probabilities is {ref!r}'
        f = list(e)
        f[0] ^= 1
        s0 = {(0, 0): 'I', (1, 0): 'X', (1, 1): 'Y', (0, 1): 'Z'}[(f[0], f[n])]
        s1 = {(0, 0): 'I', (1, 0): 'X', (1, 1): 'Y', (0, 1): 'Z'}[(e[0], e[n])]
        if dists[0][s0] != 0:
            lf = float(impl_eprob(code, em, p, f, log=True))
            want = math.log(dists[0][s0] / dists[0][s1])
            if not (math.isfinite(lf - lg) and abs((lf - lg) - want) <= 1e-6):
                return f'log-likelihood difference of two errors differing on one qubit is {lf - lg!r}, expected {want!r}'
        return None
    if kind == 'reuse':
        # the same (model, code, rate) asked repeatedly: every call must give the same, stated value
        errs = [[int(c) for c in t] for t in case['errors']]
        first = [float(impl_eprob(code, em, p, e)) for e in errs]
        em.get_weights(code, float(p))
        again = [float(impl_eprob(code, em, p, e)) for e in errs]
        for e, a, b in zip(errs, first, again):
            want = stated_probability(dists, e)
            if not close(a, want):
                return f'error_probability = {a!r}, product of per-qubit probabilities = {float(want)!r}'
            if a != b:
                return f'error_probability of the same error changed from {a!r} to {b!r} on a repeated call'
        return None
    if kind == 'sampling':
        # the error generate() returns (scripted variates when the mechanism is one uniform per qubit, a
        # real generator otherwise) must have error_probability = product of the stated per-qubit
        # probabilities, and that must be positive: nothing of probability 0 is ever sampled
        us = [float(parse_rat(u)) for u in case['us']]
        try:
            e = [int(x) for x in em.generate(code, float(p), rng=StubRng(us))]
        except N.StubMismatch:
            e = [int(x) for x in em.generate(code, float(p), rng=np.random.default_rng(len(us)))]
        want = stated_probability(dists, e)
        if want == 0:
            return f'generate returned the error {vec(e)}, which the stated channel gives probability 0'
        got = impl_eprob(code, em, p, e)
        if not close(got, want):
            return f'sampled error {vec(e)} has stated probability {float(want)!r} but error_probability {float(got)!r}'
        return None
    if kind == 'sample-stat':
        # consistency with the sampling distribution, mechanism-free (see harness/props/c07.py)
        return N.sampling_statistics(code, em, float(p), dists, case['N'], case['seed'])
    if kind == 'accept':
        prev = [int(c) for c in case['previous']]
        idx, letter = case['index'], case['letter']
        seen = spy_split(code, em, p, prev, idx, letter)
        new = list(prev)
        if letter in 'XY':
            new[idx] ^= 1
        if letter in 'ZY':
            new[n + idx] ^= 1
        pp, pn = stated_probability(dists, prev), stated_probability(dists, new)
        want = min(Fraction(1), pn / pp)
        if seen['q'] is None or abs(seen['q'] - float(want)) > 1e-9:
            return f"acceptance probability {seen['q']!r}, likelihood ratio gives {float(want)!r}"
        if seen['new'] is not None and seen['new'] != new:
            return 'proposed error is not previous error times the drawn single-qubit Pauli'
        return None
    return f'unknown kind {kind}'


def oracle_cases(ctx, deep):
    rng = ctx.np_rng(81)
    cases = []
    small = SMALL_CODES + (MEDIUM_CODES if deep else [])
    for name, size in small:
        code = make_code(name, size)
        chans = channels_for(ctx, rng, name, 3 if deep else 1)
        if not deep:
            chans = chans[:6]
        if code.n >= 5:
            chans = chans[:4]
        for dname, dkw, p, r in chans:
            base = {'code': name, 'size': list(size), 'deformation': dname, 'kwargs': dkw, 'p': rs(p),
                    'r': [rs(x) for x in r]}
            cases.append(dict(base, kind='sum'))
    for name, size in SMALL_CODES + LARGE_CODES[:4 if not deep else None]:
        code = make_code(name, size)
        n = code.n
        for dname, dkw, p, r in channels_for(ctx, rng, name, 3 if deep else 1):
            try:
                words = deformation_words(code, dname, dkw)
            except Exception:  # noqa
                continue
            dists = [stated_dist(p, r, None if words is None else words[i]) for i in range(n)]
            base = {'code': name, 'size': list(size), 'deformation': dname, 'kwargs': dkw, 'p': rs(p),
                    'r': [rs(x) for x in r]}
            for j in range(4 if deep else 2):
                e = supported_error(rng, dists) if j % 2 == 0 else [int(x) for x in rng.integers(0, 2, 2 * n)]
                cases.append(dict(base, kind='product', error=vec(e)))
            us = []
            for i in range(n):
                cand = N.edge_us(dists[i], rng)
                us.append(cand[int(rng.integers(len(cand)))])
            cases.append(dict(base, kind='sampling', us=[rs(u) for u in us]))
            cases.append(dict(base, kind='reuse', errors=[vec([0] * (2 * n)), vec(supported_error(rng, dists)),
                                                          vec([0] * (2 * n)), vec(supported_error(rng, dists))]))
            if p != 0 and n >= 2:
                prev = supported_error(rng, dists)
                idx = int(rng.integers(n))
                cand = [c for c in 'XYZ' if dists[idx][c] != 0]
                cases.append(dict(base, kind='accept', previous=vec(prev), index=idx,
                                  letter=cand[int(rng.integers(len(cand)))]))
    # error_probability is consistent with what generate() samples: frequencies against the stated channel
    stat = [(('Toric2DCode', (2, 2)), Fraction(1, 32), (Fraction(1, 8), Fraction(1, 8), Fraction(3, 4))),
            (('RotatedPlanar2DCode', (3, 3)), Fraction(1, 4), (Fraction(3, 4), Fraction(0), Fraction(1, 4)))]
    if deep:
        stat += [(('Toric3DCode', (2, 2, 2)), Fraction(1, 64), (Fraction(5, 8), Fraction(1, 4), Fraction(1, 8))),
                 (('Planar2DCode', (3, 2)), Fraction(1, 1024), (Fraction(1, 4), Fraction(1, 4), Fraction(1, 2))),
                 (('Toric2DCode', (2, 3)), Fraction(7, 8), (Fraction(1, 8), Fraction(5, 8), Fraction(1, 4)))]
    for (name, size), p, r in stat:
        opts = N.deformation_options(name)
        for dname, dkw in (opts if deep else [opts[0], opts[-1]]):
            cases.append({'code': name, 'size': list(size), 'deformation': dname, 'kwargs': dkw, 'p': rs(p),
                          'r': [rs(x) for x in r], 'kind': 'sample-stat',
                          'N': 60000 if p < Fraction(1, 256) else (20000 if deep else 8000),
                          'seed': int(rng.integers(0, 2 ** 31))})
    # large codes: log form where the plain product underflows
    for name, size in ([('Toric2DCode', (24, 24)), ('Toric3DCode', (7, 7, 7))] + ([('Toric2DCode', (30, 31))] if deep else [])):
        for p, r in ((Fraction(1, 2), (Fraction(1, 4), Fraction(1, 4), Fraction(1, 2))),
                     (Fraction(1, 4), (Fraction(1, 2), Fraction(1, 4), Fraction(1, 4)))):
            cases.append({'code': name, 'size': list(size), 'deformation': None, 'kwargs': {}, 'p': rs(p),
                          'r': [rs(x) for x in r], 'kind': 'log-large', 'seed': int(rng.integers(0, 10 ** 6))})
    return cases


def oracle(ctx, deep=False, broken=None):
    from harness.props import c18_splitting as SP
    cases = oracle_cases(ctx, deep) + SP.oracle_cases(ctx, deep)
    fails = first_failures(cases, check_case,
                           key=lambda c: {'kind': c['kind'], 'deformed': c.get('deformation') is not None})
    return fails, {'evaluations': len(cases)}


def replay(ctx, payload):
    return check_case(payload['input']) is not None
