"""C16, second part: WHICH rows the finite-size-scaling fit sees and WHERE it starts.

Streams and oracle cases for `get_p_th_nearest`, `get_p_th_sd_interp`, the window branches of
`Analysis.calculate_thresholds` (default / autotruncate / manual override), the start vector of the first
`curve_fit`, `apply_overrides` and the skip / replace look-ups, `p_th_fss_se`.
Model: lean/PanqecVerif/Model/AnalysisWindow.lean, ops: lean/Driver/OpsAnalysisWindow.lean.
Imported by c16.py (constants for the manifest stay there)."""
from __future__ import annotations

import contextlib
import io
import json
import math
import os
import shutil
import tempfile
import warnings
from fractions import Fraction

from harness.core import Stream

RES = 0.001          # interp_res of get_p_th_sd_interp
N_BS = 100           # bootstrap fits per fitted parameter set


def fr(x):
    if x is None:
        return 'nan'
    x = float(x)
    if math.isnan(x) or math.isinf(x):
        return 'nan'
    n, d = x.as_integer_ratio()
    return f'{n}/{d}' if d != 1 else str(n)


def frx(x):
    """optional number of a spec: absent / None = x"""
    return 'x' if x is None else fr(x)


@contextlib.contextmanager
def quiet():
    with warnings.catch_warnings():
        warnings.simplefilter('ignore')
        with contextlib.redirect_stdout(io.StringIO()):
            yield


class NumpyProxy:
    """stands in for the module global `np` of panqec.analysis: delegates everything to numpy and records the
    floating-point grids `np.arange(start, stop, step)` returns (boundary: the interpolation grid of
    get_p_th_sd_interp is numpy's, not recomputed by the harness)"""

    def __init__(self):
        import numpy
        self._np = numpy
        self.grids = []

    def __getattr__(self, name):
        return getattr(self._np, name)

    def arange(self, *args, **kw):
        out = self._np.arange(*args, **kw)
        if len(args) == 3 and out.dtype.kind == 'f':
            self.grids.append([float(x) for x in out])
        return out


def grid_token(g):
    return ','.join(fr(x) for x in g) if g else '-'


# ------------------------------------------------------------------ tables for the helpers called directly
# a table = list of rows [code, label, n, k, d, rate, pest]; code / label are small integers that become the
# strings 'C007' / 'L007' (rank order = numeric order); pest None = NaN

TABLE_KINDS = ['generic', 'planted', 'ties-mid', 'ties-extreme', 'missing', 'nan-rate', 'duplicated',
               'single-distance', 'pipeline-codes', 'no-crossing', 'single-rate', 'two-rates', 'zero-plateau',
               'identical-curves', 'off-grid']


def gen_table(rng, kind):
    """rows in random order; distinct codes have distinct n"""
    nl = int(rng.integers(2, 6))
    if kind in ('ties-mid', 'ties-extreme'):
        nl = int(rng.integers(4, 7))
    if kind == 'single-distance':
        nl = 1
    ds = sorted(int(x) for x in rng.choice(range(2, 20), nl, replace=False))
    nr = int(rng.integers(3, 10))
    if kind == 'single-rate':
        nr = 1
    if kind == 'two-rates':
        nr = 2
    base = int(rng.integers(10, 300))
    step = int(rng.integers(1, 25))
    if kind == 'off-grid':      # rates with six digits, not on the 0.001 grid that starts at the smallest rate
        rates = sorted({round((base + step * i) / 1000 + float(rng.integers(0, 1000)) * 1e-6, 6) for i in range(nr)})
    elif rng.random() < 0.5:
        rates = [(base + step * i) / 1000 for i in range(nr)]
    else:                       # dyadic rates
        rates = [(base + step * i) / 1024 for i in range(nr)]
    rows = []
    pth = rates[len(rates) // 2] if kind != 'no-crossing' else rates[0] - (rates[-1] - rates[0] + 0.01)
    A = float(rng.integers(300, 500)) / 1024
    xmax = max(max(abs(p - pth) for p in rates) * ds[-1], 1e-3)
    B = 0.25 / xmax * (1 if rng.random() < 0.8 else -1)
    C = float(rng.uniform(-0.04, 0.04)) / xmax ** 2
    cell = 0
    for j, d in enumerate(ds):
        for i, p in enumerate(rates):
            cell += 1
            if kind in ('planted', 'no-crossing', 'off-grid', 'missing', 'pipeline-codes', 'two-rates',
                        'single-rate', 'single-distance', 'nan-rate', 'duplicated'):
                x = (p - pth) * d
                # the ansatz, rounded to 12 bits, plus a 20-bit tag that makes all cells different (no tied rates)
                f = round((A + B * x + C * x * x) * 4096) / 4096 + cell / 2 ** 20
                if kind not in ('planted', 'no-crossing') and rng.random() < 0.3:
                    f = float(rng.integers(0, 1025)) / 1024 + cell / 2 ** 20
            elif kind in ('ties-mid', 'ties-extreme'):
                f = float(rng.integers(0, 4)) / 8
            elif kind == 'zero-plateau':
                f = 0.0 if i < nr // 2 else float(rng.integers(1, 1025)) / 1024 + cell / 2 ** 20
            elif kind == 'identical-curves':
                f = float((7 * i * i + 3 * i) % 64) / 64
            else:
                f = float(rng.integers(0, 1025)) / 1024 + cell / 2 ** 20
            rows.append([j, j, 2 * d * d, 1, d, p, f])
    if kind == 'ties-mid':
        # unique smallest and largest value in every rate row: only the middle of the order is tied
        for i, p in enumerate(rates):
            sel = [r for r in rows if r[5] == p]
            lo, hi = rng.choice(len(sel), 2, replace=False)
            for t, r in enumerate(sel):
                r[6] = 0.0 if t == lo else (0.875 if t == hi else r[6] + 0.125)
    if kind == 'identical-curves' and nl > 2:
        for r in rows:
            if r[0] == nl - 1:
                r[6] = float((5 * r[4] + int(r[5] * 4096)) % 64) / 64
    if kind == 'pipeline-codes':
        for r in rows:
            r[0] = 0
    if kind == 'missing' and len(rows) > 3:
        drop = set(int(i) for i in rng.choice(len(rows), max(1, len(rows) // 6), replace=False))
        rows = [r for i, r in enumerate(rows) if i not in drop]
    if kind == 'nan-rate':
        rows[int(rng.integers(0, len(rows)))][6] = None
    if kind == 'duplicated':
        for i in rng.choice(len(rows), 2):
            r = list(rows[int(i)])
            if rng.random() < 0.5:          # the same point with another rate: the later row wins in the dict
                r[6] = float(rng.integers(0, 1025)) / 1024
            rows.append(r)
    order = rng.permutation(len(rows))
    return [rows[int(i)] for i in order]


def table_df(rows):
    import pandas as pd
    return pd.DataFrame({
        'code': [f'C{r[0]:03d}' for r in rows], 'code_label': [f'L{r[1]:03d}' for r in rows],
        'n': [int(r[2]) for r in rows], 'k': [int(r[3]) for r in rows], 'd': [int(r[4]) for r in rows],
        'error_rate': [float(r[5]) for r in rows],
        'p_est': [float('nan') if r[6] is None else float(r[6]) for r in rows]})


def rows_token(rows):
    if not rows:
        return '-'
    return ';'.join(f'{r[0]}:{r[1]}:{r[2]}:{r[3]}:{r[4]}:{fr(r[5])}:{fr(r[6])}' for r in rows)


def cells(rows):
    """{rate: [value per code column]} as the helper's DataFrame has them (last row of a (code, rate) wins)"""
    codes = sorted({r[0] for r in rows})
    out = {}
    for p in sorted({r[5] for r in rows}):
        row = []
        for c in codes:
            v = [r[6] for r in rows if r[0] == c and r[5] == p]
            row.append(v[-1] if v else None)
        out[p] = row
    return out


def extreme_tie(rows):
    """True when some rate row has a tied smallest or a tied largest value (NaN counts as largest): numpy's default
    argsort is not stable there (AVX-512 builds), the first / last index is unspecified"""
    for row in cells(rows).values():
        if len(row) < 2:
            continue
        vals = [math.inf if v is None else v for v in row]
        if vals.count(min(vals)) > 1 or vals.count(max(vals)) > 1:
            return True
    return False


def sd_domain(rows):
    keys = [(r[1], r[5]) for r in rows]
    return all(r[6] is not None for r in rows) and len(set(keys)) == len(keys)


def impl_nearest(rows):
    from panqec.analysis import get_p_th_nearest
    try:
        with quiet():
            return str(Fraction(float(get_p_th_nearest(table_df(rows)))))
    except Exception as e:  # noqa: BLE001
        return f'ERR {type(e).__name__}'


def impl_sd(rows, pn):
    """(answer, grid): indices 'ic il ir' in numpy's interpolation grid of the three returned values"""
    from unittest import mock
    import panqec.analysis as pa
    proxy = NumpyProxy()
    try:
        with quiet(), mock.patch.object(pa, 'np', proxy):
            pc, pl, pr = pa.get_p_th_sd_interp(table_df(rows), p_nearest=pn)
    except Exception as e:  # noqa: BLE001
        return f'ERR {type(e).__name__}', (proxy.grids[0] if proxy.grids else None)
    grid = proxy.grids[0]
    idx = []
    for v in (pc, pl, pr):
        if float(v) not in grid:
            return f'not-on-grid:{float(v)!r}', grid
        idx.append(grid.index(float(v)))
    return ' '.join(str(i) for i in idx), grid


def fragile(grid, tok):
    """asks the model whether the exact SD sequence of this table has a tie between neighbouring grid points (or two
    equally deep minima): the implementation then follows rounding noise (std of three equal numbers is 4e-18, not
    0), and the input is left out of the comparison"""
    from harness.core import driver
    return driver([f'winsdfragile {grid_token(grid)} {tok}'])[0] != 'robust'


def stream_helpers(ctx):
    rng = ctx.np_rng(1601)
    s = Stream('window-helpers')
    reps = 10 if ctx.thorough else 3
    for kind in TABLE_KINDS:
        for _ in range(reps):
            rows = gen_table(rng, kind)
            desc = {'table': rows, 'kind': kind}
            tok = rows_token(rows)
            if kind != 'ties-extreme' and not extreme_tie(rows):
                s.add(f'winnearest {tok}', impl_nearest(rows), desc, tag='nearest:' + kind)
            if sd_domain(rows):
                for pn in (None, float(rows[0][5])):
                    got, grid = impl_sd(rows, pn)
                    if grid is None:
                        continue
                    if fragile(grid, tok):
                        s.hist['sd-interp-skipped:rounding-decides'] = s.hist.get('sd-interp-skipped:rounding-decides',
                                                                                  0) + 1
                        continue
                    s.add(f'winsd {grid_token(grid)} {tok}', got, dict(desc, p_nearest=pn), tag='sd-interp:' + kind)
                    s.add(f'wingrid 1/1000 {frx(pn)} {tok} {grid_token(grid)}', 'ok', dict(desc, p_nearest=pn),
                          tag='numpy-grid')
    s.post = lambda op, out: 'ok' if op.startswith('wingrid') and out.startswith('ok') else out
    return s.run()


# ------------------------------------------------------------------ data sets pushed through Analysis(...)

DECODERS = ['MatchingDecoder', 'UnionFindDecoder']
NOISE = [(0.25, 0.25, 0.5), (0.3, 0.3, 0.4)]
CODES = ['Planar2DCode', 'Toric2DCode']


def gen_dataset(rng, n_sets=None):
    sets = []
    combos = [(c, e, d) for c in range(2) for e in range(2) for d in range(2)]
    n_sets = n_sets or int(rng.integers(1, 4))
    for ci in rng.choice(len(combos), n_sets, replace=False):
        c, e, d = combos[int(ci)]
        nd = int(rng.integers(2, 5))
        ds = sorted(int(x) for x in rng.choice(range(3, 14), nd, replace=False))
        nr = int(rng.integers(3, 9))
        base = int(rng.integers(40, 200))
        step = int(rng.integers(2, 20))
        rates = [(base + step * i) / 1000 for i in range(nr)]
        if rng.random() < 0.3:
            rates = [round(p + float(rng.integers(0, 1000)) * 1e-6, 6) for p in rates]
        sets.append({'code': c, 'noise': e, 'decoder': d, 'ds': ds, 'rates': rates,
                     'pth': rates[len(rates) // 2] + float(rng.uniform(-0.5, 0.5)) * step / 1000,
                     'A': float(rng.uniform(0.2, 0.4)), 'B': float(rng.uniform(0.3, 1.5)),
                     'drop': [[int(rng.integers(0, nd)), int(rng.integers(0, nr))]] if rng.random() < 0.3 else []})
    return {'sets': sets, 'n': int(rng.choice([64, 256])), 'seed': int(rng.integers(0, 2 ** 31))}


def ds_records(ds):
    import numpy as np
    rng = np.random.default_rng(ds['seed'])
    recs = []
    n = ds['n']
    for st in ds['sets']:
        for j, d in enumerate(st['ds']):
            for i, p in enumerate(st['rates']):
                if [j, i] in st['drop']:
                    continue
                x = (p - st['pth']) * d
                f = min(max(st['A'] + st['B'] * x + 2.0 * x * x, 0.0), 1.0)
                nf = int(round(f * n))
                su = [False] * nf + [True] * (n - nf)
                rx, ry, rz = NOISE[st['noise']]
                recs.append({
                    'results': {'n_runs': n, 'wall_time': 0.5, 'effective_error': [[0, 0] if s_ else [1, 0] for s_ in su],
                                'success': su, 'codespace': [True] * n},
                    'inputs': {
                        'code': {'name': CODES[st['code']], 'parameters': {'L_x': d, 'L_y': d},
                                 'n': 2 * d * d, 'k': 1, 'd': d},
                        'error_model': {'name': 'PauliErrorModel',
                                        'parameters': {'r_x': rx, 'r_y': ry, 'r_z': rz, 'deformation_name': None,
                                                       'deformation_kwargs': {}}},
                        'decoder': {'name': DECODERS[st['decoder']], 'parameters': {'error_type': None}},
                        'error_rate': p, 'method': {'name': 'direct', 'parameters': {}}}})
    order = rng.permutation(len(recs))
    return [recs[int(i)] for i in order]


_an_cache = {}


def analysis_of(ds, spec=None):
    """Analysis(<files of ds>, overrides=spec); the files are removed at once (everything is read in __init__)"""
    from panqec.analysis import Analysis
    root = tempfile.mkdtemp(prefix='c16w_')
    try:
        with open(os.path.join(root, 'all.json'), 'w') as f:
            json.dump(ds_records(ds), f)
        with quiet():
            return Analysis(root, overrides=spec) if spec is not None else Analysis(root)
    finally:
        shutil.rmtree(root, ignore_errors=True)


class Ids:
    """strings -> their rank in sorted order (so that the model's Nat order is Python's string order)"""

    def __init__(self, strings):
        self.rank = {s: i for i, s in enumerate(sorted(set(strings)))}

    def __call__(self, s):
        return self.rank[s]


FILTER_COLUMNS = ['code', 'error_model', 'decoder', 'bias', 'd', 'n_trials']


def attr_value(v):
    """canonical text of a cell / filter value under pandas' `==` (1 == 1.0 == True are the same value)"""
    try:
        if isinstance(v, str):
            return 's:' + v
        return 'n:' + repr(float(v))
    except Exception:  # noqa: BLE001
        return 'o:' + repr(v)


def encode_results(a, spec_values=()):
    """resrows token of a._results plus the id tables; attrs cover FILTER_COLUMNS"""
    res = a._results
    strings = []
    for col in ('code', 'code_label', 'error_model', 'decoder', 'error_model_label', 'decoder_label'):
        strings += [str(x) for x in res[col]]
    ids = Ids(strings)
    vals = Ids([attr_value(v) for col in FILTER_COLUMNS for v in res[col]] + [attr_value(v) for v in spec_values])
    cols = {c: i for i, c in enumerate(FILTER_COLUMNS)}
    toks = []
    for _, r in res.iterrows():
        attrs = ','.join(f'{cols[c]}={vals(attr_value(r[c]))}' for c in FILTER_COLUMNS)
        pe = float(r['p_est'])
        toks.append(f"{ids(r['code'])}:{ids(r['code_label'])}:{int(r['n'])}:{int(r['k'])}:{int(r['d'])}:"
                    f"{fr(r['error_rate'])}:{fr(pe)}:{ids(r['error_model'])}:{ids(r['decoder'])}:"
                    f"{ids(r['error_model_label'])}:{ids(r['decoder_label'])}:{attrs}")
    return ';'.join(toks), ids, vals, cols


def trunc_token(t):
    if t is None:
        return '-'
    r = 'r-'
    if 'error_rate' in t:
        e = t['error_rate']
        r = f"r:{frx(e.get('min'))}:{frx(e.get('max'))}"
    d = 'd-'
    if 'd' in t:
        d = f"d:{t['d'].get('min', 'x')}:{t['d'].get('max', 'x')}"
    return r + '+' + d


def replace_token(rp):
    if rp is None:
        return '-'
    return f"{frx(rp.get('p_th_fss'))}~{frx(rp.get('p_th_fss_se'))}"


SECTORS = {'total': 0, 'X': 1, 'Z': 2}


def spec_token(spec, vals, cols):
    toks = []
    for o in spec['overrides']:
        f = ','.join(f'{cols[c]}={vals(attr_value(v))}' for c, v in o.get('filters', {}).items()) or '-'
        toks.append(f"{f}#{SECTORS[o.get('sector', 'total')]}#{trunc_token(o.get('truncate'))}#"
                    f"{replace_token(o.get('replace'))}#{1 if o.get('skip') else 0}")
    return '|'.join(toks) or '-'


def triple_token(t, ids):
    return '.'.join(str(ids(str(x))) for x in t)


def state_token(a, ids, with_extra=True):
    """canonical dump of a.skips / a.replaces / a.overrides (the same layout as the driver's)"""
    sk = ','.join(triple_token(t, ids) for t in a.skips) or '-'
    rp = ','.join(sorted(f'{triple_token(t, ids)}={replace_token(v)}' for t, v in a.replaces.items())) or '-'
    ov = ','.join(sorted(f'{SECTORS[s]}.{triple_token(t, ids)}={trunc_token(v)}'
                         for s, dct in a.overrides.items() for t, v in dct.items())) or '-'
    out = f'{sk}#{rp}#{ov}'
    return out + f'#{len(a.extra_thresholds)}' if with_extra else out


def gen_spec(rng, a):
    """an overrides spec whose filters test columns of the results table (some match, some do not)"""
    res = a._results
    out = []
    for _ in range(int(rng.integers(1, 4))):
        row = res.iloc[int(rng.integers(0, len(res)))]
        cols = [str(c) for c in rng.choice(['code', 'decoder', 'bias', 'd', 'error_model'],
                                           int(rng.integers(1, 3)), replace=False)]
        flt = {}
        for c in cols:
            v = row[c]
            flt[c] = v.item() if hasattr(v, 'item') else v
        if rng.random() < 0.15:
            flt['decoder'] = 'NoSuchDecoder'
        o = {'filters': flt}
        k = rng.random()
        rates = sorted(float(x) for x in res['error_rate'].unique())
        if k < 0.4:
            lo = rates[int(rng.integers(0, len(rates)))]
            o['truncate'] = {'error_rate': {'min': lo, 'max': lo + 0.02}}
            if rng.random() < 0.3:
                o['truncate']['d'] = {'min': int(row['d'])}
            if rng.random() < 0.4:
                o['sector'] = str(rng.choice(['X', 'Z', 'total']))
        elif k < 0.7:
            o['replace'] = {'p_th_fss': 0.25, 'p_th_fss_se': 0.0078125} if rng.random() < 0.7 else {'p_th_fss': 0.5}
        else:
            o['skip'] = bool(rng.random() < 0.85)
        out.append(o)
    return {'overrides': out}


def run_calc(a, autotruncate=False, real_fit=False):
    """a.calculate_thresholds(...) with curve_fit observed at the boundary (stubbed unless real_fit: the stub returns
    its start vector).  Returns {'entries': [...], ...} or {'error': 'ERR <type>'}."""
    from unittest import mock
    import numpy as np
    import panqec.analysis as pa
    calls = []
    real = pa.curve_fit

    def spy(f, xdata, ydata, *args, **kw):
        p0 = kw.get('p0')
        rec = {'n': len(ydata), 'p0': None if p0 is None else [float(v) for v in p0]}
        calls.append(rec)
        if real_fit:
            return real(f, xdata, ydata, *args, **kw)
        if len(ydata) < 5:       # scipy: "The number of func parameters=5 must not exceed the number of data points"
            raise TypeError('stub: fewer data points than parameters')
        return np.array(p0, dtype=float), None
    proxy = NumpyProxy()
    try:
        with quiet(), mock.patch.object(pa, 'curve_fit', spy), mock.patch.object(pa, 'np', proxy):
            a.calculate_thresholds(autotruncate=autotruncate)
        th = a._sector_thresholds['total']
        trunc = a._trunc_results['total']
    except Exception as e:  # noqa: BLE001
        return {'error': f'ERR {type(e).__name__}', 'grid': proxy.grids}
    out = []
    k = 0
    keys = ['code', 'error_model_label', 'decoder_label']
    for _, row in th.iterrows():
        key = tuple(row[c] for c in keys)
        e = {'key': key, 'pn': float(row['p_th_nearest']), 'psd': float(row['p_th_sd']),
             'pl': float(row['p_left']), 'pr': float(row['p_right'])}
        if key in a.replaces:
            if 'p_th_fss' in a.replaces[key]:
                e.update(kind='R', vals=[float(row[c]) for c in ('p_th_fss', 'p_th_fss_left', 'p_th_fss_right',
                                                                'p_th_fss_se')],
                         found=bool(row['fit_found']), status=str(row['fit_status']))
            else:
                e.update(kind='U')
        else:
            sel = trunc[(trunc[keys] == key).all(axis=1)]
            first = calls[k] if k < len(calls) else {'n': -1, 'p0': [float('nan')] * 5}
            k += 1 + N_BS                   # every bootstrap refit calls curve_fit, whatever the first fit did
            e.update(kind='F', n=int(len(sel)), p0=first['p0'][0], f0=first['p0'][2], n_fit=first['n'],
                     se=float(row['p_th_fss_se']), bs=[float(x) for x in row['params_bs'][:, 0]])
        out.append(e)
    return {'entries': out, 'grid': proxy.grids, 'calls': len(calls)}


def given_token(res, ids):
    toks = []
    for e in res['entries']:
        head = f"{triple_token(e['key'], ids)}#{e['kind']}#{fr(e['pn'])}#{fr(e['psd'])}#{fr(e['pl'])}#{fr(e['pr'])}"
        if e['kind'] == 'F':
            head += f"#{e['n']}#{fr(e['p0'])}#{fr(e['f0'])}"
        elif e['kind'] == 'R':
            head += '#' + '#'.join(fr(v) for v in e['vals'])
        toks.append(head)
    return '|'.join(toks) or '-'


def label_keys(a):
    res = a._results
    return sorted({tuple(r) for r in res[['code', 'error_model_label', 'decoder_label']].values})


def gen_state(rng, a):
    """skips / replaces / overrides keyed the way calculate_thresholds looks them up (label triples)"""
    keys = label_keys(a)
    res = a._results
    rates = sorted(float(x) for x in res['error_rate'].unique())
    st = {'skips': [], 'replaces': {}, 'overrides': {}}
    for key in keys:
        k = rng.random()
        if k < 0.2 and len(keys) > 1:
            st['skips'].append(key)
        elif k < 0.35:
            st['replaces'][key] = ({'p_th_fss': 0.25, 'p_th_fss_se': 0.0078125} if rng.random() < 0.6 else
                                   {'p_th_fss': 0.375} if rng.random() < 0.7 else {'p_th_fss_se': 0.5})
        if rng.random() < 0.6:
            sel = sorted(float(x) for x in res[(res[['code', 'error_model_label', 'decoder_label']] == key)
                                               .all(axis=1)]['error_rate'].unique())
            t = {}
            c = rng.random()
            if c < 0.8:
                i = int(rng.integers(0, len(sel)))
                j = int(rng.integers(i, len(sel)))
                t['error_rate'] = {}
                if rng.random() < 0.85:
                    t['error_rate']['min'] = sel[i] if rng.random() < 0.8 else None
                if rng.random() < 0.85:
                    t['error_rate']['max'] = sel[j] if rng.random() < 0.8 else None
                if rng.random() < 0.1:     # a window beside the data
                    t['error_rate'] = {'min': rates[-1] + 0.01, 'max': rates[-1] + 0.02}
            if rng.random() < 0.4:
                dsel = sorted(int(x) for x in res['d'].unique())
                t['d'] = {}
                if rng.random() < 0.7:
                    t['d']['min'] = dsel[int(rng.integers(0, len(dsel)))]
                if rng.random() < 0.5:
                    t['d']['max'] = dsel[int(rng.integers(0, len(dsel)))]
            st['overrides'][key] = t
    return st


def set_state(a, st):
    a.skips = [tuple(k) for k in st['skips']]
    a.replaces = {tuple(k): dict(v) for k, v in st['replaces'].items()} if isinstance(st['replaces'], dict) else \
        {tuple(k): dict(v) for k, v in st['replaces']}
    ov = st['overrides'].items() if isinstance(st['overrides'], dict) else st['overrides']
    a.overrides = {'total': {tuple(k): v for k, v in ov}, 'X': {}, 'Z': {}}
    a.extra_thresholds = []


def state_json(st):
    return {'skips': [list(k) for k in st['skips']], 'replaces': [[list(k), v] for k, v in st['replaces'].items()],
            'overrides': [[list(k), v] for k, v in st['overrides'].items()]}


def stream_pipeline(ctx):
    """Analysis(...) on small data sets: apply_overrides, the window branches, the start of the first fit"""
    rng = ctx.np_rng(1602)
    s = Stream('window-pipeline')
    n = 24 if ctx.thorough else 7
    for j in range(n):
        ds = gen_dataset(rng)
        desc = {'dataset': ds}
        a = analysis_of(ds)
        # (1) apply_overrides on a generated spec: what ends up in skips / replaces / overrides
        spec = gen_spec(rng, a)
        desc1 = dict(desc, overrides=spec)
        spec_vals = [v for o in spec['overrides'] for v in o.get('filters', {}).values()]
        try:
            a1 = analysis_of(ds, spec)
            rs, ids, vals, cols = encode_results(a1, spec_vals)
            s.add(f'winapply {rs} {spec_token(spec, vals, cols)}', state_token(a1, ids), desc1, tag='apply-overrides')
            # (2) and what calculate_thresholds does with it (keys are class names, look-ups use labels)
            res = run_calc(a1)
            s.add(f'wincalcspec 0 default {spec_token(spec, vals, cols)} {rs} '
                  f"{given_token(res, ids) if 'entries' in res else '-'}",
                  res['error'] if 'error' in res else f"ok {len(res['entries'])}", desc1, tag='spec-through-analysis')
        except Exception as e:  # noqa: BLE001
            s.add('winapply - -', f'EXC:{type(e).__name__}', desc1, tag='harness-error')
        # (3) the branches themselves: state keyed by label triples, default and autotruncate windows
        rs, ids, vals, cols = encode_results(a)
        for auto in (False, True):
            st = gen_state(rng, a) if j % 3 or auto else {'skips': [], 'replaces': {}, 'overrides': {}}
            set_state(a, st)
            res = run_calc(a, autotruncate=auto)
            # numpy's interpolation grids: one per call of get_p_th_sd_interp = per parameter set, in sorted order, that is
            # neither skipped nor given a manual window
            g = list(res.get('grid', []))
            ns = []
            for k in label_keys(a):
                if auto and k not in a.skips and k not in a.overrides['total'] and g:
                    ns.append(grid_token(g.pop(0)))
                else:
                    ns.append('-')
            mode = 'auto:' + '@'.join(ns) if auto else 'default'
            if auto:
                # parameter sets on which rounding noise decides the window are left out (see `fragile`)
                from harness.core import driver
                probes = []
                for k, g in zip(label_keys(a), ns):
                    if g != '-':
                        kid = triple_token(k, ids).split('.')
                        sel = [t for t in rs.split(';') if [t.split(':')[i] for i in (0, 9, 10)] == kid]
                        probes.append(f"winsdfragile {g} {';'.join(':'.join(t.split(':')[:7]) for t in sel)}")
                if any(x != 'robust' for x in driver(probes)):
                    s.hist['autotruncate-skipped:rounding-decides'] = \
                        s.hist.get('autotruncate-skipped:rounding-decides', 0) + 1
                    continue
            s.add(f"wincalc 0 {mode} {state_token(a, ids, with_extra=False)} {rs} "
                  f"{given_token(res, ids) if 'entries' in res else '-'}",
                  res['error'] if 'error' in res else f"ok {len(res['entries'])}",
                  dict(desc, state=state_json(st), autotruncate=auto),
                  tag=('autotruncate' if auto else 'default') + ('-error' if 'error' in res else ''))
    return s.run()


# ------------------------------------------------------------------ oracle (statement level, no model)

def shuffled(rows, seed):
    import numpy as np
    order = np.random.default_rng(seed).permutation(len(rows))
    return [rows[int(i)] for i in order]


def check_window_case(case):
    """returns None or a description of the violated clause; sets case['_check']"""
    import numpy as np
    kind = case['class']
    if kind == 'nearest':
        # order independence and data range of get_p_th_nearest (distinct n per code, one value per (code, rate))
        rows = case['table']
        rates = sorted({float(r[5]) for r in rows})
        base = impl_nearest(rows)
        if base.startswith('ERR'):
            case['_check'] = 'raised'
            return f'get_p_th_nearest raised {base[4:]}'
        v = float(Fraction(base))
        if v not in rates:
            case['_check'] = 'range'
            return f'p_th_nearest={v!r} is not one of the supplied error rates {rates}'
        for sd in (1, 2, 3):
            other = impl_nearest(shuffled(rows, sd))
            if other != base:
                case['_check'] = 'order'
                return f'p_th_nearest={v!r}, with the rows in another order {other}'
        if len({r[0] for r in rows}) == 1 and v != rates[0]:
            case['_check'] = 'single-code'
            return f'one code only: p_th_nearest={v!r}, smallest rate {rates[0]}'
        return None
    if kind == 'sd-interp':
        rows = case['table']
        pn = case.get('p_nearest')
        rates = sorted({float(r[5]) for r in rows})
        got, grid = impl_sd(rows, pn)
        if got.startswith('ERR') or got.startswith('not-on-grid'):
            case['_check'] = 'raised'
            return f'get_p_th_sd_interp: {got}'
        ic, il, ir = (int(x) for x in got.split())
        pc, pl, pr = grid[ic], grid[il], grid[ir]
        if not (pl <= pc <= pr):
            case['_check'] = 'window-contains-crossover'
            return f'p_left={pl}, p_crossover={pc}, p_right={pr}'
        if pl < rates[0] or pr > rates[-1] + RES * (1 + 1e-9):
            case['_check'] = 'range'
            return f'window [{pl}, {pr}] outside the data range [{rates[0]}, {rates[-1]}] (+ one grid step)'
        for sd in (1, 2):
            other, _ = impl_sd(shuffled(rows, sd), pn)
            if other != got:
                case['_check'] = 'order'
                return f'(crossover, left, right) grid indices {got}, with the rows in another order {other}'
        if 'pth' in case:
            gap = max(b - a for a, b in zip(rates, rates[1:]))
            if abs(pc - case['pth']) > 3 * RES + gap / 4:
                case['_check'] = 'crossover'
                return f'curves cross at {case["pth"]}, p_crossover={pc} (rate spacing {gap})'
            if not (pl <= case['pth'] <= pr):
                case['_check'] = 'window-contains-threshold'
                return f'curves cross at {case["pth"]}, window [{pl}, {pr}]'
        return None
    if kind == 'window':
        # the branches of calculate_thresholds on a data set, with skips / replaces / overrides keyed by label triples
        ds = case['dataset']
        a = analysis_of(ds)
        keys = label_keys(a)
        res_tab = a._results
        st = {'skips': [tuple(k) for k in case['state']['skips']],
              'replaces': [(tuple(k), v) for k, v in case['state']['replaces']],
              'overrides': [(tuple(k), v) for k, v in case['state']['overrides']]}
        set_state(a, st)
        auto = bool(case.get('autotruncate'))
        res = run_calc(a, autotruncate=auto)
        kcols = ['code', 'error_model_label', 'decoder_label']
        reps = dict(st['replaces'])
        ovs = dict(st['overrides'])
        expect_keys = [k for k in keys if k not in st['skips']]
        if 'error' in res:
            # documented reasons only: nothing left to fit, or a manual window without data
            fitted = [k for k in expect_keys if k not in reps]
            if not fitted:
                return None
            for k in fitted:
                if k in ovs:
                    sel = res_tab[(res_tab[kcols] == k).all(axis=1)]
                    er = ovs[k].get('error_rate', {})
                    dd = ovs[k].get('d', {})
                    lo = er['min'] - 1e-9 if er.get('min') is not None else -1.0
                    hi = er['max'] + 1e-9 if er.get('max') is not None else 2.0
                    sel = sel[(sel['error_rate'] >= lo) & (sel['error_rate'] <= hi) & (sel['d'] >= dd.get('min', 0))
                              & (sel['d'] <= dd.get('max', 10 ** 9))]
                    if len(sel) == 0:       # the manual window holds no data point of this parameter set
                        return None
            case['_check'] = 'raised'
            return f"calculate_thresholds raised {res['error'][4:]}"
        got_keys = [e['key'] for e in res['entries']]
        if got_keys != expect_keys:
            case['_check'] = 'skip'
            return f'rows for {got_keys}, expected {expect_keys} (skips {st["skips"]})'
        for e in res['entries']:
            k = e['key']
            sel = res_tab[(res_tab[kcols] == k).all(axis=1)]
            rates = sorted(float(x) for x in sel['error_rate'].unique())
            if e['pn'] not in rates:
                case['_check'] = 'seed-range'
                return f"p_th_nearest={e['pn']} is not an error rate of {k}"
            if k in reps:
                rp = reps[k]
                if 'p_th_fss' in rp:
                    u = rp.get('p_th_fss_se', 0)
                    want = [rp['p_th_fss'], rp['p_th_fss'] - u, rp['p_th_fss'] + u, u]
                    if e['kind'] != 'R' or e['vals'] != want or not e['found'] or e['status'] != 'success':
                        case['_check'] = 'replace'
                        return f"replacement {rp}: reported {e.get('vals')}, found={e.get('found')}"
                continue
            if e['kind'] != 'F':
                case['_check'] = 'replace'
                return f'{k} is not replaced but was not fitted'
            lo, hi = e['pl'], e['pr']
            if k in ovs:
                t = ovs[k]
                er = t.get('error_rate', {})
                # the given limits, widened by a negligible tolerance at most (the code uses 1e-9); the data range
                # where no limit is given
                ok_lo = (er['min'] - 1e-7 <= lo <= er['min']) if er.get('min') is not None else lo == rates[0]
                ok_hi = (er['max'] <= hi <= er['max'] + 1e-7) if er.get('max') is not None else hi == rates[-1]
                if not (ok_lo and ok_hi):
                    case['_check'] = 'truncate'
                    return f'manual window {t}: p_left/p_right = {lo}, {hi}'
                dd = t.get('d', {})
                sel = sel[(sel['d'] >= dd.get('min', 0)) & (sel['d'] <= dd.get('max', 10 ** 9))]
            elif not auto and (lo, hi) != (rates[0], rates[-1]):
                case['_check'] = 'default-window'
                return f'default window [{lo}, {hi}], data [{rates[0]}, {rates[-1]}]'
            elif auto and not (rates[0] <= lo <= e['psd'] <= hi <= rates[-1] + RES * (1 + 1e-9)):
                case['_check'] = 'auto-window'
                return f"autotruncate: p_left={lo} p_th_sd={e['psd']} p_right={hi}, data [{rates[0]}, {rates[-1]}]"
            inside = sel[(sel['error_rate'] >= lo) & (sel['error_rate'] <= hi) & sel['p_est'].notna()]
            if e['n'] != len(inside) or e['n_fit'] != len(inside):
                case['_check'] = 'rows-used'
                return f"{e['n']} rows in trunc_results, {e['n_fit']} handed to curve_fit, {len(inside)} rows of " \
                       f'{k} lie in [{lo}, {hi}]'
            rlo, rhi = float(inside['error_rate'].min()), float(inside['error_rate'].max())
            if not (rlo <= e['p0'] <= rhi):
                case['_check'] = 'start-inside-range'
                return f"first fit starts at p_th={e['p0']}, rows used span [{rlo}, {rhi}]"
            if not (float(inside['p_est'].min()) <= e['f0'] <= float(inside['p_est'].max())):
                case['_check'] = 'start-rate'
                return f"first fit starts at A={e['f0']}, rates used span [{inside['p_est'].min()}, " \
                       f"{inside['p_est'].max()}]"
        # order independence of the window and the start: the same records in another file order
        ds2 = dict(ds, seed=ds['seed'] + 1)
        a2 = analysis_of(ds2)
        set_state(a2, st)
        res2 = run_calc(a2, autotruncate=auto)
        strip = lambda r: [{k: v for k, v in e.items() if k not in ('bs', 'se')} for e in r.get('entries', [])]  # noqa: E731
        if strip(res) != strip(res2):
            case['_check'] = 'order'
            return 'window / start values differ when the result records are read in another order'
        return None
    return None


def window_oracle_cases(ctx, deep):
    rng = ctx.np_rng(1603)
    cases = []
    reps = 6 if deep else 2
    for kind in ('generic', 'planted', 'ties-mid', 'ties-extreme', 'missing', 'nan-rate', 'duplicated',
                 'single-distance', 'pipeline-codes', 'no-crossing', 'single-rate', 'two-rates', 'off-grid'):
        for _ in range(reps):
            rows = gen_table(rng, kind)
            if kind == 'duplicated':
                # exact copies only: a (code, rate) with two different values has no order-independent meaning
                seen = {}
                rows = [r for r in rows if seen.setdefault((r[0], r[5]), r[6]) == r[6]]
            cases.append({'class': 'nearest', 'kind': kind, 'table': rows})
    for kind in ('generic', 'planted', 'missing', 'off-grid', 'no-crossing', 'two-rates'):
        for _ in range(reps):
            rows = gen_table(rng, kind)
            if len({r[1] for r in rows}) < 2:
                continue
            cases.append({'class': 'sd-interp', 'kind': kind, 'table': rows,
                          'p_nearest': None if rng.random() < 0.5 else min(float(r[5]) for r in rows)})
    # curves on the ansatz, crossing inside the range: the crossover found by interpolation
    from harness.props import c16
    for _ in range(4 if deep else 2):
        inst = c16.gen_instance(rng)
        rows = [[0, j, 2 * d * d, 1, d, p, round(c16.ansatz(inst, p, d) * 20000) / 20000]
                for j, d in enumerate(inst['ds']) for p in inst['ps']]
        cases.append({'class': 'sd-interp', 'kind': 'ansatz', 'table': shuffled(rows, 5), 'pth': inst['pth'],
                      'p_nearest': min(inst['ps'])})
    for j in range(8 if deep else 3):
        ds = gen_dataset(rng)
        a = analysis_of(ds)
        st = gen_state(rng, a) if j else {'skips': [], 'replaces': {}, 'overrides': {}}
        cases.append({'class': 'window', 'dataset': ds, 'state': state_json(st), 'autotruncate': bool(j % 2)})
    return cases


def window_fail_key(case):
    k = {'class': case['class']}
    if '_check' in case:
        k['check'] = case['_check']
    if 'kind' in case:
        k['kind'] = case['kind']
    return k
