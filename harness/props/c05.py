"""C05 - decoders return valid corrections that reproduce the measured syndrome.

Also hosts the machinery shared with C06 and C09: boundary spies on PyMatching,
ldpc's BpOsdDecoder, the union-find Support and the sweep decoders; canonical
text of the recorded boundary events; the driver ops that replay the Lean model
glue (Model/Decoders.lean) on the recorded solver answers.
"""
from __future__ import annotations

import contextlib
import io
import itertools
import math
import warnings
from fractions import Fraction
from typing import Any, Dict, List, Optional

import numpy as np

from harness.core import Stream
from harness.util import vec, stack, first_failures

ID = 'C05'
LEVEL = 'proof'
LEVEL_TEXT = ('Lean theorems for every CSS parity-check matrix (pure-X / pure-Z rows, any size), every error and '
              'every weight vector: under the stated solver contracts the corrections assembled by MatchingDecoder, '
              'UnionFindDecoder and BeliefPropagationOSDDecoder (CSS split; non-CSS full matrix with the halves '
              'swapped back) have length 2n, are binary and have exactly the measured syndrome, so error+correction '
              'is in the code space; zero syndrome gives zero correction for matching (minimum-weight contract, '
              'positive weights); which matrix / sector syndrome / weights / output half go together is part of '
              'the proved model, which is tied to the code on every run by boundary spies that replay the model '
              'glue on the recorded solver answers. XCubeMatchingDecoder: its whole pure-Python glue (sub-problems '
              'derived from the lattice size, syndrome slicing, get_matched_pairs, connected components, projection '
              'and loop scatters, decode_plane, minimum-weight choice, BP-OSD call) is modelled on the all-sizes '
              'lattice models; theorems for every lattice size, syndrome and solver answer: a returned correction is '
              'binary of length 2n; the XCube parity-check matrix is CSS; the Z half is the ldpc answer and (ldpc '
              'contract) reproduces the X-row syndrome; on every lattice with all sides >= 2 (ordered or not) decode '
              'raises no KeyError (every dict look-up finds its key, for every syndrome vector, solver answer and '
              'list(set) order that keeps the elements); regression theorems for the code before 869642d '
              '(decode_plane always given (Lx, Ly)): its loop-scatter keys all exist iff Lx <= Ly <= Lz, '
              'kernel-evaluated KeyError (1,4,0) on 3x2x2 and wrong cube syndrome on 2x2x3, both inputs decoded '
              'to the error itself by the repaired model. '
              'MemoryBeliefPropagationDecoder: its integer/boolean glue is modelled with the float message passing '
              'as a parameter; for every matrix, syndrome and messages: with max_bp_iter >= 1 the result is binary '
              'of length 2n and is exactly the vector tested by the last executed iteration (the final reverse and '
              'swap cancel); the loop stops at the first iteration that reaches the syndrome, so a run that reaches '
              'it within the budget reproduces the syndrome; max_bp_iter = 0 raises UnboundLocalError. '
              'The INTERNALS of the union-find decoder (uf_support.py: cluster '
              'growth by half-edges, find_root with path compression, merge_clusters, _update_parents, the '
              'breadth-first spanning tree, peeling, the correction vector) are modelled executably '
              '(Model/UnionFind.lean) and compared with the running implementation step by step on every run; for '
              'every closed multigraph (0/1 matrix, every column of weight 0 or 2, two rows sharing fewer than 256 '
              'columns - parallel edges allowed: ALL toric lattices, sides >= 2), every error and every iteration '
              'order of the Python sets it is proved that the growth '
              'loop terminates, every cluster is connected and even, _build_tree returns a spanning tree, peeling '
              '(one qubit per syndrome-carrying leaf, the first it shares with its parent: the code since the repair '
              'of the former finding D15) returns qubits whose boundary is exactly the defect set, and '
              'Support.decode() returns a binary '
              'length-n vector with exactly the given syndrome, which discharges the union-find solver contract: '
              'UnionFindDecoder.decode reproduces the syndrome with no hypothesis left; with dangling edges (planar '
              'codes) partial correctness is proved and non-termination exhibited; the bound 256 is necessary (uint8 '
              'product H H^T wraps: kernel-evaluated, and the implementation hangs on exactly 256 parallel edges). '
              'Regression theorems about the code BEFORE the repair (kept as old... definitions): it is proved to FAIL '
              'on Toric2DCode(2,2) (both parallel qubits of a tree edge flipped: X on qubit 0 answered by qubits 0 and '
              '2, zero syndrome) where the repaired model returns the error itself, and to agree with the repaired '
              'code, outcome and every peeling trace, on every simple graph for every syndrome and schedule (the repair '
              'is conservative). ALL LATTICE SIZES '
              '(Properties/C05UnionFindToric): for every Lx, Ly >= 2 the two matrices UnionFindDecoder hands to '
              'Support (code.Hz = Z block of the vertex rows, code.Hx = X block of the face rows of the matrix '
              'assembled from the all-sizes lattice model of Toric2DCode) are proved to be the vertex/qubit and '
              'face/qubit incidence matrices, every qubit lies in exactly two vertex and two face operators and two '
              'generators share at most four qubits, so both are closed multigraphs: for '
              'every Toric2DCode(Lx, Ly) with sides >= 2 (the whole supported family, sides of length 2 included), '
              'every Pauli error and every set iteration order the modelled '
              'UnionFindDecoder.decode returns a binary length-2n vector with exactly the measured syndrome and '
              'error+correction is in the code space (is_success iff the residual is a product of generators, with '
              'C01 valid_code and C04); for every Lx, Ly >= 3 two generators of one type share at most one qubit '
              '(simple graphs), for EVERY size with a side equal to 2 both sector matrices are proved to have parallel '
              'edges: closedGraph holds exactly for sides >= 3, closedMultigraph for all.')
LEVEL_NOTE = ('trusted (modelled, not verified): PyMatching Matching.decode (returns a minimum-weight solution of '
              'H c = s), ldpc BpOsdDecoder.decode (return value solves H c = s for s in im H); each contract is '
              'tested on every run by the spy. uf_support.Support is not a black box: its internals are modelled, tied '
              'by a step-granular correspondence (growth states, parent arrays incl. path compression, cluster '
              'records, spanning trees, peeling rounds, peeled index lists, correction) and proved totally correct on '
              'closed multigraphs for '
              'every set iteration order; CPython set iteration order is not modelled: recorded from the run and fed '
              'to the model, which validates it. That Toric2DCode with sides >= 2 has closed-multigraph sector '
              'matrices (closed simple graphs for sides >= 3) is '
              'proved for all sizes about the hand-written lattice model (tied to the class by the C01 '
              'correspondence and, per run, by the op uf.toric: the sector matrices of the model equal code.Hz / '
              'code.Hx and are in the proved class, sizes up to 7x4, 10x10 thorough). The old... definitions model '
              'uf_support.py before the repair c364d83 and are tied to nothing on the current tree (regression '
              'theorems only; they were the compared model until that commit). Tested only, not '
              'proved: constructibility of every (decoder, allowed code) pair; "returns a binary length-2n vector '
              'without raising" for the sweep-match decoders, whose sweepers are modelled by interface only (sweep '
              'automata: C10). MBP: the float message passing (log_exp_bias, tanh_prod, gamma/delta updates) is not '
              'modelled; the hard decisions enter as a parameter and are read off the vectors handed to '
              'measure_syndrome in the correspondence. XCubeMatchingDecoder: modelled completely and compared on '
              'every run (every sliced syndrome, solver answer, helper result, scatter vector, result or KeyError '
              'key, all lattices in {2,3}^3 and a few with a side of 4); not proved: that the cube (Z-row) '
              'syndrome is reproduced (correctness of the projection / loop-filling heuristic; tested by the '
              'oracle); termination of the while walk of get_matched_pairs does not hold in general (a cycle in '
              'a PyMatching answer makes it run forever: observed with zero matching weights, pure X noise at '
              'rate 1/2 on 3x3x3; the model reports a hang exactly when the loop does not terminate - proved by '
              'pigeonhole - and the thorough tier replays that input against the watchdog); the no-KeyError theorem does not exclude the non-KeyError exceptions (IndexError on a syndrome '
              'of the wrong length, numpy shape errors on solver answers of the wrong length); list(set) order is '
              'modelled as ascending in the driver (CPython, at most 4 small ints: sides <= 4), the theorems hold '
              'for every order that keeps the elements.')
TECHNIQUE = ('Lean 4 proof over a model of the decoder glue with the third-party solver as a parameter carrying '
             'an explicit contract + mock spies at the solver boundary replayed through the compiled model driver')
TRUSTED = ['PyMatching Matching(H, spacelike_weights=w).decode(s): minimum-weight solution of H c = s (mod 2) '
           '(contract hypothesis; tested against the full coset in C09)',
           'ldpc BpOsdDecoder.decode(s): returned vector solves H c = s whenever s is in the image of H; it is a '
           'function of (matrix, channel probabilities, syndrome) (contract hypothesis; tested by the spy)',
           'panqec uf_support.Support(s, H).decode(): contract hypothesis of the glue theorem in Properties/C05, '
           'DISCHARGED for the Lean model of the internals on closed multigraphs by Properties/C05UnionFind '
           '(uf_solver_contract, every set iteration order); model tied to the implementation by a step-granular '
           'correspondence on every run; numpy/scipy semantics of the matrix operations used by uf_support.py '
           '(boolean-mask assignment on csr matrices, np.where order, np.unique, argmax of a boolean row = first '
           'True or 0, uint8 product H @ H.T, set '
           'iteration order fixed for one set object) as transcribed',
           'SweepDecoder3D / RotatedSweepDecoder3D .decode return a Z-only vector of length 2n (black box here; C10)',
           'XCubeMatchingDecoder: CPython iteration order of a set of at most four ints below 8 is ascending '
           '(list(nodes_in_component)[0] becomes plane_proj; sides <= 4), for a side >= 5 the list(set) orders CPython '
           'produced are recorded and handed to the model (stream xcube-long-sides; the model and its theorems are '
           'parametric in that order); set.pop() order does not change the set of popped nodes; '
           'hand-written lattice models of XCubeCode / Toric2DCode (tied to the code by C01/C02 and by the matrices '
           'the spies record)']
ASSUMPTIONS = ['syndromes are syndromes of Pauli errors (s = H e); parity-check entries are 0/1',
               'per-qubit marginals px+py, pz+py lie in (0, 1/2) for the zero-syndrome claim (positive weights)']
ANCHOR_FILES = ['panqec/decoders/matching/_matching_decoder.py', 'panqec/decoders/union_find/uf_decoder.py',
                'panqec/decoders/union_find/uf_support.py',
                'panqec/decoders/belief_propagation/bposd_decoder.py',
                'panqec/decoders/sweepmatch/_sweep_match_decoder.py',
                'panqec/decoders/sweepmatch/_rotated_sweep_match_decoder.py',
                'panqec/decoders/base/_base_decoder.py', 'panqec/config.py',
                'panqec/error_models/_base_error_model.py', 'panqec/decoders/xcube/_xcube_matching_decoder.py',
                'panqec/decoders/belief_propagation/mbp_decoder.py']
PROPERTY_MODULES = ['PanqecVerif.Properties.C05', 'PanqecVerif.Properties.C05UnionFind',
                    'PanqecVerif.Properties.C05UnionFindToric', 'PanqecVerif.Properties.C05XCube',
                    'PanqecVerif.Properties.C05Mbp']

warnings.filterwarnings('ignore')

# ------------------------------------------------------------------ catalogue

# sizes inside the supported families of DESIGN section 4, n <= ~150
SIZES = {
    'Toric2DCode': [(2, 2), (2, 3), (3, 3), (3, 2)],
    'Planar2DCode': [(2, 2), (2, 3), (3, 3), (3, 2)],
    'RotatedPlanar2DCode': [(2, 2), (3, 3), (2, 3), (3, 2)],
    'Color666PlanarCode': [(2, 2), (3, 3)],
    'Color666ToricCode': [(2, 2)],
    'Color488Code': [(2, 2), (3, 3)],
    'Color3DCode': [(2, 2, 2)],
    'Toric3DCode': [(2, 2, 2), (2, 2, 3), (3, 3, 3), (3, 2, 2)],
    'Planar3DCode': [(2, 2, 2), (2, 2, 3), (3, 3, 3), (2, 3, 2)],
    'RotatedPlanar3DCode': [(2, 2, 2), (2, 2, 3), (3, 3, 3), (3, 2, 2)],
    'RotatedToric3DCode': [(2, 2, 2), (2, 2, 3), (2, 4, 2)],
    'RhombicToricCode': [(2, 2, 2)],
    'RhombicPlanarCode': [(2, 2, 2), (2, 2, 3), (3, 3, 3)],
    'XCubeCode': [(2, 2, 2), (2, 2, 3), (3, 3, 3), (3, 2, 2)],
    'HollowPlanar3DCode': [(2, 2, 2), (2, 2, 3), (3, 3, 3)],
    'HollowRhombicCode': [(2, 2, 3), (3, 3, 3)],
}
TINY = [('Toric2DCode', (2, 2)), ('Planar2DCode', (2, 2)), ('Planar2DCode', (2, 3)),
        ('RotatedPlanar2DCode', (3, 3))]

# dyadic noise directions and rates: every probability is an exact binary fraction
DIRECTIONS = [(0.25, 0.25, 0.5), (0.5, 0.25, 0.25), (0.125, 0.125, 0.75), (0.0, 0.0, 1.0),
              (0.25, 0.5, 0.25), (1.0, 0.0, 0.0)]
RATES = [0.125, 0.0625, 0.25, 0.03125]

COMPLETE = ('MatchingDecoder', 'UnionFindDecoder', 'BeliefPropagationOSDDecoder')


def make_code(name, size, deformation=None):
    from panqec.config import CODES
    code = CODES[name](*size)
    if deformation:
        code.deform(deformation)
    return code


def make_noise(direction, deformation=None):
    from panqec.error_models import PauliErrorModel
    return PauliErrorModel(*direction, deformation_name=deformation)


def make_decoder(name, code, em, p, kwargs=None):
    from panqec.config import DECODERS
    return DECODERS[name](code, em, p, **(kwargs or {}))


def allowed_pairs():
    """(decoder name, code name) for every declared pair; None = all registered codes."""
    from panqec.config import CODES, DECODERS
    out = []
    for dname, dcls in DECODERS.items():
        codes = list(CODES) if dcls.allowed_codes is None else list(dcls.allowed_codes)
        for c in codes:
            out.append((dname, c))
    return out


def quiet():
    return contextlib.redirect_stdout(io.StringIO())


class DecoderTimeout(Exception):
    """a decoder call did not return (reported as a failing input, never a harness hang)"""


EXPIRED = [0]


@contextlib.contextmanager
def time_limit(seconds=20):
    """watchdog around implementation calls (main thread, Unix).  After a few expirations in one run the limit
    drops to 2 s: an implementation that hangs on many inputs must not turn a check into hours of waiting."""
    import signal
    if EXPIRED[0] >= 6:
        seconds = min(seconds, 2)

    def handler(signum, frame):
        EXPIRED[0] += 1
        raise DecoderTimeout(f'no answer within {seconds} s')
    try:
        old = signal.signal(signal.SIGALRM, handler)
    except ValueError:       # not in the main thread: no watchdog
        yield
        return
    signal.setitimer(signal.ITIMER_REAL, seconds)
    try:
        yield
    finally:
        signal.setitimer(signal.ITIMER_REAL, 0)
        signal.signal(signal.SIGALRM, old)


# ------------------------------------------------------------------ canonical text

def frac(x, maxden=1 << 20) -> Optional[Fraction]:
    """exact value of a float known to be (close to) a small rational; None if it is not"""
    x = float(x)
    if not math.isfinite(x):
        return None
    f = Fraction(x).limit_denominator(maxden)
    if abs(float(f) - x) > 1e-9 * max(1.0, abs(x)):
        return None
    return f


def prior_of_weight(w) -> Optional[Fraction]:
    """invert w = -log((p + eps) / (1 - p + eps)) (eps = 1e-20 is far below resolution)"""
    w = float(w)
    if not math.isfinite(w):
        return None
    if w > 700:
        return Fraction(0)
    return frac(1.0 / (1.0 + math.exp(w)))


def fr(x: Optional[Fraction]) -> str:
    if x is None:
        return 'nan'
    return str(x.numerator) if x.denominator == 1 else f'{x.numerator}/{x.denominator}'


def rats(xs) -> str:
    """comma separated, run-length compressed (same format as Drv.showRats)"""
    xs = list(xs)
    if not xs:
        return '-'
    items = []
    for x in xs:
        s = x if isinstance(x, str) else fr(x)
        if items and items[-1][0] == s:
            items[-1][1] += 1
        else:
            items.append([s, 1])
    return ','.join(s if k == 1 else f'{s}*{k}' for s, k in items)


def fracs(arr) -> List[Optional[Fraction]]:
    return [frac(x) for x in np.asarray(arr, dtype=float).reshape(-1)]


def dense(H) -> np.ndarray:
    if hasattr(H, 'toarray'):
        H = H.toarray()
    return np.asarray(H).astype(int)


def ivec(v) -> str:
    try:
        a = np.asarray(v).reshape(-1)
        return vec([int(x) for x in a])
    except Exception:  # noqa: BLE001
        return 'bad-vector'


# ------------------------------------------------------------------ boundary spies

class Recorder:
    """ordered boundary events of one decoder object"""

    def __init__(self):
        self.events: List[tuple] = []
        self.matrices: List[np.ndarray] = []     # dictionary, first-appearance order
        self.objs: Dict[int, Dict[str, Any]] = {}

    def key(self, M: np.ndarray) -> int:
        for i, A in enumerate(self.matrices):
            if A.shape == M.shape and np.array_equal(A, M):
                return i
        self.matrices.append(M)
        return len(self.matrices) - 1

    def dict_text(self) -> str:
        return ';'.join(stack(m.tolist()) for m in self.matrices) if self.matrices else '-'


@contextlib.contextmanager
def spies(rec: Recorder, weights_mode='prior'):
    """Patch the third-party solvers *as imported by the glue modules* with
    call-through wrappers that record constructor arguments, update_channel_probs,
    decode arguments and results."""
    from unittest import mock
    import panqec.decoders.matching._matching_decoder as mmod
    import panqec.decoders.belief_propagation.bposd_decoder as bmod
    import panqec.decoders.union_find.uf_decoder as umod
    from panqec.decoders import SweepDecoder3D, RotatedSweepDecoder3D

    RealMatching, RealBp, RealSupport = mmod.Matching, bmod.BpOsdDecoder, umod.Support

    def wtext(w):
        if w is None:
            return ['None']
        a = np.asarray(w, dtype=float).reshape(-1)
        return [prior_of_weight(x) for x in a] if weights_mode == 'prior' else [frac(x) for x in a]

    class SpyMatching:
        def __init__(self, H=None, weights=None, *args, **kwargs):
            self._real = RealMatching(H, weights, *args, **kwargs)
            w = kwargs.get('spacelike_weights', weights)
            self._k = rec.key(dense(H))
            self._w = wtext(w)
            extra = sorted(k for k in kwargs if k != 'spacelike_weights')
            if extra or args:
                rec.events.append(('note', 'matching-extra-args:' + ','.join(extra)))

        def decode(self, z, *args, **kwargs):
            zin = np.array(z).copy()
            r = self._real.decode(z, *args, **kwargs)
            rec.events.append(('dec', self._k, self._w, zin, np.array(r).copy()))
            return r

        def __getattr__(self, name):
            return getattr(self._real, name)

    class SpyBp:
        def __init__(self, H, *args, **kwargs):
            self._real = RealBp(H, *args, **kwargs)
            self._k = rec.key(dense(H))
            er = kwargs.get('error_rate')
            ncols = dense(H).shape[1]
            self._p = [frac(er)] * ncols if er is not None else ['None']
            rec.events.append(('ctor', self._k, int(kwargs.get('schedule') == 'serial'),
                               frac(er) if er is not None else None, kwargs.get('max_iter'),
                               kwargs.get('osd_order'), kwargs.get('bp_method')))

        def update_channel_probs(self, p):
            self._p = fracs(p)
            rec.events.append(('upd', self._k, list(self._p)))
            return self._real.update_channel_probs(p)

        def decode(self, s):
            sin = np.array(s).copy()
            r = self._real.decode(s)
            rec.events.append(('dec', self._k, list(self._p), sin, np.array(r).copy()))
            return r

        def __getattr__(self, name):
            if name in ('osdw_decoding', 'osd0_decoding', 'bp_decoding', 'decoding'):
                rec.events.append(('note', 'read-buffer:' + name))
            return getattr(self._real, name)

    class SpySupport:
        def __init__(self, syndrome, H, *args, **kwargs):
            self._s = np.array(syndrome).copy()
            self._k = rec.key(dense(H))
            self._real = RealSupport(syndrome, H, *args, **kwargs)

        def decode(self, *args, **kwargs):
            r = self._real.decode(*args, **kwargs)
            rec.events.append(('dec', self._k, [], self._s, np.array(r).copy()))
            return r

        def __getattr__(self, name):
            return getattr(self._real, name)

    def sweep_wrapper(real):
        def decode(self, syndrome, **kwargs):
            sin = np.array(syndrome).copy()
            r = real(self, syndrome, **kwargs)
            rec.events.append(('sub', sin, np.array(r).copy()))
            return r
        return decode

    with mock.patch.object(mmod, 'Matching', SpyMatching), \
            mock.patch.object(bmod, 'BpOsdDecoder', SpyBp), \
            mock.patch.object(umod, 'Support', SpySupport), \
            mock.patch.object(SweepDecoder3D, 'decode', sweep_wrapper(SweepDecoder3D.decode)), \
            mock.patch.object(RotatedSweepDecoder3D, 'decode', sweep_wrapper(RotatedSweepDecoder3D.decode)):
        yield rec


def event_text(ev) -> str:
    kind = ev[0]
    if kind == 'ctor':
        _, k, serial, er, mi, oo, bm = ev
        return f'ctor:{k}:{serial}:{fr(er)}:{mi}:{oo}:{bm}'
    if kind == 'upd':
        return f'upd:{ev[1]}:{rats(ev[2])}'
    if kind == 'dec':
        _, k, w, s, a = ev
        return f'dec:{k}:{rats(w)}:{ivec(s)}:{ivec(a)}'
    if kind == 'sub':
        return f'sub:{ivec(ev[1])}:{ivec(ev[2])}'
    return f'note:{ev[1]}'


def event_key(ev) -> str:
    kind = ev[0]
    if kind in ('ctor', 'upd', 'dec'):
        return str(ev[1])
    return 's' if kind == 'sub' else 'n'


def events_text(evs) -> str:
    """events grouped by object (stable), same canonical order as Drv.showEvents"""
    if not evs:
        return '-'
    return ';'.join(event_text(e) for e in sorted(evs, key=event_key))


def table_text(events) -> str:
    ent = []
    seen = set()
    for ev in events:
        if ev[0] == 'dec':
            e = f'{ev[1]}~{rats(ev[2])}~{ivec(ev[3])}~{ivec(ev[4])}'
            if e not in seen:
                seen.add(e)
                ent.append(e)
    return ';'.join(ent) if ent else '-'


TIMED_OUT = set()     # decoders / input classes that hung once in this run: not called again (bounds the run time)


def _k(keyfn, case):
    import json
    return json.dumps(keyfn(case), sort_keys=True, default=str)


def bounded(check, keyfn):
    """wrap a check_case so that after one hang the other cases of the same input class
    (same match key) are skipped; other classes are still evaluated"""
    def run(case):
        if _k(keyfn, case) in TIMED_OUT:
            return None
        msg = check(case)
        if msg and 'DecoderTimeout' in msg:
            TIMED_OUT.add(_k(keyfn, case))
        return msg
    return run


ERRMAP = {'ValueError': 'ERR ValueError', 'IndexError': 'ERR IndexError', 'AttributeError': 'ERR AttributeError'}


def run_history(dec, rec: Recorder, syndromes, check_inputs=True):
    """decode the syndromes one after the other on one object; returns the canonical
    text per call (events=>result) and the raw results"""
    texts, results = [], []
    for s in syndromes:
        i0 = len(rec.events)
        s_before = np.array(s).copy()
        try:
            with quiet(), time_limit():
                c = dec.decode(s)
            res = ivec(c)
            results.append(np.array(c).copy())
        except Exception as e:  # noqa: BLE001
            res = ERRMAP.get(type(e).__name__, f'EXC:{type(e).__name__}')
            results.append(None)
            if isinstance(e, DecoderTimeout):
                TIMED_OUT.add(type(dec).__name__)
                texts.append('-=>' + res)
                break
        if check_inputs and not (np.asarray(s).shape == s_before.shape and np.array_equal(np.asarray(s), s_before)):
            res += ' INPUT-MODIFIED'
        evs = rec.events[i0:]
        texts.append(events_text(evs) + '=>' + res)
    return texts, results


def prob_text(em, code, p):
    pi, px, py, pz = em.probability_distribution(code, p)
    return rats(fracs(px)), rats(fracs(py)), rats(fracs(pz))


def H_text(code):
    return stack(dense(code.stabilizer_matrix).tolist())


def syn_text(syndromes):
    return ';'.join(ivec(s) for s in syndromes) if len(syndromes) else '-'


# ------------------------------------------------------------------ one correspondence case

def decoder_case(s: Stream, spec: Dict[str, Any], syndromes, tag):
    """Build the decoder described by `spec` under the spies, decode the history,
    add the op that replays the model glue on the recorded answers."""
    dname = spec['decoder']
    code = make_code(spec['code'], spec['size'], spec.get('code_deformation'))
    em = make_noise(spec['direction'], spec.get('noise_deformation'))
    p = spec['p']
    kwargs = dict(spec.get('kwargs') or {})
    wmode = 'prior'
    given = None
    if 'weights' in spec:                      # explicit weights=(wx, wz) for MatchingDecoder
        wx, wz = spec['weights']
        given = (np.array(wx, dtype=float), np.array(wz, dtype=float))
        kwargs['weights'] = given
        wmode = 'given'
    rec = Recorder()
    n = code.n
    inp = dict(spec)
    inp['syndromes'] = [[int(x) for x in np.asarray(sy).reshape(-1)] for sy in syndromes]
    with spies(rec, wmode):
        try:
            with quiet():
                dec = make_decoder(dname, code, em, p, kwargs)
            ctor_err = None
        except Exception as e:  # noqa: BLE001
            ctor_err = ERRMAP.get(type(e).__name__, f'EXC:{type(e).__name__}')
        if ctor_err is None and dname in TIMED_OUT:
            impl, results = 'skipped: this decoder did not return on an earlier input', []
        elif ctor_err is None:
            texts, results = run_history(dec, rec, syndromes)
            impl = ' || '.join(texts)
        else:
            impl, results = ctor_err, []
    px, py, pz = prob_text(em, code, p)
    H = H_text(code)
    D, T = rec.dict_text(), table_text(rec.events)
    S = syn_text(syndromes)
    if dname == 'MatchingDecoder':
        et = kwargs.get('error_type')
        et = 'none' if et is None else str(et)
        w1 = rats(fracs(given[0])) if given else '-'
        w2 = rats(fracs(given[1])) if given else '-'
        op = f'dec.matching {H} {n} {et} {"given" if given else "default"} {w1} {w2} {px} {py} {pz} {D} {T} {S}'
    elif dname == 'UnionFindDecoder':
        op = f'dec.uf {H} {n} {D} {T} {S}'
    elif dname == 'BeliefPropagationOSDDecoder':
        mi = kwargs.get('max_bp_iter', 1000)
        oo = kwargs.get('osd_order', 10)
        bm = kwargs.get('bp_method', 'minimum_sum')
        cu = int(bool(kwargs.get('channel_update', False)))
        op = f'dec.bposd {H} {n} {px} {py} {pz} {fr(frac(p))} {mi} {oo} {bm} {cu} {D} {T} {S}'
    elif dname in ('SweepMatchDecoder', 'RotatedSweepMatchDecoder'):
        subs = [ivec(e[2]) for e in rec.events if e[0] == 'sub']
        op = f'dec.sweepmatch {H} {n} {px} {py} {pz} {D} {T} {";".join(subs) if subs else "-"} {S}'
    else:
        raise ValueError(dname)
    nontrivial = any(np.any(np.asarray(sy)) for sy in syndromes)
    s.add(op, impl, inp, nontrivial=bool(nontrivial), tag=tag)
    return results


# ------------------------------------------------------------------ syndromes

def all_syndromes(code) -> List[np.ndarray]:
    """every valid syndrome (image of the stabilizer matrix) of a tiny code"""
    n = code.n
    seen = {}
    basis = []
    for q in range(2 * n):
        e = np.zeros(2 * n, dtype='uint8')
        e[q] = 1
        basis.append(np.asarray(code.measure_syndrome(e)).astype('uint8'))
    span = {bytes(np.zeros(len(basis[0]), dtype='uint8'))}
    for b in basis:
        new = set()
        for v in span:
            w = (np.frombuffer(v, dtype='uint8') + b) % 2
            new.add(bytes(w.astype('uint8')))
        span |= new
    out = sorted(span)
    return [np.frombuffer(v, dtype='uint8').copy() for v in out]


def random_errors(code, em, rng, k, rates=(0.02, 0.06, 0.15, 0.3)):
    """errors at several rates (sparse regime included) plus single-qubit errors"""
    n = code.n
    out = []
    for i in range(k):
        r = rates[i % len(rates)]
        kind = rng.random((n,))
        e = np.zeros(2 * n, dtype='uint8')
        pauli = rng.integers(1, 4, n)
        hit = kind < r
        e[:n] = (hit & ((pauli == 1) | (pauli == 2))).astype('uint8')
        e[n:] = (hit & ((pauli == 3) | (pauli == 2))).astype('uint8')
        out.append(e)
    return out


def syndromes_of(code, errors):
    return [np.asarray(code.measure_syndrome(e)).copy() for e in errors]


# ------------------------------------------------------------------ correspondence

def noise_variants(cname, rng, k):
    """(direction, noise deformation, p) triples"""
    from panqec.config import CODES
    defos = [None] + list(CODES[cname].deformation_names)
    out = []
    for i in range(k):
        d = DIRECTIONS[int(rng.integers(0, len(DIRECTIONS)))]
        out.append((d, defos[int(rng.integers(0, len(defos)))], RATES[int(rng.integers(0, len(RATES)))]))
    return out


def correspondence(ctx):
    from panqec.config import CODES, DECODERS
    rng = ctx.np_rng(5)
    streams = []
    thorough = ctx.thorough

    # --- exhaustive syndromes on tiny codes, complete decoders
    s = Stream('tiny-exhaustive-syndromes')
    for cname, size in TINY:
        code = make_code(cname, size)
        syns = all_syndromes(code)
        chunk = 8
        for dname in COMPLETE:
            if cname not in (DECODERS[dname].allowed_codes or list(CODES)):
                continue
            variants = [((0.25, 0.25, 0.5), None, 0.125)] + noise_variants(cname, rng, 2 if thorough else 1)
            if dname == 'UnionFindDecoder':
                variants = variants[:1]
            for (d, nd, p) in variants:
                order = list(range(len(syns)))
                rng.shuffle(order)
                for i in range(0, len(order), chunk):
                    hist = [syns[j] for j in order[i:i + chunk]]
                    spec = {'decoder': dname, 'code': cname, 'size': list(size), 'direction': list(d),
                            'noise_deformation': nd, 'p': p}
                    if dname == 'BeliefPropagationOSDDecoder':
                        spec['kwargs'] = {'max_bp_iter': int(rng.choice([5, 1000])), 'osd_order': int(rng.choice([0, 10]))}
                    decoder_case(s, spec, hist, f'{dname}:{cname}')
    streams.append(s.run())

    # --- every decoder with glue x every allowed code x sizes x deformations x noise
    s = Stream('allowed-codes-random-errors')
    for dname in ('MatchingDecoder', 'UnionFindDecoder', 'BeliefPropagationOSDDecoder',
                  'SweepMatchDecoder', 'RotatedSweepMatchDecoder'):
        allowed = DECODERS[dname].allowed_codes or list(CODES)
        for cname in allowed:
            sizes = SIZES[cname] if thorough else SIZES[cname][:3]
            for size in sizes:
                cdefs = [None]
                if dname == 'BeliefPropagationOSDDecoder':
                    cdefs += list(CODES[cname].deformation_names)
                for cd in cdefs:
                    for (d, nd, p) in noise_variants(cname, rng, 2 if thorough else 1):
                        if dname.endswith('SweepMatchDecoder') and max(size) > 2 and not thorough and rng.random() < 0.5:
                            continue
                        code = make_code(cname, size, cd)
                        em = make_noise(d, nd)
                        k = 4 if code.n <= 40 else 2
                        errs = random_errors(code, em, rng, k)
                        hist = syndromes_of(code, errs) + [np.zeros(code.n_stabilizers, dtype='uint8')]
                        spec = {'decoder': dname, 'code': cname, 'size': list(size), 'code_deformation': cd,
                                'direction': list(d), 'noise_deformation': nd, 'p': p}
                        if dname == 'BeliefPropagationOSDDecoder':
                            spec['kwargs'] = {'max_bp_iter': int(rng.choice([3, 20, 1000])),
                                              'osd_order': int(rng.choice([0, 5, 10])),
                                              'channel_update': bool(rng.random() < 0.4)}
                            if rng.random() < 0.25:
                                spec['kwargs']['bp_method'] = 'product_sum'
                        if dname == 'MatchingDecoder' and rng.random() < 0.4:
                            spec['kwargs'] = {'error_type': str(rng.choice(['X', 'Z']))}
                        decoder_case(s, spec, hist, f'{dname}:{cname}')
    # explicit weights= path of MatchingDecoder (used by the XCube decoder)
    for cname, size in (('Toric2DCode', (2, 3)), ('Planar2DCode', (3, 2)), ('RotatedPlanar2DCode', (3, 3))):
        code = make_code(cname, size)
        wx = [float(x) for x in rng.choice([0.5, 1.0, 2.0, 3.0], code.n)]
        wz = [float(x) for x in rng.choice([0.25, 1.0, 4.0], code.n)]
        em = make_noise((0.25, 0.25, 0.5))
        hist = syndromes_of(code, random_errors(code, em, rng, 4))
        decoder_case(s, {'decoder': 'MatchingDecoder', 'code': cname, 'size': list(size),
                         'direction': [0.25, 0.25, 0.5], 'p': 0.125, 'weights': [wx, wz]}, hist,
                     f'MatchingDecoder-weights:{cname}')
    streams.append(s.run())

    # --- malformed: wrong syndrome length, bad error_type, non-CSS code for matching / union-find
    s = Stream('malformed')
    for cname, size in (('Toric2DCode', (2, 2)), ('Planar2DCode', (2, 3))):
        code = make_code(cname, size)
        m = code.n_stabilizers
        bad = [np.zeros(m - 1, dtype='uint8'), np.ones(m + 1, dtype='uint8'), np.zeros(0, dtype='uint8'),
               np.zeros(m, dtype='uint8')]
        for dname in COMPLETE:
            if cname not in (DECODERS[dname].allowed_codes or list(CODES)):
                continue
            for cd in ([None, 'XZZX'] if dname == 'BeliefPropagationOSDDecoder' else [None]):
                decoder_case(s, {'decoder': dname, 'code': cname, 'size': list(size), 'code_deformation': cd,
                                 'direction': [0.25, 0.25, 0.5], 'p': 0.125}, bad, f'badlen:{dname}')
        decoder_case(s, {'decoder': 'MatchingDecoder', 'code': cname, 'size': list(size),
                         'direction': [0.25, 0.25, 0.5], 'p': 0.125, 'kwargs': {'error_type': 'Y'}},
                     [np.zeros(m, dtype='uint8')], 'bad-error-type')
        for dname in ('MatchingDecoder', 'UnionFindDecoder'):
            decoder_case(s, {'decoder': dname, 'code': cname, 'size': list(size), 'code_deformation': 'XZZX',
                             'direction': [0.25, 0.25, 0.5], 'p': 0.125},
                         [np.zeros(m, dtype='uint8'), np.zeros(m + 1, dtype='uint8')], f'non-css:{dname}')
    streams.append(s.run())

    # --- XCubeMatchingDecoder: complete model (Model/XCubeDecoder.lean), see harness/xcube_dec.py
    from harness import xcube_dec as XC
    rngx = ctx.np_rng(55)
    streams.append(XC.weight12_stream(ctx, rngx))
    streams.append(XC.random_stream(ctx, rngx))
    streams.append(XC.long_sides_stream(ctx, ctx.np_rng(57)))

    # --- MemoryBeliefPropagationDecoder: integer/boolean glue (Model/MbpDecoder.lean), see harness/mbp_dec.py
    from harness import mbp_dec
    streams.append(mbp_dec.mbp_stream(ctx, ctx.np_rng(56)))

    # --- internals of the union-find decoder (uf_support.py) against Model/UnionFind.lean, step by step
    from harness import uf_internals
    streams.extend(uf_internals.streams(ctx))
    return streams


# ------------------------------------------------------------------ oracle

def error_from(n, xs, zs):
    e = np.zeros(2 * n, dtype='uint8')
    for q in xs:
        e[q] = 1
    for q in zs:
        e[n + q] = 1
    return e


KIND_SECONDS: Dict[str, float] = {}
KIND_BUDGET = {'xcube-long-side': 900.0, 'large-3d': 600.0, 'dense-large': 900.0}


def check_case(case):
    """wall-clock budget per family of deep cases (several times what the unchanged tree needs): a change that
    makes every decode slow must not turn the search into hours; the cases skipped are counted"""
    import time as _time
    kind = case.get('kind')
    if kind in KIND_BUDGET and KIND_SECONDS.get(kind, 0.0) > KIND_BUDGET[kind] and not case.get('_replay'):
        KIND_SECONDS[kind + ':skipped'] = KIND_SECONDS.get(kind + ':skipped', 0) + 1
        return None
    t0 = _time.time()
    try:
        return _check_case(case)
    finally:
        if kind in KIND_BUDGET:
            KIND_SECONDS[kind] = KIND_SECONDS.get(kind, 0.0) + _time.time() - t0


def _check_case(case):
    """The property as stated, on the implementation, for one replayable case:
    {'decoder','code','size','code_deformation','direction','noise_deformation','p','kwargs','errors':[[xs],[zs]]...}
    All errors are decoded on one object (as a simulation does)."""
    try:
        code = make_code(case['code'], case['size'], case.get('code_deformation'))
        em = make_noise(case['direction'], case.get('noise_deformation'))
        n = code.n
    except Exception as e:  # noqa: BLE001
        return f'code/noise construction raised {type(e).__name__}: {e}'
    try:
        with quiet():
            dec = make_decoder(case['decoder'], code, em, case['p'], case.get('kwargs'))
    except Exception as e:  # noqa: BLE001
        return f'constructor raised {type(e).__name__}: {str(e)[:120]}'
    complete = case['decoder'] in COMPLETE
    for (xs, zs) in case['errors']:
        e = error_from(n, xs, zs)
        s = np.asarray(code.measure_syndrome(e))
        try:
            with quiet(), time_limit():
                c = dec.decode(s.copy())
        except Exception as ex:  # noqa: BLE001
            return f'decode raised {type(ex).__name__}: {str(ex)[:120]} on error x={xs} z={zs}'
        c = np.asarray(c)
        if c.shape != (2 * n,):
            return f'correction has shape {c.shape}, expected ({2 * n},) on error x={xs} z={zs}'
        if not np.all((c == 0) | (c == 1)):
            return f'correction is not binary on error x={xs} z={zs}'
        if complete:
            sc = np.asarray(code.measure_syndrome(c.astype('uint8')))
            if not np.array_equal(sc.astype(int), s.astype(int)):
                return f'syndrome of correction differs from measured syndrome on error x={xs} z={zs}'
            if not code.in_codespace((e + c) % 2):
                return f'error+correction not in code space on error x={xs} z={zs}'
            if not s.any() and c.any():
                return f'trivial syndrome gave non-trivial correction (error x={xs} z={zs})'
    return None


def supports(e, n):
    return [int(q) for q in np.nonzero(e[:n])[0]], [int(q) for q in np.nonzero(e[n:])[0]]


def oracle_cases(ctx, deep):
    from panqec.config import CODES, DECODERS
    rng = ctx.np_rng(17)
    cases = []
    # corpus: witness of the former defect D15 (union-find on a torus with a side of length 2: parallel edges,
    # Peeling_Tree.peel flipped both qubits of a tree edge), fixed c364d83; regression input, must pass
    cases.append({'decoder': 'UnionFindDecoder', 'code': 'Toric2DCode', 'size': [2, 2],
                  'direction': [0.25, 0.25, 0.5], 'p': 0.125, 'errors': [[[0], []]], 'kind': 'corpus-D15'})
    # corpus: witness of the former defect D16 (XCube matching on a lattice that is not Lx <= Ly <= Lz), fixed 869642d
    cases.append({'decoder': 'XCubeMatchingDecoder', 'code': 'XCubeCode', 'size': [3, 2, 2],
                  'direction': [0.25, 0.25, 0.5], 'p': 0.125, 'errors': [[[0], []]], 'kind': 'corpus-D16'})
    # exhaustive syndromes on tiny codes: one representative error per syndrome
    for cname, size in TINY:
        code = make_code(cname, size)
        n = code.n
        reps = {}
        for w in range(0, 2 * n + 1):
            if len(reps) == 2 ** _rank(code):
                break
            for supp in itertools.combinations(range(2 * n), w):
                e = np.zeros(2 * n, dtype='uint8')
                e[list(supp)] = 1
                k = bytes(np.asarray(code.measure_syndrome(e)).astype('uint8'))
                if k not in reps:
                    reps[k] = supports(e, n)
        errs = [list(v) for v in reps.values()]
        for dname in COMPLETE:
            if cname not in (DECODERS[dname].allowed_codes or list(CODES)):
                continue
            for (d, nd, p) in [((0.25, 0.25, 0.5), None, 0.125), ((0.125, 0.125, 0.75), 'XZZX', 0.0625)]:
                cases.append({'decoder': dname, 'code': cname, 'size': list(size), 'direction': list(d),
                              'noise_deformation': nd, 'p': p, 'errors': errs, 'kind': 'tiny-exhaustive'})
    # union-find on every shape of torus, sides of length 2 (parallel edges) like the others: random errors,
    # every single-qubit X and Z error, the trivial syndrome
    for size in ([(2, 2), (2, 3), (3, 2), (2, 5), (4, 2), (3, 3), (3, 4), (4, 3), (4, 4), (3, 5), (2, 8), (6, 2)]
                 if deep else [(2, 2), (2, 3), (3, 2), (2, 5), (4, 2), (3, 3), (3, 4), (4, 3)]):
        code = make_code('Toric2DCode', size)
        em = make_noise((0.25, 0.25, 0.5))
        errs = [supports(e, code.n) for e in random_errors(code, em, rng, 24 if deep else 12)]
        errs += [[[int(q)], []] for q in range(code.n)] + [[[], [int(q)]] for q in range(code.n)] + [[[], []]]
        cases.append({'decoder': 'UnionFindDecoder', 'code': 'Toric2DCode', 'size': list(size),
                      'direction': [0.25, 0.25, 0.5], 'p': 0.125, 'errors': errs, 'kind': 'uf-torus'})
    # deep search only: dense syndromes on larger 2-D lattices (chained cluster merges in union-find,
    # long matchings) -- the regime no small lattice reaches
    if deep:
        for cname, size in [('Toric2DCode', (7, 7)), ('Toric2DCode', (6, 9)), ('Toric2DCode', (8, 8)),
                            ('Toric2DCode', (2, 12)), ('Toric2DCode', (10, 2)),
                            ('Planar2DCode', (7, 7)), ('RotatedPlanar2DCode', (9, 8))]:
            code = make_code(cname, size)
            em = make_noise((0.5, 0.25, 0.25))
            for dname in COMPLETE:
                if cname not in (DECODERS[dname].allowed_codes or list(CODES)):
                    continue
                k = 160 if dname == 'UnionFindDecoder' else 40
                errs = [supports(e, code.n) for e in random_errors(code, em, rng, k, rates=(0.12, 0.16, 0.2))]
                kw = {'max_bp_iter': 10, 'osd_order': 0} if dname == 'BeliefPropagationOSDDecoder' else None
                cases.append({'decoder': dname, 'code': cname, 'size': list(size), 'direction': [0.5, 0.25, 0.25],
                              'p': 0.125, 'kwargs': kw, 'errors': errs, 'kind': 'dense-large'})
    # deep search only: XCube lattices with a side of 5 or more (plane indices 9, 11, ...: the reference plane of
    # a component can lie above the plane being projected, the projection loops cross the periodic seam) --
    # weight-2 / weight-3 X errors, the regime in which the two projection loops differ
    if deep:
        for size in [(5, 2, 2), (2, 6, 2), (2, 2, 5), (6, 3, 2)]:
            code = make_code('XCubeCode', size)
            n = code.n
            pairs = list(itertools.combinations(range(n), 2))
            pairs = [pairs[i] for i in sorted(rng.choice(len(pairs), min(700, len(pairs)), replace=False))]
            errs = [[[int(a), int(b)], []] for a, b in pairs]
            errs += [[sorted(int(q) for q in rng.choice(n, 3, replace=False)), []] for _ in range(150)]
            for ch in range(0, len(errs), 50):
                cases.append({'decoder': 'XCubeMatchingDecoder', 'code': 'XCubeCode', 'size': list(size),
                              'direction': [0.25, 0.25, 0.5], 'p': 0.125, 'errors': errs[ch:ch + 50],
                              'kind': 'xcube-long-side'})
    # deep search only: 3-D lattices with a long side and pairwise different sides (every decoder that declares the
    # class): indices past 8 / 10 along one axis, seams far from the origin, Lx/Ly/Lz told apart
    if deep:
        LARGE_3D = {'Toric3DCode': [(5, 2, 3), (2, 6, 3)], 'Planar3DCode': [(2, 5, 3), (6, 2, 2)],
                    'RotatedPlanar3DCode': [(5, 4, 3), (3, 6, 2)], 'RotatedToric3DCode': [(4, 6, 2), (2, 4, 5)],
                    'RhombicToricCode': [(2, 4, 6)], 'RhombicPlanarCode': [(2, 5, 3)],
                    'HollowPlanar3DCode': [(5, 3, 4)], 'Color3DCode': [(2, 2, 4)]}
        for dname, cname in allowed_pairs():
            if dname in ('MemoryBeliefPropagationDecoder', 'XCubeMatchingDecoder') or cname not in LARGE_3D:
                continue
            for size in LARGE_3D[cname]:
                code = make_code(cname, size)
                em = make_noise((0.25, 0.25, 0.5))
                errs = [supports(e, code.n) for e in random_errors(code, em, rng, 16, rates=(0.01, 0.03, 0.06))]
                errs += [[[int(q)], []] for q in rng.choice(code.n, 12, replace=False)]
                errs += [[[], [int(q)]] for q in rng.choice(code.n, 12, replace=False)]
                kw = {'max_bp_iter': 10, 'osd_order': 0} if dname == 'BeliefPropagationOSDDecoder' else None
                cases.append({'decoder': dname, 'code': cname, 'size': list(size), 'direction': [0.25, 0.25, 0.5],
                              'p': 0.0625, 'kwargs': kw, 'errors': errs, 'kind': 'large-3d'})
    # all decoders x allowed codes
    for dname, cname in allowed_pairs():
        slow = dname in ('MemoryBeliefPropagationDecoder', 'XCubeMatchingDecoder')
        sizes = SIZES[cname][: (4 if deep else 2)]
        if dname == 'MemoryBeliefPropagationDecoder':
            sizes = [sz for sz in SIZES[cname] if make_code(cname, sz).n <= (24 if deep else 13)][:1] or []
        for size in sizes:
            cdefs = [None]
            if DECODERS[dname].allowed_codes is None:
                cdefs += list(CODES[cname].deformation_names)
            for cd in cdefs:
                code = make_code(cname, size, cd)
                n = code.n
                variants = noise_variants(cname, rng, 2 if deep else 1)
                for (d, nd, p) in variants:
                    em = make_noise(d, nd)
                    k = (3 if slow else 8) * (2 if deep else 1)
                    if dname == 'MemoryBeliefPropagationDecoder':
                        k = 2
                    errs = [supports(e, n) for e in random_errors(code, em, rng, k)]
                    errs.append([[], []])
                    # single-qubit errors: the sparse regime
                    for q in rng.choice(n, min(n, 3), replace=False):
                        errs.append([[int(q)], []])
                        errs.append([[int(q)], [int(q)]])
                    kw = None
                    if dname == 'MemoryBeliefPropagationDecoder':
                        kw = {'max_bp_iter': 3}
                        errs = errs[:4]
                    if dname == 'BeliefPropagationOSDDecoder' and rng.random() < 0.5:
                        kw = {'channel_update': True, 'osd_order': int(rng.choice([0, 10])),
                              'max_bp_iter': int(rng.choice([3, 1000]))}
                    cases.append({'decoder': dname, 'code': cname, 'size': list(size), 'code_deformation': cd,
                                  'direction': list(d), 'noise_deformation': nd, 'p': p, 'kwargs': kw,
                                  'errors': errs, 'kind': 'allowed'})
    return cases


def _rank(code):
    from panqec.bpauli import brank
    return int(brank(dense(code.stabilizer_matrix)))


def shrink(case):
    """smallest failing prefix / single error of a failing case"""
    hung = _k(match_key, case) in TIMED_OUT
    if not hung and check_case(case) is None:
        return case
    errs = case['errors']
    for e in (errs[:3] if hung else errs):
        c1 = dict(case, errors=[e])
        if check_case(c1) is not None:
            return c1
    if hung:
        return case
    for i in range(1, len(errs) + 1):
        c1 = dict(case, errors=errs[:i])
        if check_case(c1) is not None:
            return c1
    return case


def shape_of(size):
    size = list(size)
    if len(set(size)) == 1:
        return 'cubic'
    return 'ascending' if size == sorted(size) else 'other'


def match_key(c):
    return {'decoder': c['decoder'], 'code': c['code'], 'code_deformation': c.get('code_deformation'),
            'shape': shape_of(c['size'])}


def oracle(ctx, deep=False, broken=None):
    cases = oracle_cases(ctx, deep)
    n_eval = sum(len(c['errors']) for c in cases)
    TIMED_OUT.clear()
    fails = first_failures(cases, bounded(check_case, match_key), key=match_key)
    for f in fails:
        f['input'] = shrink(f['input'])
        f['observed'] = check_case(f['input']) or f['observed']
    pairs = sorted({(c['decoder'], c['code']) for c in cases})
    return fails, {'evaluations': n_eval, 'decoder_code_pairs_constructed_and_run (tested)': len(pairs),
                   'deep_family_seconds_and_cases_skipped_by_budget': {k: round(v, 1) for k, v in KIND_SECONDS.items()},
                   'incomplete decoders (interface only, tested)': ['SweepMatchDecoder', 'RotatedSweepMatchDecoder'],
                   'incomplete decoders (glue modelled, validity proved)': ['XCubeMatchingDecoder',
                                                                           'MemoryBeliefPropagationDecoder']}


def replay(ctx, payload):
    return check_case(payload['input']) is not None
