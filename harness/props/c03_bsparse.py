"""C03 helper streams: `panqec/bsparse.py` (all 14 functions) against `Model/BSparse.lean`.

A csr matrix is described by what the module can observe of it: width, dtype and per row the stored
`(column, value)` pairs in storage order (unsorted indices, duplicate indices and stored zeros included);
the real object is built with `csr_matrix((data, indices, indptr), shape=...)`, which keeps all of that.
Results are canonicalised the same way (raw `indptr/indices/data`, never through `toarray()`), errors as
the class of the Python exception.

Restrictions (see the header of Model/BSparse.lean): non-negative values and indices; no zero-width or
zero-height block in a stack that mixes csr and dense blocks; an out-of-range column only ever comes from
`insert_mod2` and the result is then read through its raw arrays only.
"""
from __future__ import annotations

import numpy as np

from harness.core import Stream

NP_DT = {'u8': 'uint8', 'i64': 'int64', 'bool': 'bool'}
DT_NAME = {'uint8': 'u8', 'int64': 'i64', 'bool': 'bool'}


# ----------------------------------------------------------------- descriptions -> tokens / objects

def _nats(v):
    v = [int(x) for x in v]
    return ','.join(map(str, v)) if v else '-'


def _entries(r):
    return ','.join(f'{int(c)}.{int(v)}' for c, v in r) if r else '-'


def _rows(f, rows):
    rows = list(rows)
    return '|'.join(f(r) for r in rows) if rows else '_'


def enc(d) -> str:
    k = d[0]
    if k == 'csr':
        return f'csr:{d[1]}:{d[2]}:{_rows(_entries, d[3])}'
    if k == 'a1':
        return f'a1:{d[1]}:{_nats(d[2])}'
    if k == 'a2':
        return f'a2:{d[1]}:{d[2]}:{_rows(_nats, d[3])}'
    if k == 'l1':
        return f'l1:{_nats(d[1])}'
    if k == 'l2':
        return f'l2:{d[1]}:{_rows(_nats, d[2])}'
    if k == 'int':
        return f'int:{int(d[1])}'
    raise ValueError(k)


def enc_list(ds) -> str:
    return ';'.join(enc(d) for d in ds) if ds else '[]'


def build(d):
    from scipy.sparse import csr_matrix
    k = d[0]
    if k == 'csr':
        _, dt, nc, rows = d
        indptr, indices, data = [0], [], []
        for r in rows:
            indices += [int(c) for c, _ in r]
            data += [int(v) for _, v in r]
            indptr.append(len(indices))
        return csr_matrix((np.array(data, dtype=NP_DT[dt]), np.array(indices, dtype=np.int32),
                           np.array(indptr, dtype=np.int32)), shape=(len(rows), nc))
    if k == 'a1':
        return np.array(d[2], dtype=NP_DT[d[1]])
    if k == 'a2':
        return np.array(d[3], dtype=NP_DT[d[1]]).reshape(len(d[3]), d[2])
    if k == 'l1':
        return [int(x) for x in d[1]]
    if k == 'l2':
        return [[int(x) for x in r] for r in d[2]]
    if k == 'int':
        return int(d[1])
    raise ValueError(k)


def canon(x) -> str:
    """canonical text of a result of a bsparse function"""
    from scipy.sparse import csr_matrix
    if isinstance(x, tuple):
        return ' '.join(canon(y) for y in x)
    if isinstance(x, csr_matrix):
        dt = DT_NAME.get(str(x.dtype), str(x.dtype))
        indptr = [int(i) for i in x.indptr]
        idx = [int(i) for i in x.indices]
        dat = [int(v) for v in x.data]
        rows = [list(zip(idx[indptr[i]:indptr[i + 1]], dat[indptr[i]:indptr[i + 1]]))
                for i in range(x.shape[0])]
        if len(indptr) != x.shape[0] + 1 or indptr[-1] != len(idx) or len(idx) != len(dat):
            return f'INCONSISTENT-CSR indptr={indptr} indices={idx} data={dat} shape={x.shape}'
        return f'csr:{dt}:{x.shape[1]}:{_rows(_entries, rows)}'
    if isinstance(x, np.ndarray):
        dt = DT_NAME.get(str(x.dtype), str(x.dtype))
        if x.ndim == 1:
            return f'a1:{dt}:{_nats(x.tolist())}'
        if x.ndim == 2:
            return f'a2:{dt}:{x.shape[1]}:{_rows(_nats, x.tolist())}'
        return f'ndarray-ndim{x.ndim}'
    if isinstance(x, (bool, np.bool_)):
        return 'True' if x else 'False'
    if isinstance(x, (int, np.integer)):
        return str(int(x))
    return f'OTHER:{type(x).__name__}'


def run(fn):
    try:
        return canon(fn())
    except Exception as e:  # noqa: BLE001
        return f'ERR {type(e).__name__}'


# ----------------------------------------------------------------- random descriptions

STYLES = ['canon', 'zeros', 'unsorted', 'dups', 'wild']


def rand_row(rng, nc, dt, style):
    """stored (col, value) pairs of one row"""
    if nc == 0:
        return []
    dens = rng.choice([0.0, 0.2, 0.5, 0.9])
    cols = [c for c in range(nc) if rng.random() < dens]
    if style in ('dups', 'wild') and cols:
        cols += [int(c) for c in rng.choice(cols, int(rng.integers(1, 3)))]
    if style in ('unsorted', 'dups', 'wild'):
        cols = [int(c) for c in rng.permutation(cols)]
    else:
        cols = sorted(cols)
    out = []
    for c in cols:
        if style == 'canon':
            v = 1
        elif style in ('zeros', 'unsorted', 'dups'):
            v = 0 if (style == 'zeros' and rng.random() < 0.4) else 1
        else:
            hi = {'u8': 256, 'i64': 600, 'bool': 2}[dt]
            v = int(rng.choice([0, 1, 1, 2, 100, 200, 255, int(rng.integers(0, hi))]))
            v = min(v, hi - 1)
        out.append((int(c), v))
    return out


def rand_csr(rng, nr=None, nc=None, dt=None, style=None):
    nr = int(rng.integers(0, 7)) if nr is None else nr
    nc = int(rng.integers(0, 9)) if nc is None else nc
    dt = str(rng.choice(['u8', 'u8', 'i64', 'bool'])) if dt is None else dt
    style = str(rng.choice(STYLES)) if style is None else style
    return ('csr', dt, nc, [rand_row(rng, nc, dt, style) for _ in range(nr)])


def rand_dense_row(rng, nc, dt, wild=False):
    if wild and dt != 'bool':
        hi = 256 if dt == 'u8' else 600
        return [int(rng.choice([0, 0, 1, 1, 2, 255, 256 if hi > 256 else 3, int(rng.integers(0, hi))])) for _ in range(nc)]
    return [int(x) for x in rng.integers(0, 2, nc)]


def rand_dense(rng, kind=None, nr=None, nc=None, dt=None, wild=None):
    kind = str(rng.choice(['a1', 'a2', 'l1', 'l2'])) if kind is None else kind
    nc = int(rng.integers(0, 9)) if nc is None else nc
    dt = str(rng.choice(['u8', 'i64', 'bool'])) if dt is None else dt
    wild = bool(rng.random() < 0.3) if wild is None else wild
    if kind in ('a1', 'l1'):
        v = rand_dense_row(rng, nc, dt if kind == 'a1' else 'i64', wild)
        return ('a1', dt, v) if kind == 'a1' else ('l1', v)
    nr = int(rng.integers(0 if kind == 'a2' else 1, 7)) if nr is None else nr
    rows = [rand_dense_row(rng, nc, dt if kind == 'a2' else 'i64', wild) for _ in range(nr)]
    return ('a2', dt, nc, rows) if kind == 'a2' else ('l2', nc, rows)


def is_trivial(d):
    if d[0] == 'csr':
        return not any(d[3])
    if d[0] in ('a1',):
        return not any(d[2])
    if d[0] == 'a2':
        return not any(any(r) for r in d[3])
    if d[0] == 'l1':
        return not any(d[1])
    if d[0] == 'l2':
        return not any(any(r) for r in d[2])
    return False


def style_tag(d):
    if d[0] != 'csr':
        return d[0]
    ents = [e for r in d[3] for e in r]
    tags = []
    if any(v == 0 for _, v in ents):
        tags.append('stored0')
    if any([c for c, _ in r] != sorted(c for c, _ in r) for r in d[3]):
        tags.append('unsorted')
    if any(len({c for c, _ in r}) != len(r) for r in d[3]):
        tags.append('dups')
    return 'csr-' + d[1] + ('-' + '+'.join(tags) if tags else '-canonical')


# ----------------------------------------------------------------- the streams

def _add(s, name, args_tok, fn, inp, nontrivial=True, tag=None):
    s.add(f'bsp {name} {args_tok}', run(fn), {'function': name, 'args': inp}, nontrivial=nontrivial, tag=tag)


def insert_result(B, i, d):
    m = build(d)
    r = B.insert_mod2(i, m)
    return m if r is None else ('RETURNED', r)


def streams(ctx):
    from panqec import bsparse as B
    rng = ctx.np_rng(303)
    N = 4 if ctx.thorough else 1
    out = []

    # ---- constructors
    s = Stream('bsparse-constructors')
    for n in list(range(-2, 10)) + [int(x) for x in rng.integers(10, 400, 5 * N)]:
        _add(s, 'zero_row', str(n), lambda: B.zero_row(n), [n], nontrivial=n > 0, tag='zero_row')
        _add(s, 'empty_row', str(n), lambda: B.empty_row(n), [n], nontrivial=n > 0, tag='empty_row')
    shapes = [(r, c) for r in range(-1, 5) for c in range(-1, 5)] + [(), (3,), (2, 3, 4)] + \
        [tuple(int(x) for x in rng.integers(0, 40, 2)) for _ in range(10 * N)]
    for sh in shapes:
        tok = ','.join(map(str, sh)) if sh else '-'
        _add(s, 'zero_matrix', tok, lambda: B.zero_matrix(tuple(sh)), [list(sh)],
             nontrivial=len(sh) == 2 and min(sh) > 0, tag=f'zero_matrix-len{len(sh)}')
    out.append(s.run())

    # ---- converters and predicates on every kind of argument
    s = Stream('bsparse-convert')
    descs = []
    for _ in range(150 * N):
        descs.append(rand_csr(rng))
    for _ in range(150 * N):
        descs.append(rand_dense(rng))
    descs += [('a1', 'u8', []), ('l1', []), ('l2', 0, [[]]), ('a2', 'i64', 3, []), ('a2', 'u8', 0, [[], []]),
              ('l2', 4, [[0, 256, 257, 3]]), ('l1', [0, 256, 512, 1]), ('int', 0), ('int', 5), ('int', 256),
              ('csr', 'i64', 5, [[(3, 0), (1, 1), (1, 1), (0, 2)]]), ('csr', 'u8', 5, [[(1, 200), (1, 100), (0, 1)]]),
              ('csr', 'bool', 5, [[(3, 1), (1, 1), (1, 1), (0, 0)]]), ('csr', 'u8', 3, [])]
    for d in descs:
        nt = not is_trivial(d)
        _add(s, 'from_array', enc(d), lambda: B.from_array(build(d)), [d], nt, 'from_array-' + style_tag(d))
        _add(s, 'to_array', enc(d), lambda: B.to_array(build(d)), [d], nt, 'to_array-' + style_tag(d))
        _add(s, 'is_empty', enc(d), lambda: B.is_empty(build(d)), [d], nt, 'is_empty-' + d[0])
        _add(s, 'is_sparse', enc(d), lambda: B.is_sparse(build(d)), [d], nt, 'is_sparse-' + d[0])
    out.append(s.run())

    # ---- row operations: is_one, insert_mod2 (single and chained), dot
    s = Stream('bsparse-row-ops')
    for _ in range(250 * N):
        nc = int(rng.integers(1, 9))
        d = rand_csr(rng, nr=1 if rng.random() < 0.85 else int(rng.integers(2, 5)), nc=nc)
        present = [c for r in d[3] for c, _ in r]
        for i in {int(rng.integers(0, nc)), int(rng.choice(present)) if present else 0,
                  nc + int(rng.integers(0, 3)) if rng.random() < 0.15 else 0}:
            _add(s, 'is_one', f'{i} {enc(d)}', lambda: B.is_one(i, build(d)), [i, d], True, 'is_one-' + style_tag(d))
            _add(s, 'insert_mod2', f'{i} {enc(d)}', lambda: insert_result(B, i, d), [i, d], True,
                 'insert_mod2-' + style_tag(d) + ('-outofrange' if i >= nc else ''))
    for _ in range(80 * N):
        nc = int(rng.integers(1, 9))
        d = rand_csr(rng, nr=1, nc=nc)
        seq = [int(x) for x in rng.integers(0, nc, int(rng.integers(2, 9)))]

        def chain():
            m = build(d)
            for i in seq:
                B.insert_mod2(i, m)
            return (m, B.to_array(m), B.is_one(seq[0], m))
        s.add(f'bsp insert_seq {_nats(seq)} {enc(d)}', run(chain), {'function': 'insert_mod2 chain', 'args': [seq, d]},
              True, 'insert_mod2-chain-' + style_tag(d))
    for _ in range(250 * N):
        nc = int(rng.integers(0, 9))
        pair = []
        for _k in range(2):
            if rng.random() < 0.6:
                pair.append(rand_csr(rng, nr=1, nc=nc))
            else:
                pair.append(rand_dense(rng, kind=str(rng.choice(['a1', 'l1', 'a2', 'l2'])), nr=1, nc=nc))
        a, b = pair
        _add(s, 'dot', f'{enc(a)} {enc(b)}', lambda: B.dot(build(a), build(b)), [a, b],
             not is_trivial(a) and not is_trivial(b), 'dot-' + a[0] + '-' + b[0])
    out.append(s.run())

    # ---- stacking and splitting
    s = Stream('bsparse-stack-split')
    for _ in range(200 * N):
        nc = int(rng.integers(0, 9))
        k = int(rng.integers(1, 5))
        same_dt = str(rng.choice(['u8', 'i64', 'bool'])) if rng.random() < 0.5 else None
        ds = [rand_csr(rng, nc=nc, dt=same_dt) for _ in range(k)]
        _add(s, 'vstack', enc_list(ds), lambda: B.vstack([build(d) for d in ds]), [ds],
             not all(is_trivial(d) for d in ds), 'vstack-allcsr-' + ('+'.join(sorted({d[1] for d in ds}))))
        nr = int(rng.integers(0, 6))
        ds2 = [rand_csr(rng, nr=nr, dt=same_dt) for _ in range(k)]
        _add(s, 'hstack', enc_list(ds2), lambda: B.hstack([build(d) for d in ds2]), [ds2],
             not all(is_trivial(d) for d in ds2), 'hstack-allcsr-' + ('+'.join(sorted({d[1] for d in ds2}))))
    for _ in range(80 * N):
        # csr and dense blocks together (scipy's general coo path); no zero-sized block
        nc = int(rng.integers(1, 8))
        k = int(rng.integers(2, 5))
        ds = [rand_csr(rng, nr=int(rng.integers(1, 4)), nc=nc) if (j == 0 or rng.random() < 0.5)
              else rand_dense(rng, nr=int(rng.integers(1, 4)), nc=nc) for j in range(k)]
        ds = [ds[i] for i in rng.permutation(k)]
        _add(s, 'vstack', enc_list(ds), lambda: B.vstack([build(d) for d in ds]), [ds], True, 'vstack-mixed')
        nr = int(rng.integers(1, 5))
        ds2 = []
        for j in range(k):
            w = int(rng.integers(1, 6))
            if j == 0 or rng.random() < 0.5:
                ds2.append(rand_csr(rng, nr=nr, nc=w))
            elif nr == 1:
                ds2.append(rand_dense(rng, nr=1, nc=w))
            else:
                ds2.append(rand_dense(rng, kind=str(rng.choice(['a2', 'l2'])), nr=nr, nc=w))
        ds2 = [ds2[i] for i in rng.permutation(k)]
        _add(s, 'hstack', enc_list(ds2), lambda: B.hstack([build(d) for d in ds2]), [ds2], True, 'hstack-mixed')
    for _ in range(250 * N):
        nc = 2 * int(rng.integers(0, 5))
        d = rand_csr(rng, nc=nc, nr=1 if rng.random() < 0.5 else None)
        _add(s, 'hsplit', enc(d), lambda: B.hsplit(build(d)), [d], not is_trivial(d),
             'hsplit-' + ('row-' if len(d[3]) == 1 else 'matrix-') + style_tag(d))
    for _ in range(40 * N):
        d = rand_dense(rng, kind='a2', nc=2 * int(rng.integers(0, 5)))
        _add(s, 'hsplit', enc(d), lambda: B.hsplit(build(d)), [d], not is_trivial(d), 'hsplit-ndarray')
    out.append(s.run())

    # ---- equal
    s = Stream('bsparse-equal')
    for _ in range(300 * N):
        nr, nc = int(rng.integers(0, 5)), int(rng.integers(0, 6))
        a = rand_csr(rng, nr=nr, nc=nc)
        r = rng.random()
        if r < 0.35:
            # the same dense value stored differently (shuffled, split into duplicates, stored zeros added)
            rows = []
            for row in a[3]:
                row2 = list(row)
                if row2 and rng.random() < 0.5 and a[1] != 'bool':
                    c, v = row2.pop(int(rng.integers(0, len(row2))))
                    h = int(rng.integers(0, v + 1))
                    row2 += [(c, h), (c, v - h)]
                if nc and rng.random() < 0.4:
                    free = [c for c in range(nc) if all(c != cc for cc, _ in row2)]
                    if free:
                        row2.append((int(rng.choice(free)), 0))
                rows.append([row2[i] for i in rng.permutation(len(row2))] if row2 else [])
            big = any(v > 255 for row in rows for _, v in row)
            b = ('csr', 'bool' if a[1] == 'bool' else ('i64' if big else str(rng.choice(['u8', 'i64']))), nc, rows)
            tag = 'csr-csr-restored'
        elif r < 0.7:
            b = rand_csr(rng, nr=nr, nc=nc)
            tag = 'csr-csr-same-shape'
        else:
            b = rand_csr(rng)
            tag = 'csr-csr-any-shape'
        _add(s, 'equal', f'{enc(a)} {enc(b)}', lambda: B.equal(build(a), build(b)), [a, b],
             not is_trivial(a), 'equal-' + tag)
    for _ in range(150 * N):
        nr, nc = int(rng.integers(0, 4)), int(rng.integers(0, 4))
        r = rng.random()
        if r < 0.3:
            v = int(rng.choice([1, 1, 2, 255]))
            m = ('csr', str(rng.choice(['u8', 'i64'])), nc,
                 [[(int(c), v) for c in rng.permutation(nc)] for _ in range(nr)])
        elif r < 0.5:
            m = ('csr', 'u8', nc, [[(int(c), 0) for c in range(nc) if rng.random() < 0.3] for _ in range(nr)])
        else:
            m = rand_csr(rng, nr=nr, nc=nc)
        k = ('int', int(rng.choice([0, 0, 1, 1, 2, 255, 256, -1])))
        pair = (k, m) if rng.random() < 0.5 else (m, k)
        _add(s, 'equal', f'{enc(pair[0])} {enc(pair[1])}', lambda: B.equal(build(pair[0]), build(pair[1])),
             list(pair), True, 'equal-int-csr')
    out.append(s.run())

    # ---- malformed: wrong kinds, shape mismatches, odd widths
    s = Stream('bsparse-malformed')
    for _ in range(60 * N):
        dn = rand_dense(rng)
        k = ('int', int(rng.integers(0, 3)))
        cs = rand_csr(rng)
        i = int(rng.integers(0, 6))
        for d in (dn, k):
            _add(s, 'is_one', f'{i} {enc(d)}', lambda: B.is_one(i, build(d)), [i, d], True, 'is_one-' + d[0])
            _add(s, 'insert_mod2', f'{i} {enc(d)}', lambda: insert_result(B, i, d), [i, d], True, 'insert_mod2-' + d[0])
            _add(s, 'hsplit', enc(d), lambda: B.hsplit(build(d)), [d], True, 'hsplit-' + d[0])
            _add(s, 'equal', f'{enc(d)} {enc(cs)}', lambda: B.equal(build(d), build(cs)), [d, cs], True, 'equal-' + d[0] + '-csr')
            _add(s, 'equal', f'{enc(cs)} {enc(d)}', lambda: B.equal(build(cs), build(d)), [cs, d], True, 'equal-csr-' + d[0])
            _add(s, 'equal', f'{enc(d)} {enc(k)}', lambda: B.equal(build(d), build(k)), [d, k], True, 'equal-' + d[0] + '-int')
        for d in (('l1', dn[1]) if dn[0] == 'l1' else ('l1', [1, 0]), ('l2', 2, [[1, 0]]), k):
            _add(s, 'to_array', enc(d), lambda: B.to_array(build(d)), [d], True, 'to_array-' + d[0])
            _add(s, 'is_empty', enc(d), lambda: B.is_empty(build(d)), [d], True, 'is_empty-' + d[0])
        # multi-row csr to the row functions
        m = rand_csr(rng, nr=int(rng.choice([0, 2, 3])), nc=int(rng.integers(1, 7)))
        _add(s, 'insert_mod2', f'{i} {enc(m)}', lambda: insert_result(B, i, m), [i, m], True, 'insert_mod2-not-a-row')
        _add(s, 'dot', f'{enc(m)} {enc(m)}', lambda: B.dot(build(m), build(m)), [m, m], True, 'dot-not-a-row')
        # width mismatches
        a = rand_csr(rng, nr=1, nc=int(rng.integers(0, 6)))
        b = rand_csr(rng, nr=1, nc=a[2] + int(rng.integers(1, 3)))
        _add(s, 'dot', f'{enc(a)} {enc(b)}', lambda: B.dot(build(a), build(b)), [a, b], True, 'dot-width-mismatch')
        bl = ('l1', [1] * b[2])
        _add(s, 'dot', f'{enc(a)} {enc(bl)}', lambda: B.dot(build(a), build(bl)), [a, bl], True, 'dot-width-mismatch')
        _add(s, 'vstack', enc_list([a, b]), lambda: B.vstack([build(a), build(b)]), [[a, b]], True, 'vstack-width-mismatch')
        c = rand_csr(rng, nr=2 + int(rng.integers(0, 2)))
        _add(s, 'hstack', enc_list([a, c]), lambda: B.hstack([build(a), build(c)]), [[a, c]], True, 'hstack-height-mismatch')
        # odd widths
        o = rand_csr(rng, nc=2 * int(rng.integers(0, 4)) + 1)
        _add(s, 'hsplit', enc(o), lambda: B.hsplit(build(o)), [o], True, 'hsplit-odd-width')
        od = rand_dense(rng, kind='a2', nc=2 * int(rng.integers(0, 4)) + 1)
        _add(s, 'hsplit', enc(od), lambda: B.hsplit(build(od)), [od], True, 'hsplit-odd-width-ndarray')
        # stacks without any csr block
        dl = [rand_dense(rng, kind=str(rng.choice(['a2', 'l2', 'a1', 'l1'])), nr=1, nc=3) for _ in range(int(rng.integers(1, 4)))]
        _add(s, 'vstack', enc_list(dl), lambda: B.vstack([build(d) for d in dl]), [dl], True, 'vstack-no-csr')
        _add(s, 'hstack', enc_list(dl), lambda: B.hstack([build(d) for d in dl]), [dl], True, 'hstack-no-csr')
        # mixed stack with mismatching sizes
        mm = [rand_csr(rng, nr=1, nc=3), ('a2', 'u8', 4, [[1, 0, 1, 1]])]
        _add(s, 'vstack', enc_list(mm), lambda: B.vstack([build(d) for d in mm]), [mm], True, 'vstack-mixed-mismatch')
        mm2 = [rand_csr(rng, nr=2, nc=3), ('a2', 'u8', 2, [[1, 0]])]
        _add(s, 'hstack', enc_list(mm2), lambda: B.hstack([build(d) for d in mm2]), [mm2], True, 'hstack-mixed-mismatch')
    _add(s, 'vstack', '[]', lambda: B.vstack([]), [[]], True, 'vstack-empty-list')
    _add(s, 'hstack', '[]', lambda: B.hstack([]), [[]], True, 'hstack-empty-list')
    _add(s, 'equal', 'int:1 int:1', lambda: B.equal(1, 1), [('int', 1), ('int', 1)], True, 'equal-int-int')
    out.append(s.run())
    return out
