"""C06 - decoding is a pure function of the syndrome (no state carried between calls,
caller's syndrome and cached noise tables untouched)."""
from __future__ import annotations

import itertools
import warnings
from fractions import Fraction

import numpy as np

from harness.core import Stream
from harness.util import vec, first_failures, guarded
from harness.props import c05 as D

ID = 'C06'
LEVEL = 'proof'
LEVEL_TEXT = ('Lean theorems over decoder objects modelled as state machines: for every history of decode calls '
              '(any length, any syndromes, erroring calls included) the correction returned by the BP-OSD glue equals '
              'a pure function of the immutable attributes and the syndrome - independent of the lazily-initialised '
              'flag, of the ldpc objects\' channel probabilities and of their result buffers, with or without '
              'channel_update, CSS or not; MatchingDecoder does not change its object; for the sweep-match decoders '
              'the X half and the validity (binary, length 2n, Z-row syndrome reproduced) hold for every generator '
              'state. The model is tied to the code on every run by replaying multi-call histories through boundary '
              'spies.')
LEVEL_NOTE = ('trusted (modelled, not verified): ldpc decode() is a function of (matrix, schedule, current channel '
              'probabilities, syndrome) and PyMatching decode() of (matrix, weights, syndrome) - tested on every run '
              '(reused object vs fresh objects, all ordered pairs of valid syndromes on tiny codes). Immutability of '
              'inputs is structural in the model; for the real numpy arrays (caller\'s syndrome, lru_cached '
              'probability_distribution arrays) it is tested by snapshots, not proved. Union-find, XCube matching and '
              'MBP internals: tested only.')
TECHNIQUE = ('Lean 4 proof (state-machine invariant by induction over the call history) + multi-call boundary-spy '
             'correspondence + reused-vs-fresh oracle with input snapshots')
TRUSTED = ['ldpc BpOsdDecoder.decode return value depends only on (matrix, schedule, channel probabilities, syndrome)',
           'pymatching Matching.decode depends only on (graph, weights, syndrome)']
ASSUMPTIONS = ['the code object and the error model are not mutated between decode calls (no code.deform() after the '
               'decoder was built)']
ANCHOR_FILES = ['panqec/decoders/belief_propagation/bposd_decoder.py',
                'panqec/decoders/matching/_matching_decoder.py', 'panqec/decoders/union_find/uf_decoder.py',
                'panqec/decoders/xcube/_xcube_matching_decoder.py', 'panqec/error_models/_pauli_error_model.py']

warnings.filterwarnings('ignore')

TINY_PAIRS = [('Planar2DCode', (2, 2)), ('RotatedPlanar2DCode', (2, 3)), ('Toric2DCode', (2, 2))]


def sectorwise_zero(code, syns):
    """syndromes whose X-row part (resp. Z-row part) vanishes"""
    if not code.is_css:
        return []
    xi, zi = code.x_indices, code.z_indices
    return [s for s in syns if s.any() and (not s[xi].any() or not s[zi].any())]


def random_history(code, em, rng, k):
    errs = D.random_errors(code, em, rng, k, rates=(0.03, 0.1, 0.25))
    syns = D.syndromes_of(code, errs)
    m = code.n_stabilizers
    hist = []
    for s in syns:
        hist.append(s)
        r = rng.random()
        if r < 0.2:
            hist.append(np.zeros(m, dtype=s.dtype))
        elif r < 0.4 and code.is_css:
            t = s.copy()
            t[code.x_indices if rng.random() < 0.5 else code.z_indices] = 0
            hist.append(t)      # still a valid syndrome: the other sector's part of the same error
        elif r < 0.55:
            hist.append(s.copy())
    hist.append(syns[int(rng.integers(0, len(syns)))].copy())
    return hist


def correspondence(ctx):
    from panqec.config import CODES, DECODERS
    rng = ctx.np_rng(6)
    thorough = ctx.thorough
    streams = []

    # --- all ordered pairs of valid syndromes on tiny codes: two-call histories on one object
    s = Stream('tiny-ordered-pairs')
    for cname, size in TINY_PAIRS:
        code = D.make_code(cname, size)
        syns = D.all_syndromes(code)
        pairs = list(itertools.product(range(len(syns)), repeat=2))
        limit = len(pairs) if thorough else 160
        if len(pairs) > limit:
            keep = rng.choice(len(pairs), limit, replace=False)
            pairs = [pairs[i] for i in sorted(keep)]
        for dname in ('MatchingDecoder', 'BeliefPropagationOSDDecoder'):
            for (i, j) in pairs:
                spec = {'decoder': dname, 'code': cname, 'size': list(size), 'direction': [0.25, 0.25, 0.5],
                        'p': 0.125}
                if dname == 'BeliefPropagationOSDDecoder':
                    spec['kwargs'] = {'max_bp_iter': 4, 'osd_order': 0, 'channel_update': bool((i + j) % 2)}
                D.decoder_case(s, spec, [syns[i], syns[j]], f'{dname}:{cname}')
    streams.append(s.run())

    # --- random longer histories, every decoder with glue, CSS and non-CSS, channel_update on/off
    s = Stream('random-histories')
    plan = [('MatchingDecoder', c, None) for c in DECODERS['MatchingDecoder'].allowed_codes]
    plan += [('UnionFindDecoder', 'Toric2DCode', None)]
    plan += [('SweepMatchDecoder', c, None) for c in DECODERS['SweepMatchDecoder'].allowed_codes]
    plan += [('RotatedSweepMatchDecoder', c, None) for c in DECODERS['RotatedSweepMatchDecoder'].allowed_codes]
    for c in CODES:
        plan.append(('BeliefPropagationOSDDecoder', c, None))
        for dn in CODES[c].deformation_names:
            plan.append(('BeliefPropagationOSDDecoder', c, dn))
    for (dname, cname, cd) in plan:
        sizes = D.SIZES[cname][: (3 if thorough else 2)]
        for size in sizes:
            code = D.make_code(cname, size, cd)
            if code.n > 100 and not thorough:
                continue
            for (d, nd, p) in D.noise_variants(cname, rng, 2 if thorough else 1):
                em = D.make_noise(d, nd)
                hist = random_history(code, em, rng, 5 if code.n <= 40 else 3)
                spec = {'decoder': dname, 'code': cname, 'size': list(size), 'code_deformation': cd,
                        'direction': list(d), 'noise_deformation': nd, 'p': p}
                if dname == 'BeliefPropagationOSDDecoder':
                    spec['kwargs'] = {'max_bp_iter': int(rng.choice([2, 5, 1000])),
                                      'osd_order': int(rng.choice([0, 10])),
                                      'channel_update': bool(rng.random() < 0.5)}
                D.decoder_case(s, spec, hist, f'{dname}:{cname}:{"css" if code.is_css else "noncss"}')
    streams.append(s.run())

    # --- update_probabilities (the Bayes update used by channel_update) in both directions
    s = Stream('update-probabilities')
    from panqec.decoders import BeliefPropagationOSDDecoder
    code = D.make_code('Planar2DCode', (2, 2))
    dec = BeliefPropagationOSDDecoder(code, D.make_noise((0.25, 0.25, 0.5)), 0.125)
    grid = [Fraction(k, 16) for k in range(0, 6)]
    for _ in range(60 if thorough else 25):
        n = int(rng.integers(1, 7))
        corr = [int(x) for x in rng.integers(0, 2, n)]
        px = [grid[int(i)] for i in rng.integers(0, len(grid), n)]
        py = [grid[int(i)] for i in rng.integers(0, len(grid), n)]
        pz = [grid[int(i)] for i in rng.integers(0, len(grid), n)]
        for direction in ('z->x', 'x->z'):
            a, b = (px, pz) if direction == 'z->x' else (pz, px)
            ans = guarded(lambda: D.rats(D.fracs(dec.update_probabilities(
                np.array(corr), np.array([float(x) for x in px]), np.array([float(x) for x in py]),
                np.array([float(x) for x in pz]), direction=direction))))
            s.add(f'dec.updprobs {vec(corr)} {D.rats(a)} {D.rats(py)} {D.rats(b)}', ans,
                  {'fn': 'update_probabilities', 'correction': corr, 'px': list(map(str, px)),
                   'py': list(map(str, py)), 'pz': list(map(str, pz)), 'direction': direction}, tag=direction)
    streams.append(s.run())
    return streams


# ------------------------------------------------------------------ oracle

def check_case(case):
    """One decoder object decodes the syndromes of case['history'] (errors given by supports) in order
    (mode 'sequence') or every ordered pair of them (mode 'all-pairs'); every answer is compared with
    the answer of a freshly built decoder; the caller's syndrome arrays and the noise model's cached
    probability arrays must be left untouched."""
    try:
        code = D.make_code(case['code'], case['size'], case.get('code_deformation'))
        em = D.make_noise(case['direction'], case.get('noise_deformation'))
        p = case['p']
        n = code.n
        cached = em.probability_distribution(code, p)
        cached_snapshot = [np.array(a).copy() for a in cached]
        with D.quiet():
            dec = D.make_decoder(case['decoder'], code, em, p, case.get('kwargs'))
    except Exception as e:  # noqa: BLE001
        return f'construction raised {type(e).__name__}: {str(e)[:100]}'
    randomised = case['decoder'] in ('SweepMatchDecoder', 'RotatedSweepMatchDecoder')
    syns = [np.asarray(code.measure_syndrome(D.error_from(n, xs, zs))) for (xs, zs) in case['history']]
    if case.get('syndrome_dtype'):
        # the same syndromes held in another integer dtype (what `H @ e % 2` on int arrays gives a caller)
        syns = [s_.astype(case['syndrome_dtype']) for s_ in syns]
    fresh_cache = {}

    def fresh(k):
        if k not in fresh_cache:
            code2 = D.make_code(case['code'], case['size'], case.get('code_deformation'))
            em2 = D.make_noise(case['direction'], case.get('noise_deformation'))
            with D.quiet(), D.time_limit():
                d2 = D.make_decoder(case['decoder'], code2, em2, p, case.get('kwargs'))
                fresh_cache[k] = np.asarray(d2.decode(syns[k].copy())).copy()
        return fresh_cache[k]

    if case.get('mode') == 'all-pairs':
        order = [k for pair in itertools.product(range(len(syns)), repeat=2) for k in pair]
    else:
        order = list(range(len(syns)))
    for step, k in enumerate(order):
        s = syns[k].copy()
        s0 = s.copy()
        try:
            with D.quiet(), D.time_limit():
                c = np.asarray(dec.decode(s))
            f = fresh(k)
        except Exception as e:  # noqa: BLE001
            return f'decode raised {type(e).__name__} at call {step}: {str(e)[:100]}'
        if s.shape != s0.shape or not np.array_equal(s, s0):
            return f'caller\'s syndrome modified by call {step} (history index {k})'
        if randomised:
            if c.shape != (2 * n,) or not np.all((c == 0) | (c == 1)):
                return f'call {step}: result is not a binary vector of length 2n'
            if not np.array_equal(c[:n] % 2, f[:n] % 2):
                return f'call {step}: X half differs from a fresh decoder (history index {k})'
        elif c.shape != f.shape or not np.array_equal(c, f):
            prev = order[step - 1] if step else None
            return (f'call {step}: correction for history index {k} differs from a fresh decoder '
                    f'(previous call: history index {prev})')
        now = em.probability_distribution(code, p)
        for a, b, c0 in zip(now, cached, cached_snapshot):
            if a is not b or not np.array_equal(np.asarray(a), c0):
                return f'noise model\'s cached probability arrays altered after call {step}'
    return None


def match_key(c):
    return {'decoder': c['decoder'], 'code': c['code'], 'code_deformation': c.get('code_deformation')}


def shrink(case):
    h = case['history']
    base = dict(case, mode='sequence')
    if D._k(match_key, case) in D.TIMED_OUT:
        c1 = dict(base, history=h[:1])
        return c1 if check_case(c1) is not None else case
    if check_case(case) is None:
        return case
    for a in range(len(h)):
        for b in range(len(h)):
            c2 = dict(base, history=[h[a], h[b]])
            if check_case(c2) is not None:
                return c2
        if a > 12:
            break
    for k in range(1, len(h) + 1):
        c2 = dict(base, history=h[:k])
        if check_case(c2) is not None:
            return c2
    return case


def oracle_cases(ctx, deep):
    from panqec.config import CODES, DECODERS
    rng = ctx.np_rng(23)
    cases = []
    # all ordered pairs of valid syndromes (zero and sector-wise zero syndromes included) on tiny codes
    for cname, size in TINY_PAIRS + [('Planar2DCode', (2, 3))]:
        code = D.make_code(cname, size)
        n = code.n
        reps = {}
        for w in range(0, 2 * n + 1):
            if len(reps) == 2 ** D._rank(code):
                break
            for supp in itertools.combinations(range(2 * n), w):
                e = np.zeros(2 * n, dtype='uint8')
                e[list(supp)] = 1
                k = bytes(np.asarray(code.measure_syndrome(e)).astype('uint8'))
                if k not in reps:
                    reps[k] = D.supports(e, n)
        hist = [list(v) for v in reps.values()]
        if len(hist) > 64 and not deep:
            idx = sorted(rng.choice(len(hist), 40, replace=False))
            hist = [hist[0]] + [hist[i] for i in idx]
        for dname in D.COMPLETE:
            if cname not in (DECODERS[dname].allowed_codes or list(CODES)):
                continue
            if dname == 'UnionFindDecoder' and len(hist) > 24:
                continue
            kws = [None]
            if dname == 'BeliefPropagationOSDDecoder':
                kws = [{'max_bp_iter': 3, 'osd_order': 0}, {'channel_update': True, 'max_bp_iter': 1000}]
            for kw in kws:
                cases.append({'decoder': dname, 'code': cname, 'size': list(size), 'direction': [0.25, 0.25, 0.5],
                              'p': 0.125, 'kwargs': kw, 'history': hist, 'mode': 'all-pairs'})
    # random histories for every (decoder, allowed code)
    for dname, cname in D.allowed_pairs():
        sizes = D.SIZES[cname][: (3 if deep else 2)]
        if dname == 'MemoryBeliefPropagationDecoder':
            sizes = [sz for sz in D.SIZES[cname] if D.make_code(cname, sz).n <= (19 if deep else 10)][:1]
        for size in sizes:
            cdefs = [None]
            if DECODERS[dname].allowed_codes is None and dname != 'MemoryBeliefPropagationDecoder':
                cdefs += list(CODES[cname].deformation_names)
            for cd in cdefs:
                code = D.make_code(cname, size, cd)
                n = code.n
                if n > 100 and not deep:
                    continue
                (d, nd, p) = D.noise_variants(cname, rng, 1)[0]
                em = D.make_noise(d, nd)
                k = 6 if n <= 40 else 4
                kw = None
                if dname == 'MemoryBeliefPropagationDecoder':
                    k, kw = 2, {'max_bp_iter': 2}
                if dname == 'XCubeMatchingDecoder':
                    k = 3
                errs = D.random_errors(code, em, rng, k, rates=(0.03, 0.1, 0.25))
                hist = [D.supports(e, n) for e in errs]
                hist.insert(1, [[], []])
                hist.append(hist[0])
                if code.is_css:
                    hist.insert(2, [hist[0][0], []])      # sector-wise zero syndromes
                    hist.append([[], hist[0][1]])
                if dname == 'BeliefPropagationOSDDecoder':
                    kw = {'channel_update': bool(rng.random() < 0.5), 'max_bp_iter': int(rng.choice([2, 1000])),
                          'osd_order': int(rng.choice([0, 10]))}
                cases.append({'decoder': dname, 'code': cname, 'size': list(size), 'code_deformation': cd,
                              'direction': list(d), 'noise_deformation': nd, 'p': p, 'kwargs': kw,
                              'history': hist, 'mode': 'sequence'})
                if size == sizes[0] and cd is None:
                    cases.append(dict(cases[-1], syndrome_dtype='int64'))
    if deep:
        cases += prefix_collision_cases(rng)
    return cases


LARGE = [('Toric2DCode', (9, 9)), ('Planar2DCode', (9, 9)), ('RotatedPlanar2DCode', (12, 12))]


def prefix_collision_cases(rng):
    """deep search only: codes with more than 64 checks per sector and histories of syndromes that agree
    with the zero syndrome (and with each other) on the first 8 / 16 / 32 / 64 checks of their sector --
    the inputs on which a memo / hash / packed key of the syndrome that drops high-index checks makes a
    reused decoder differ from a fresh one"""
    from panqec.config import CODES, DECODERS
    out = []
    for cname, size in LARGE:
        code = D.make_code(cname, size)
        n = code.n
        sector_pos = {}
        for mask in (np.asarray(code.x_indices), np.asarray(code.z_indices)):
            for k, i in enumerate(np.flatnonzero(mask)):
                sector_pos[int(i)] = k
        singles = []
        for q in range(2 * n):
            e = np.zeros(2 * n, dtype='uint8')
            e[q] = 1
            syn = np.flatnonzero(np.asarray(code.measure_syndrome(e)))
            if len(syn):
                singles.append((min(sector_pos[int(i)] for i in syn), D.supports(e, n)))
        hist = [[[], []]]
        for K in (64, 32, 16, 8):
            pool = [sup for (m, sup) in singles if m >= K]
            if pool:
                idx = rng.choice(len(pool), min(3, len(pool)), replace=False)
                hist += [pool[int(i)] for i in idx]
        hist += [[[], []], hist[1]]
        for dname in D.COMPLETE:
            if cname not in (DECODERS[dname].allowed_codes or list(CODES)):
                continue
            kw = {'max_bp_iter': 10, 'osd_order': 0} if dname == 'BeliefPropagationOSDDecoder' else None
            out.append({'decoder': dname, 'code': cname, 'size': list(size), 'direction': [0.25, 0.25, 0.5],
                        'p': 0.0625, 'kwargs': kw, 'history': hist, 'mode': 'sequence'})
    return out


def n_calls(c):
    k = len(c['history'])
    return 2 * k * k if c.get('mode') == 'all-pairs' else k


def oracle(ctx, deep=False, broken=None):
    cases = oracle_cases(ctx, deep)
    D.TIMED_OUT.clear()
    fails = first_failures(cases, D.bounded(check_case, match_key), key=match_key)
    for f in fails:
        f['input'] = shrink(f['input'])
        f['observed'] = check_case(f['input']) or f['observed']
    return fails, {'evaluations': sum(n_calls(c) for c in cases), 'objects': len(cases),
                   'tested (not proved)': 'identity of the real numpy arrays (syndrome, cached probability tables); '
                                          'third-party decode() being history-free'}


def replay(ctx, payload):
    return check_case(payload['input']) is not None
