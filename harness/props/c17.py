"""C17 - the reported distance d is the true code distance."""
from __future__ import annotations

import time
from typing import Dict, List, Optional, Tuple

from harness import codes as K
from harness import regen_codes as R
from harness import regen_dist as D
from harness.core import Stream
from harness.util import guarded, stack

ID = 'C17'
LEVEL = 'proof'
LEVEL_TEXT = ('Unbounded Lean theorems: (0) ALL SIZES of the hand-modelled surface codes '
              '(Properties/C17<Class>.lean): Toric2DCode (Lx,Ly>=2), Planar2DCode and RotatedPlanar2DCode (Lx,Ly>=1) have '
              'IsDistance n H (min Lx Ly), Toric3DCode and XCubeCode (Lx,Ly,Lz>=2) have IsDistance n H (min Lx Ly Lz), Planar3DCode '
              'and RotatedPlanar3DCode (Lx,Ly,Lz>=1) have IsDistance n H (min Lx (Ly*Lz)), RhombicToricCode (all L_i even >=2) has '
              'IsDistance n H (min Lx Ly Lz), RhombicPlanarCode (Lx,Ly>=2, Lz>=1) has IsDistance n H (min (Lx*Ly+(Lx-1)*(Ly-1)) Lz) '
              '(the weight of the X sheet or the height, NOT min(Lx,Ly,Lz): RhombicPlanarCode(2,2,7).d = 5 and that is the true '
              'distance), Color488Code (Lx,Ly>=1, rectangular sizes included since the repair of its logical operators) has '
              'IsDistance (8*Lx*Ly) H (min (2Lx) (2Ly)), Color666ToricCode (Lx=Ly=L>=1) has IsDistance (18L^2) H (4L), '
              'HollowRhombicCode (Lx,Ly>=2, Lz>=3, every size that is a valid code, i.e. not Deficient - C01) has IsDistance n H '
              '(min wX Lz), wX = Lx*Ly+(Lx-1)(Ly-1)-[Lz>=5]((Lx-2)(Ly-4)+(Lx-3)(Ly-3)) the weight of the listed X sheet z = 4 '
              '(through the hole when Lz >= 5; HollowRhombicCode(2,2,9).d = 5, (4,5,40).d = 28, true distances): Lz sheets z = 2i '
              'and one vertical stack per key of the listed sheet, each only shown to commute with all generators and to have '
              'the parities of the listed logical against the two listed logicals - equivalence through C04 '
              '(Lattice.same_class), which is where validity enters; NEGATIVE on the deficient sizes with Lx = 3 or Ly = 4 '
              '(recorded finding): reported d >= 6 but a plaquette of four X is a non-trivial logical '
              '(deficient_reported_distance_wrong_x/_y), on the '
              'matrices assembled from the '
              'hand-written lattice model, and code.d (min weight over the listed logicals) equals that value, for every '
              'lattice size; RotatedToric3DCode (Lx,Ly>=2 not both odd, Lz>=1): IsDistance n H d and code.d = d with d = min Lx Ly '
              '(even x even, k=2), min Ly (Lx*Lz) (odd Lx: defect line, logical Z a wall of Y letters), min Lx (Ly*Lz) (odd Ly) - '
              'packing in the sign picture of the C01 proof, which treats the mixed X/Z generators of the defect lines uniformly; '
              'HollowPlanar3DCode (Lx,Ly,Lz>=1): IsDistance n H (min Lx wZ) and code.d = min Lx wZ (wZ = x edges of a cross-section '
              'through the cavity = Ly*Lz - [Lx>=3](Ly-2)(Lz-2), the weight of the listed logical Z since the repair of '
              'get_logicals_z) for every size; regression theorems about the logical Z listed before the repair (the full end '
              'plane x = 1): code.d was min Lx (Ly*Lz), PROVED DIFFERENT from the distance when Ly,Lz>=3 and Lx>2Ly+2Lz-4 '
              '(old_reported_distance_wrong: former finding, smallest size (9,3,3): d reported 9, true 8) - upper bound: a listed logical; lower bound: packing with lattice translates (consecutive '
              'translates of a logical line differ by the row of generators between them, consecutive translates of a logical '
              'plane by the slab of vertex generators between them, so any operator commuting with all generators meets every '
              'translate; X-cube: Z lines are rigid, a line is equivalent to the product of three lines through the other '
              'corners of a rectangle of rows of cubes, which still gives min(L) disjoint representatives; rhombic codes: an X '
              'sheet has L translates along its normal through the slab of COLOURED cubes between them - every in-plane edge '
              'lies on one coloured cube of the slab, every edge across on two (checkerboard slab lemma, periodic and open) - '
              'a Z line of the toric code moves through rows of planar stars (products of two triangles of a vertex), the Z '
              'stack of the planar code is equivalent to every vertical stack of x- or y-edges because the z-legs of a '
              'vertical stack of triangles cancel in pairs; 4.8.8 colour code: a column of qubits (weight 2Ly) has 2Lx translates, '
              'a row (weight 2Lx) has 2Ly, through the column of squares or the column of octagons and squares between them; 6.6.6 toric colour code: in face '
              'coordinates the sheared torus is an unsheared 3L x 3L torus of hexagons, a listed zig-zag string has 3L '
              'translates (ladder through the column of faces between neighbours) and the qubits they leave free are L '
              'closed straight lines of 6L qubits, homologous to the zig-zag only modulo 2: their equivalence comes from '
              'C04 (Lattice.same_class: a line meets every face in 0 or 2 qubits and has the intersection parities of the '
              'zig-zag with the four listed strings - one crossing with the string of the other frame and colour, the line '
              'winds twice along a string of its own frame), 3L + L = 4L representatives using every qubit once); (0b) DEFORMED CODES: a '
              'per-qubit permutation of {X,Y,Z} preserves weight, commutation and span, hence IsDistance and code.d '
              '(distance_deformation_invariant, every n, H, d); so every deformed code of these fourteen classes (every name/axis '
              'get_deformation accepts) has the same distance, for every size (distance_deformed); (1) distance criterion and '
              'packing bound for every valid [[n,k]] code (a '
              'non-trivial logical anticommutes with some listed logical, by C04; d pairwise disjoint representatives '
              'modulo the stabilizer group force weight >= d); (2) soundness of the executable certificate checker '
              'checkDistance for every packed code and certificate (packing certificates: selection masks over the '
              'generators, all products computed in the lanes of one number; exhaustive certificates: enumeration of '
              'every Pauli of weight < d on per-qubit effect tables, sound by bilinearity of the symplectic form and '
              'C04). Instance theorems: for all 16 exported classes, every supported size up to the table bound (2-D '
              'L<=6, 3-D L<=4, n<=400; 488 of 492 instances) has IsDistance n H code.d, kernel-checked (decide +kernel) '
              'on tables and certificates regenerated from /repo on every run, so the theorems are re-proved against '
              'the current source. The model of `d` (min weight over listed logicals) is tied to code.d by a '
              'differential stream over all table sizes and deformations.')
LEVEL_NOTE = ('trusted: Lean kernel + standard axioms; translator harness/regen_codes.py (packs the matrices the '
              'current source emits); certificate search harness/regen_dist.py is NOT trusted (Lean checks every '
              'certificate). Not covered by a kernel-checked theorem (no certificate found: the triangular 6.6.6 colour '
              'code has d*d > n so disjoint representatives cannot exist, and the enumeration below d is too large): '
              'Color666PlanarCode L=3..6; Color666PlanarCode L=3 is checked natively '
              '(native_checked, thorough tier: 5.7 million pure X/Z operators below d=7). Sizes beyond the table bound and deformed codes are evaluated natively '
              'with the same proved-sound checker (trusted in addition: Lean compiler/runtime); deformation invariance of '
              'the distance is proved in general (distance_deformation_invariant), so for deformed codes the native '
              'evaluation is redundant with the undeformed instance theorem. All-sizes (unbounded in L) distance '
              'theorems exist for Toric2DCode, Planar2DCode, RotatedPlanar2DCode, Toric3DCode, Planar3DCode, '
              'RotatedPlanar3DCode, XCubeCode, RotatedToric3DCode, HollowPlanar3DCode (no deformation offered), '
              'RhombicToricCode, RhombicPlanarCode, Color488Code, Color666ToricCode, HollowRhombicCode (non-deficient sizes) only '
              '(undeformed and deformed; trusted in addition: the correspondence harness tying the hand-written '
              'lattice models to the classes, as in C01); the other 2 classes (Color3DCode, Color666PlanarCode) are covered '
              'by the bounded instance theorems (named ..._partial).')
TECHNIQUE = ('Lean 4 proof: certificate-checker soundness (unbounded) + kernel-checked instance theorems over tables '
             'and certificates regenerated from the source; differential correspondence of code.d; independent '
             'meet-in-the-middle / MILP search for lighter logical operators on the implementation')
TRUSTED = ['translator harness/regen_codes.py (packs code.stabilizer_matrix / logicals_x / logicals_z / d as emitted '
           'by the current source)',
           'native_checked: deformed codes, sizes beyond the kernel table bound and Color666PlanarCode(3,3) are '
           'evaluated by the compiled driver (same proved-sound checker)']
ASSUMPTIONS = ['supported lattice families as fixed in DESIGN.md section 4',
               'validity of the codes (premise of the distance theorems) is the kernel-checked C01 instance table']
RULE = ('stream 1: one `dist` op per (class, size, deformation): model distance on the live logical matrices vs '
        'code.d; stream 2: one `checkdistance` op per (class, size, deformation, certificate): proved-sound checker '
        'evaluated natively on live matrices, expected answer from an independent Python evaluation of the same '
        'certificate (including deliberately wrong certificates / overstated d)')

# all-sizes distance theorems of the hand-modelled classes (built and axiom-audited with C17)
ALLSIZES_CLASSES = ['Toric2DCode', 'Planar2DCode', 'RotatedPlanar2DCode', 'Toric3DCode', 'Planar3DCode',
                    'RotatedPlanar3DCode', 'XCubeCode', 'HollowPlanar3DCode', 'RotatedToric3DCode', 'RhombicToricCode',
                    'RhombicPlanarCode', 'Color488Code', 'Color666ToricCode', 'HollowRhombicCode']
PROPERTY_MODULES = ['PanqecVerif.Properties.C17'] + [f'PanqecVerif.Properties.C17{c}' for c in ALLSIZES_CLASSES]

# instances of the regenerated tables for which no certificate is expected (see LEVEL_NOTE)
EXPECTED_UNCERTIFIED = {
    ('Color666PlanarCode', (3, 3)), ('Color666PlanarCode', (4, 4)),
    ('Color666PlanarCode', (5, 5)), ('Color666PlanarCode', (6, 6)),
}


def regen(ctx):
    t0 = time.time()
    info = R.regen_instances()
    dist = D.regen_dist()
    per: Dict[str, Dict[str, int]] = {}
    unc = []
    for i in dist['instances']:
        p = per.setdefault(i['class'], {'packing': 0, 'exhaustive': 0, 'css': 0, 'uncertified': 0})
        p[i['kind'] or 'uncertified'] += 1
        if i['kind'] is None:
            unc.append((i['class'], tuple(i['size'])))
    out = {'changed_tables': info['changed'], 'changed_certificates': dist['changed'],
           'n_instances': len(dist['instances']), 'per_class': per,
           'uncertified_instances': [f'{c}{s}' for c, s in unc],
           'seconds': round(time.time() - t0, 1)}
    ctx.notes.append('coverage.uncertified_instances: ' + ', '.join(out['uncertified_instances']))
    unexpected = [u for u in unc if u not in EXPECTED_UNCERTIFIED]
    if unexpected:
        # the Lean coverage pins (Properties/C17.lean coverage_<Class>) break the build as well
        raise RuntimeError('no distance certificate found for ' + ', '.join(f'{c}{s}' for c, s in unexpected))
    return out


# ------------------------------------------------------------------ helpers

def nat_list(xs):
    xs = list(xs)
    return ','.join(str(int(x)) for x in xs) if xs else '-'


def live(cls, size, deform):
    code = K.build(cls, size, deform)
    return D.Inst(cls, size, code=code)


def table_cases(ctx, quick_n_deformed=60):
    """(cls, size, deform) over all table sizes x deformations (quick: deformations on n <= bound)"""
    out = []
    for cls in K.CLASSES:
        defs = K.deformations(cls)
        for size in R.instance_sizes(cls):
            out.append((cls, size, defs[0]))
            if ctx.thorough or K.qubit_count(cls, size) <= quick_n_deformed:
                for d in defs[1:]:
                    out.append((cls, size, d))
    return out


# ------------------------------------------------------------------ independent search (oracle)

def _effects(inst: D.Inst):
    """per single-qubit Pauli: (syndrome as int, logical effect as int)"""
    n = inst.n
    H, L = inst.H, inst.LX + inst.LZ
    lo = (1 << n) - 1

    def cols(rows):
        # bit i of colX[q] = Z bit q of row i (X_q anticommutes), colZ[q] = X bit q of row i
        cx = [0] * n
        cz = [0] * n
        for i, r in enumerate(rows):
            x, z = r & lo, r >> n
            b = 1 << i
            while z:
                q = (z & -z).bit_length() - 1
                cx[q] |= b
                z &= z - 1
            while x:
                q = (x & -x).bit_length() - 1
                cz[q] |= b
                x &= x - 1
        return cx, cz
    sx, sz = cols(H)
    lx, lz = cols(L)
    eff = []
    for q in range(n):
        eff.append((q, 'X', sx[q], lx[q]))
        eff.append((q, 'Z', sz[q], lz[q]))
        eff.append((q, 'Y', sx[q] ^ sz[q], lx[q] ^ lz[q]))
    return eff


def _op_of(terms) -> Dict[int, str]:
    """compose single-qubit Paulis (q, P) into an operator {qubit: pauli}"""
    bits: Dict[int, Tuple[int, int]] = {}
    for q, p in terms:
        x, z = bits.get(q, (0, 0))
        if p in 'XY':
            x ^= 1
        if p in 'ZY':
            z ^= 1
        bits[q] = (x, z)
    out = {}
    for q, (x, z) in bits.items():
        if x or z:
            out[q] = 'X' if (x and not z) else ('Z' if (z and not x) else 'Y')
    return out


def lighter_mitm(inst: D.Inst, max_w: int) -> Optional[Dict[int, str]]:
    """exhaustive meet-in-the-middle search for a non-trivial logical of weight <= max_w (< d):
    an operator with zero syndrome and non-zero logical effect.  Exact for max_w <= 4."""
    eff = _effects(inst)
    max_w = min(max_w, 4)
    if max_w < 1:
        return None
    # weight 1
    for q, p, s, l in eff:
        if s == 0 and l != 0:
            return {q: p}
    if max_w < 2:
        return None
    # singles by syndrome
    by_s: Dict[int, List[int]] = {}
    for i, (q, p, s, l) in enumerate(eff):
        by_s.setdefault(s, []).append(i)
    # weight 2: two singles with equal syndrome and different logical effect
    for s, idx in by_s.items():
        if len(idx) > 1:
            l0 = eff[idx[0]][3]
            for j in idx[1:]:
                if eff[j][3] != l0:
                    op = _op_of([(eff[idx[0]][0], eff[idx[0]][1]), (eff[j][0], eff[j][1])])
                    if op:
                        return op
    if max_w < 3:
        return None
    # pairs on distinct qubits, by syndrome (keep at most two different logical effects per syndrome)
    pairs: Dict[int, List[Tuple[int, int, int]]] = {}
    ne = len(eff)
    for i in range(ne):
        qi, _, si, li = eff[i]
        for j in range(i + 1, ne):
            qj, _, sj, lj = eff[j]
            if qi == qj:
                continue
            s = si ^ sj
            l = li ^ lj
            e = pairs.get(s)
            if e is None:
                pairs[s] = [(l, i, j)]
            elif len(e) < 2 and e[0][0] != l:
                e.append((l, i, j))
    # weight 3: pair + single
    for k, (q, p, s, l) in enumerate(eff):
        e = pairs.get(s)
        if e:
            for (l2, i, j) in e:
                if l2 != l:
                    op = _op_of([(eff[i][0], eff[i][1]), (eff[j][0], eff[j][1]), (q, p)])
                    if op and len(op) <= 3:
                        return op
    if max_w < 4:
        return None
    # weight 4: two pairs with equal syndrome and different logical effect
    for s, e in pairs.items():
        if len(e) == 2:
            (l1, i, j), (l2, a, b) = e
            op = _op_of([(eff[i][0], eff[i][1]), (eff[j][0], eff[j][1]),
                         (eff[a][0], eff[a][1]), (eff[b][0], eff[b][1])])
            if op:
                return op
    return None


def lighter_milp(inst: D.Inst, time_limit: float = 8.0, max_logicals: int = 8, first: int = 0) -> Optional[Dict[int, str]]:
    """minimum-weight operator commuting with all generators and anticommuting with a listed
    logical (integer program over x, z, support w and integer slacks); returns an operator of
    weight < d if one is found within the time limit"""
    import numpy as np
    from scipy.optimize import milp, LinearConstraint, Bounds
    from scipy.sparse import lil_matrix
    n, m = inst.n, len(inst.H)
    lo = (1 << n) - 1
    best = None
    logs = inst.LX + inst.LZ
    first = first % max(len(logs), 1)
    logs = logs[first:] + logs[:first]
    for l in logs[:max_logicals]:
        # variables: x (n), z (n), w (n), t (m), s (1)
        nv = 3 * n + m + 1
        rows = []
        A = lil_matrix((m + 1 + 2 * n, nv))
        lb = np.zeros(m + 1 + 2 * n)
        ub = np.zeros(m + 1 + 2 * n)
        for i, g in enumerate(inst.H + [l]):
            gx, gz = g & lo, g >> n
            for q in range(n):
                if (gx >> q) & 1:
                    A[i, n + q] = 1        # g_x . z
                if (gz >> q) & 1:
                    A[i, q] = 1            # g_z . x
            A[i, 3 * n + i] = -2
            lb[i] = ub[i] = 0 if i < m else 1
        for q in range(n):
            A[m + 1 + q, 2 * n + q] = 1
            A[m + 1 + q, q] = -1
            A[m + 1 + n + q, 2 * n + q] = 1
            A[m + 1 + n + q, n + q] = -1
            lb[m + 1 + q] = lb[m + 1 + n + q] = 0
            ub[m + 1 + q] = ub[m + 1 + n + q] = 1
        c = np.zeros(nv)
        c[2 * n:3 * n] = 1
        bl = np.zeros(nv)
        bu = np.concatenate([np.ones(3 * n), np.full(m + 1, float(n))])
        res = milp(c, constraints=LinearConstraint(A.tocsr(), lb, ub), integrality=np.ones(nv),
                   bounds=Bounds(bl, bu), options={'time_limit': time_limit})
        if res.x is None:
            continue
        x = np.rint(res.x[:n]).astype(int)
        z = np.rint(res.x[n:2 * n]).astype(int)
        op = {int(q): ('Y' if x[q] and z[q] else 'X' if x[q] else 'Z') for q in range(n) if x[q] or z[q]}
        if len(op) < inst.d and check_operator(inst, op):
            if best is None or len(op) < len(best):
                best = op
    return best


def op_to_mask(inst: D.Inst, op: Dict[int, str]) -> int:
    v = 0
    for q, p in op.items():
        q = int(q)
        if p in 'XY':
            v |= 1 << q
        if p in 'ZY':
            v |= 1 << (inst.n + q)
    return v


def symp(n: int, a: int, b: int) -> int:
    lo = (1 << n) - 1
    return (bin((a & lo) & (b >> n)).count('1') + bin((a >> n) & (b & lo)).count('1')) % 2


def check_operator(inst: D.Inst, op: Dict[int, str]) -> bool:
    """the property as stated, on one operator: commutes with every generator, anticommutes with
    some listed logical (hence is not a product of generators), weight < reported d"""
    if any(int(q) < 0 or int(q) >= inst.n for q in op):
        return False
    v = op_to_mask(inst, op)
    if any(symp(inst.n, g, v) for g in inst.H):
        return False
    if not any(symp(inst.n, l, v) for l in inst.LX + inst.LZ):
        return False
    return D.pweight(inst.n, v) < inst.d


def describe(inst: D.Inst, op: Dict[int, str]):
    return {str(inst.coords[int(q)]): p for q, p in sorted(op.items())}


def oracle_case(c, deep):
    """None or a failure dict"""
    cls, size, deform = c['class'], tuple(c['size']), (c['deform'][0], c['deform'][1])
    try:
        inst = live(cls, size, deform)
    except Exception as e:  # noqa
        return None, f'construct raised {type(e).__name__}'
    d = inst.d
    ws = [D.pweight(inst.n, v) for v in inst.LX + inst.LZ]
    op = None
    if ws and min(ws) < d:
        # a listed logical itself is lighter than the reported d
        i = ws.index(min(ws))
        v = (inst.LX + inst.LZ)[i]
        op = {q: ('Y' if (v >> q) & 1 and (v >> (inst.n + q)) & 1 else 'X' if (v >> q) & 1 else 'Z')
              for q in range(inst.n) if ((v >> q) | (v >> (inst.n + q))) & 1}
    covered = 0
    if op is None:
        max_w = min(d - 1, c.get('max_w', 2), 4)
        if max_w >= 3 and inst.n > (150 if max_w == 3 else 110):
            max_w = 2
        op = lighter_mitm(inst, max_w)
        covered = max_w
    # integer program only where the exhaustive search does not reach d - 1
    if op is None and (deep or c.get('always')) and c.get('milp') and covered < d - 1:
        op = lighter_milp(inst, time_limit=c.get('time_limit', 6.0), max_logicals=c.get('max_logicals', 8),
                          first=c.get('first', 0))
    if op is not None and check_operator(inst, op):
        return {'input': {'class': cls, 'size': list(size), 'deform': [deform[0], deform[1]],
                          'operator': {str(q): p for q, p in sorted(op.items())},
                          'operator_coordinates': describe(inst, op), 'weight': len(op), 'reported_d': d},
                'observed': f'non-trivial logical operator of weight {len(op)} < reported d = {d}',
                'match': {'class': cls, 'size': list(size)}}, None
    # the other direction: the reported d must be attained.  The lightest listed logical has weight
    # w_min; if d < w_min and the exhaustive search up to weight d finds no non-trivial logical,
    # no operator of weight d is a non-trivial logical: d understates the distance.
    # ... also when a listed row of weight d is not a non-trivial logical operator at all (e.g. an empty row):
    # then nothing listed attains d either
    def _is_logical(v):
        return not any(symp(inst.n, g, v) for g in inst.H) and any(symp(inst.n, l, v) for l in inst.LX + inst.LZ)
    attained = any(D.pweight(inst.n, v) == d and _is_logical(v) for v in inst.LX + inst.LZ)
    if ws and (d < min(ws) or not attained):
        exact = d <= 0 or (d <= 2) or (d == 3 and inst.n <= 150) or (d == 4 and inst.n <= 110)
        if exact and (d <= 0 or lighter_or_equal_none(inst, d)):
            return {'input': {'class': cls, 'size': list(size), 'deform': [deform[0], deform[1]],
                              'operator': {}, 'understated': True, 'weight': None, 'reported_d': d,
                              'lightest_listed': min(ws)},
                    'observed': f'reported d = {d} but no non-trivial logical operator of weight <= {d} exists '
                                f'(exhaustive search); the lightest listed logical has weight {min(ws)}',
                    'match': {'class': cls, 'size': list(size)}}, None
    return None, None


HOLLOW_MEMBRANE_SIZES = [(9, 3, 3), (8, 3, 3), (5, 3, 3)]
HOLLOW_MEMBRANE_SIZES_DEEP = [(10, 3, 3), (11, 3, 4), (10, 3, 4), (9, 4, 3), (7, 2, 5)]


def hollow_membrane_case(size):
    """Z on the x edges (3, y, z) of HollowPlanar3DCode(size): a failure iff it is a non-trivial logical
    operator lighter than the reported d (regression corpus of the repaired finding: no failure on the
    repaired tree, where this operator is the listed logical Z)"""
    cls = 'HollowPlanar3DCode'
    try:
        inst = live(cls, tuple(size), (None, {}))
    except Exception:  # noqa
        return None
    op = {q: 'Z' for q, c in enumerate(inst.coords) if int(c[0]) == 3 and int(c[1]) % 2 == 0 and int(c[2]) % 2 == 0}
    if not op or not check_operator(inst, op):
        return None
    Lx, Ly, Lz = size
    match = {'class': cls, 'size': list(size)}
    if Ly >= 3 and Lz >= 3 and Lx > 2 * Ly + 2 * Lz - 4:
        match = {'class': cls, 'size_class': 'Ly, Lz >= 3 and Lx > 2 Ly + 2 Lz - 4'}
    return {'input': {'class': cls, 'size': list(size), 'deform': [None, {}],
                      'operator': {str(q): p for q, p in sorted(op.items())},
                      'operator_coordinates': describe(inst, op), 'weight': len(op), 'reported_d': inst.d},
            'observed': f'non-trivial logical operator of weight {len(op)} < reported d = {inst.d} '
                        f'(Z membrane through the cavity, cross-section x = 3)',
            'match': match}


# deficient sizes of HollowRhombicCode (recorded C01 finding: rank n-k-1 or less): the plaquette of four X next to
# the thin hole (theorems C17HollowRhombicCode.deficient_reported_distance_wrong_x / _y)
HOLLOW_RHOMBIC_DEFICIENT = [((3, 6, 6), [(2, 5, 4), (2, 5, 6), (2, 4, 5), (2, 6, 5)])]
HOLLOW_RHOMBIC_DEFICIENT_DEEP = [((5, 4, 6), [(5, 2, 4), (5, 2, 6), (4, 2, 5), (6, 2, 5)]),
                                 ((3, 7, 6), [(2, 5, 4), (2, 5, 6), (2, 4, 5), (2, 6, 5)])]


def in_span(rows: List[int], v: int) -> bool:
    """v is a GF(2) combination of the rows (bit masks)"""
    piv: Dict[int, int] = {}
    for r in rows:
        while r:
            h = r.bit_length() - 1
            if h in piv:
                r ^= piv[h]
            else:
                piv[h] = r
                break
    while v:
        h = v.bit_length() - 1
        if h not in piv:
            return False
        v ^= piv[h]
    return True


def span_check_operator(inst: D.Inst, op: Dict[int, str]) -> bool:
    """the property as stated, without reference to the listed logicals: the operator commutes with
    every generator, is NOT a product of generators (GF(2) elimination), and is lighter than the reported d"""
    if not op or any(int(q) < 0 or int(q) >= inst.n for q in op):
        return False
    v = op_to_mask(inst, op)
    if any(symp(inst.n, g, v) for g in inst.H):
        return False
    if D.pweight(inst.n, v) >= inst.d:
        return False
    return not in_span(inst.H, v)


def hollow_rhombic_deficient_case(size, keys):
    """X on the plaquette `keys` of HollowRhombicCode(size), a deficient size: a failure iff it commutes with
    all generators, is not a product of generators and is lighter than the reported d (it commutes with BOTH
    listed logicals: it belongs to the undeclared second logical qubit, so `check_operator` does not see it)"""
    cls = 'HollowRhombicCode'
    try:
        inst = live(cls, tuple(size), (None, {}))
    except Exception:  # noqa
        return None
    if any(tuple(k) not in inst.coord_index for k in keys):
        return None
    op = {inst.coord_index[tuple(k)]: 'X' for k in keys}
    if not span_check_operator(inst, op):
        return None
    return {'input': {'class': cls, 'size': list(size), 'deform': [None, {}], 'span_check': True,
                      'operator': {str(q): p for q, p in sorted(op.items())},
                      'operator_coordinates': describe(inst, op), 'weight': len(op), 'reported_d': inst.d},
            'observed': f'operator of weight {len(op)} < reported d = {inst.d} commutes with all {len(inst.H)} generators '
                        f'and is not a product of generators (it commutes with both listed logicals: undeclared second '
                        f'logical qubit of the thin hole)',
            'match': {'class': cls, 'size_class': 'deficient (thin hole), Lx = 3 or Ly = 4'}}


def lighter_or_equal_none(inst: D.Inst, w: int) -> bool:
    """True iff no non-trivial logical of weight <= w exists (exhaustive, w <= 4)"""
    return lighter_mitm(inst, w) is None


def class_file(cls):
    """source file of a code class, relative to the checkout"""
    import inspect
    import os
    import panqec.codes as C
    from harness.core import REPO
    try:
        return os.path.relpath(inspect.getsourcefile(getattr(C, cls)), str(REPO))
    except Exception:  # noqa
        return None


def oracle(ctx, deep=False, broken=None):
    rng = ctx.np_rng(171)
    cases = []
    for cls in K.CLASSES:
        defs = K.deformations(cls)
        sizes = R.instance_sizes(cls)
        for size in sizes:
            n = K.qubit_count(cls, size)
            c = {'class': cls, 'size': list(size), 'deform': [None, {}], 'max_w': 4 if deep else 2,
                 'milp': deep and n <= 130}
            if (cls, tuple(size)) in EXPECTED_UNCERTIFIED:
                # no theorem covers these: always search with the integer program as well
                c.update({'milp': n <= 300, 'always': True, 'max_w': 4 if n <= 110 else 3,
                          'max_logicals': 8 if deep else 2, 'first': 0 if deep else 2 * ctx.seed,
                          'uncertified': True})
            cases.append(c)
        if deep:
            small = [s for s in sizes if K.qubit_count(cls, s) <= 110]
            pick = [small[i] for i in sorted(rng.choice(len(small), min(len(small), 6), replace=False))] if small else []
            for size in pick:
                d = defs[int(rng.integers(0, len(defs)))]
                if d[0] is not None:
                    cases.append({'class': cls, 'size': list(size), 'deform': [d[0], d[1]], 'max_w': 4, 'milp': False})
            bigger = [x for x in K.all_sizes(cls, 8 if K.dimension(cls) == 2 else 5, n_max=500) if x not in sizes]
            if bigger:
                for i in sorted(rng.choice(len(bigger), min(len(bigger), 4), replace=False)):
                    cases.append({'class': cls, 'size': list(bigger[i]), 'deform': [None, {}], 'max_w': 3, 'milp': False})
    # classes whose own source file changed since the recorded green state: elongated lattices with
    # pairwise different sides (where an axis mix-up in the lattice definition shows), exact search by MILP
    focus = [cls for cls in K.CLASSES if class_file(cls) in set(getattr(ctx, 'changed_files', []) or [])]
    for cls in focus:
        sizes = set(map(tuple, R.instance_sizes(cls)))
        lim = 9 if K.dimension(cls) == 2 else 7
        cand = [x for x in K.all_sizes(cls, lim, n_max=260) if tuple(x) not in sizes and max(x) >= 5
                and len(set(x)) == len(x)]
        cand.sort(key=lambda x: (K.qubit_count(cls, x), x))
        for x in cand:
            cases.append({'class': cls, 'size': list(x), 'deform': [None, {}], 'max_w': 3, 'milp': True,
                          'always': True, 'focus': True, 'max_logicals': 8})
    # MILP budget: spread over the cases that ask for it
    milp_cases = [c for c in cases if c.get('milp')]
    for c in milp_cases:
        c['time_limit'] = 3.0 if c.get('focus') else 4.0 if deep else 2.5
    fails, errs = [], 0
    t0 = time.time()
    milp_deadline = 420 if ctx.thorough else 150
    for c in sorted(cases, key=lambda c: (K.qubit_count(c['class'], tuple(c['size'])), c['class'])):
        if c.get('focus'):
            if time.time() - t0 > milp_deadline + 360:        # focus cases in order of size until the budget ends
                continue
        elif c.get('milp') and time.time() - t0 > milp_deadline:
            c['milp'] = False
        f, err = oracle_case(c, deep)
        if err:
            errs += 1
        if f is not None:
            fails.append(f)
    # directed family (theorem C17HollowPlanar3DCode.distance), kept as a regression corpus: the Z membrane
    # through the cavity of HollowPlanar3DCode, i.e. Z on the existing x edges of the cross-section x = 3.  It
    # is a non-trivial logical of weight Ly*Lz - (Ly-2)(Lz-2).  Before the repair of get_logicals_z (former
    # finding, now kind 'fixed' in known_findings.json) code.d = min(Lx, Ly*Lz) exceeded it iff Ly, Lz >= 3
    # and Lx > 2Ly + 2Lz - 4 (smallest size (9,3,3)); since the repair it is the listed logical Z, so its
    # weight is never below code.d and the family must pass.  Appended after the generic cases so that a
    # generic failure of the class at a small size is the one that is kept per class.
    n_dir = 0
    for size in HOLLOW_MEMBRANE_SIZES + (HOLLOW_MEMBRANE_SIZES_DEEP if deep else []):
        n_dir += 1
        f = hollow_membrane_case(size)
        if f is not None:
            fails.append(f)
    # directed family (theorems C17HollowRhombicCode.deficient_reported_distance_wrong_x / _y; recorded finding):
    # on a deficient size of HollowRhombicCode the plaquette of four X next to the thin hole is lighter than code.d
    n_def = 0
    for size, keys in HOLLOW_RHOMBIC_DEFICIENT + (HOLLOW_RHOMBIC_DEFICIENT_DEEP if deep else []):
        n_def += 1
        f = hollow_rhombic_deficient_case(size, keys)
        if f is not None:
            fails.append(f)
    # the d written to result files = the d of a fresh code of that size (same for n, k)
    n_rec = 0
    for cls, sizes in recorded_cases(ctx, deep):
        try:
            rec = recorded_d(cls, sizes)
        except Exception as e:  # noqa
            errs += 1
            continue
        for size in sizes:
            n_rec += 1
            code = K.build(cls, size, (None, {}))
            want = (int(code.n), int(code.k), int(code.d))
            got = sorted(rec.get(tuple(size), {('missing',)}))
            if got != [want]:
                fails.append({'input': {'class': cls, 'size': list(size), 'recorded': True,
                                        'batch_sizes': [list(x) for x in sizes]},
                              'observed': f'results file of a batch over sizes {sizes}, and the analysis reading it back, give (n, k, d) = {got} for '
                                          f'{cls}{tuple(size)}; a fresh code of that size has {want}',
                              'match': {'class': cls, 'size': list(size), 'recorded': True}})
                break
    # one replay per class: the smallest failing size
    seen, out = set(), []
    for f in fails:
        k = f['input']['class']
        if k in seen:
            continue
        seen.add(k)
        out.append(f)
    return out, {'evaluations': len(cases) + n_rec + n_dir + n_def, 'recorded_d_cases': n_rec, 'hollow_membrane_cases': n_dir,
                 'hollow_rhombic_deficient_cases': n_def, 'construct_errors': errs, 'deep': bool(deep),
                 'milp_cases': len(milp_cases), 'seconds': round(time.time() - t0, 1)}


def replay(ctx, payload):
    i = payload['input']
    if i.get('recorded'):
        sizes = [tuple(x) for x in i['batch_sizes']]
        rec = recorded_d(i['class'], sizes)
        code = K.build(i['class'], tuple(i['size']), (None, {}))
        return sorted(rec.get(tuple(i['size']), {('missing',)})) != [(int(code.n), int(code.k), int(code.d))]
    try:
        inst = live(i['class'], tuple(i['size']), (i['deform'][0], i['deform'][1]))
    except Exception:  # noqa
        return False
    if i.get('operator') and check_operator(inst, {int(q): p for q, p in i['operator'].items()}):
        return True
    if i.get('span_check'):
        return span_check_operator(inst, {int(q): p for q, p in i['operator'].items()})
    f, _ = oracle_case({'class': i['class'], 'size': i['size'], 'deform': i['deform'], 'max_w': 4, 'milp': True}, True)
    return f is not None


# ------------------------------------------------------------------ correspondence

def exhaustive_reference(inst: D.Inst) -> Optional[bool]:
    """independent evaluation of 'no Pauli of weight < d commutes with all generators and
    anticommutes with a listed logical' (None when out of reach)"""
    if inst.d - 1 > 4 or (inst.d - 1 >= 3 and inst.n > 110):
        return None
    return lighter_mitm(inst, inst.d - 1) is None



# ---- the d written to result files (statement: "... and that is written to result files and used as the
# scaling variable in threshold fits"): a batch of simulations whose lattice sizes are permutations of
# each other, built in ONE process through read_input_dict, one trial each, file read back with json

def recorded_cases(ctx, deep):
    """[(cls, [sizes...])]: per class a few table sizes plus all their distinct axis permutations"""
    import itertools as it
    out = []
    for cls in K.CLASSES:
        sizes = [tuple(x) for x in R.instance_sizes(cls) if K.qubit_count(cls, x) <= (120 if deep else 60)]
        fam = [x for x in sizes if len(set(x)) > 1]
        fam.sort(key=lambda x: K.qubit_count(cls, x))
        chosen, symmetric = [], []
        for x in fam:
            perms = [q for q in sorted(set(it.permutations(x))) if q in sizes]
            if len(perms) < 2 or any(set(perms) <= set(c) for c in chosen + symmetric):
                continue
            try:
                triples = {(int(c_.n), int(c_.k), int(c_.d)) for c_ in (K.build(cls, q, (None, {})) for q in perms)}
            except Exception:  # noqa
                continue
            # families whose members differ in (n, k, d) come first: only there a mix-up between
            # permuted sizes is visible
            (chosen if len(triples) > 1 else symmetric).append(perms)
            if len(chosen) >= (3 if deep else 1):
                break
        chosen = (chosen + symmetric)[: (3 if deep else 1)]
        flat = [q for c in chosen for q in c]
        if not flat and sizes:
            flat = sizes[:2]
        if flat:
            out.append((cls, flat))
    # sizes of one class with EQUAL n and different d in one results file (a reader that keys codes by (class, n))
    out.append(('Toric2DCode', [(2, 8), (4, 4), (8, 2)]))
    return out


def recorded_d(cls, sizes):
    """the (n, k, d) recorded for each size in the results file of one batch (one process, one trial each)"""
    import json as _json
    import os as _os
    import tempfile
    import contextlib
    import io
    from panqec.simulation import read_input_dict
    names = ['L_x', 'L_y', 'L_z']
    spec = {'ranges': {'label': 'c17', 'code': {'name': cls, 'parameters': [dict(zip(names, sz)) for sz in sizes]},
                       'error_model': {'name': 'PauliErrorModel',
                                       'parameters': [{'r_x': 0.25, 'r_y': 0.25, 'r_z': 0.5}]},
                       'decoder': {'name': 'BeliefPropagationOSDDecoder',
                                   'parameters': {'max_bp_iter': 2, 'osd_order': 0}},
                       'error_rate': [0.0625]}}
    with tempfile.TemporaryDirectory() as t, contextlib.redirect_stdout(io.StringIO()), \
            contextlib.redirect_stderr(io.StringIO()):
        f = _os.path.join(t, 'results.json')
        b = read_input_dict(spec, output_file=f)
        mem = [sim.get_results_to_save()['inputs']['code'] for sim in b._simulations]
        b.run(1)
        doc = _json.load(open(f))
        # ... "and used as the scaling variable in threshold fits": what the analysis reads back for each entry
        from panqec.analysis import Analysis
        rows = Analysis(f).get_results()
        seen = [{'parameters': dict(r_['code_params']), 'n': r_['n'], 'k': r_['k'], 'd': r_['d']}
                for _, r_ in rows.iterrows()]
    out = {}
    for rec in [d_['inputs']['code'] for d_ in doc] + mem + seen:
        key = tuple(rec['parameters'][a] for a in names[:len(sizes[0])])
        out.setdefault(key, set()).add((int(rec['n']), int(rec['k']), int(rec['d'])))
    return out


def correspondence(ctx):
    rng = ctx.np_rng(172)
    # ---- stream 1: code.d vs the model `distance`
    s1 = Stream('reported-d-vs-model')
    for cls, size, deform in table_cases(ctx):
        label = f'{cls}{tuple(size)}/{K.deform_tag(deform)}'
        try:
            code = K.build(cls, size, deform)
            LX, LZ = K.dense(code.logicals_x), K.dense(code.logicals_z)
        except Exception as e:  # noqa
            s1.add('bad-op construct ' + label.replace(' ', ''), f'EXC:{type(e).__name__}', {'code': label},
                   tag='construct-fail')
            continue
        ans = guarded(lambda: str(int(code.d)))
        s1.add(f'dist {stack(LX)} {stack(LZ)}', ans, {'code': label, 'n': code.n},
               nontrivial=True, tag=cls + (':deformed' if deform[0] else ''))
    # degenerate: no logicals at all (numpy raises on min of an empty array)
    s1.add('dist _ _', 'ERR empty', {'code': 'no logical operators'}, tag='empty')
    s1.run()

    # ---- stream 2: proved-sound checker, natively, on live (deformed / larger) instances
    s2 = Stream('native-checkdistance')
    budget = D.EXH_NATIVE_BUDGET if ctx.thorough else 300_000
    for cls in K.CLASSES:
        inst_sizes = R.instance_sizes(cls)
        defs = K.deformations(cls)
        chosen = []
        pool = [x for x in inst_sizes if K.qubit_count(cls, x) <= (400 if ctx.thorough else 120)]
        for d in defs:
            kk = min(len(pool), 5 if ctx.thorough else 2)
            pick = [pool[i] for i in sorted(rng.choice(len(pool), kk, replace=False))] if pool else []
            chosen += [(x, d) for x in pick]
        bigger = [x for x in K.all_sizes(cls, 8 if K.dimension(cls) == 2 else 5, n_max=700 if ctx.thorough else 300)
                  if x not in inst_sizes]
        if bigger:
            for i in sorted(rng.choice(len(bigger), min(len(bigger), 4 if ctx.thorough else 1), replace=False)):
                chosen.append((bigger[i], defs[int(rng.integers(0, len(defs)))]))
        if cls == 'Color666PlanarCode':
            chosen.append(((2, 2), defs[0]))
            if ctx.thorough:
                chosen.append(((3, 3), defs[0]))     # 5.7 million pure-type operators below d = 7
        for size, deform in chosen:
            label = f'{cls}{tuple(size)}/{K.deform_tag(deform)}'
            try:
                base = D.Inst(cls, size)                       # certificate search on the undeformed code
                inst = live(cls, size, deform) if deform[0] else base
            except Exception as e:  # noqa
                s2.add('bad-op construct ' + label.replace(' ', ''), f'EXC:{type(e).__name__}', {'code': label},
                       tag='construct-fail')
                continue
            cert = D.find_cert(base, budget=budget)
            if cert is None:
                s2.hist['no-certificate'] = s2.hist.get('no-certificate', 0) + 1
                continue
            ws = [D.pweight(inst.n, v) for v in inst.LX + inst.LZ]
            rep = 1 if ws and min(ws) == inst.d else 0
            head = f'checkdistance {inst.n} {inst.k} {inst.d} {nat_list(inst.H)} {nat_list(inst.LX)} {nat_list(inst.LZ)}'
            tagb = cls + ('' if size in inst_sizes else ':beyond-table') + (':deformed' if deform[0] else '')
            if cert[0] == 'packing':
                # a deformation is a per-qubit relabelling: the same selection masks must work
                s2.add(f'{head} P:{nat_list(cert[1])}', f'{rep} 1',
                       {'code': label, 'cert': 'packing', 'python_mirror': D.verify_packing_flat(inst, cert[1])},
                       tag=tagb + ':packing')
                bad = list(cert[1])
                if inst.d >= 2:
                    bad[1] = bad[0]                            # two equal representatives: not disjoint
                    s2.add(f'{head} P:{nat_list(bad)}', f'{rep} 0', {'code': label, 'cert': 'packing, duplicated'},
                           tag='negative:duplicate-representative')
            else:
                letter, kind = ('E', 'exhaustive') if cert[0] == 'exhaustive' else ('C', 'css')
                if kind == 'css' and not D.is_css(inst):
                    letter, kind = 'E', 'exhaustive'      # a deformed code need not be CSS
                    if D.exhaustive_count(inst.n, inst.d) > budget:
                        s2.hist['no-certificate'] = s2.hist.get('no-certificate', 0) + 1
                        continue
                ref = exhaustive_reference(inst)
                if ref is not None:
                    s2.add(f'{head} {letter}', f'{rep} {1 if ref else 0}', {'code': label, 'cert': kind},
                           tag=tagb + ':' + kind)
                else:
                    s2.add(f'{head} {letter}', f'{rep} 1', {'code': label, 'cert': kind + ' (no python reference)'},
                           tag=tagb + ':' + kind + '-noref')
                if kind == 'exhaustive' and D.is_css(inst):
                    # the CSS-restricted enumeration must agree on CSS codes
                    s2.add(f'{head} C', f'{rep} {1 if ref or ref is None else 0}', {'code': label, 'cert': 'css'},
                           tag=tagb + ':css-too')
            # overstated distance: must be rejected when the enumeration is affordable
            if D.exhaustive_count(inst.n, inst.d + 1) <= (2_000_000 if ctx.thorough else 100_000) and inst.d + 1 <= 5 \
                    and not (inst.d >= 3 and inst.n > 110):
                h2 = f'checkdistance {inst.n} {inst.k} {inst.d + 1} {nat_list(inst.H)} {nat_list(inst.LX)} {nat_list(inst.LZ)}'
                s2.add(f'{h2} E', '0 0', {'code': label, 'cert': 'exhaustive, d overstated by 1'},
                       tag='negative:overstated-d')
    s2.add('checkdistance 4 2 2 15,240 3,5 80,48 Q', 'ERR cert', {'code': 'malformed certificate'}, tag='malformed')
    s2.run()

    # ---- stream 3: the d / n / k written to the results file of a batch with permuted lattice sizes
    s3 = Stream('recorded-d-in-results-file')
    for cls, sizes in recorded_cases(ctx, ctx.thorough):
        try:
            rec = recorded_d(cls, sizes)
        except Exception as e:  # noqa
            s3.add(f'bad-op recorded {cls}', f'EXC:{type(e).__name__}:{str(e)[:80]}', {'class': cls, 'sizes': sizes},
                   tag='construct-fail')
            continue
        for size in sizes:
            code = K.build(cls, size, (None, {}))                # a freshly built code of that size
            LX, LZ = K.dense(code.logicals_x), K.dense(code.logicals_z)
            got = sorted(rec.get(tuple(size), {('missing',)}))
            ans = str(got[0][2]) if len(got) == 1 and len(got[0]) == 3 else f'INCONSISTENT:{got}'
            s3.add(f'dist {stack(LX)} {stack(LZ)}', ans,
                   {'class': cls, 'size': list(size), 'batch_sizes': [list(x) for x in sizes],
                    'what': 'inputs.code.d of the results file vs distance of a fresh code'}, tag=cls)
    s3.run()
    return [s1, s2, s3]
