"""C20 - the visualizer backend serves every offered choice with faithful data."""
from __future__ import annotations

import json
import os
from unittest import mock

import numpy as np

from harness import codes as K
from harness.core import Stream
from harness.util import guarded, first_failures

ID = 'C20'
LEVEL = 'proof'
LEVEL_TEXT = ('Table theorems proved by decide over data a translator regenerates from the current source on every run '
              '(menus of _gui.py, COMPLETE content of gui-config.json, colormap, allowed_codes, stabilizer types of every '
              'class): every code x picture x stabilizer type and every qubit description exists and is complete; the '
              'decoders offered are exactly those declaring support. Generic theorems (any tables): completeness implies '
              'every backend lookup succeeds with all colours resolved; offered <-> allowed; one description per coordinate '
              'in index order. List part of /code-data (Properties/C20Repr.lean): a Lean model of stabilizer_representation / '
              'qubit_representation (base class and the per-class overrides of all 16 menu classes, floats kept symbolic) and '
              'of send_code_data on the hand-written all-sizes lattice models; proved for EVERY size of each class, every '
              'offered deformation and both pictures: the request succeeds with exactly n qubit and m stabilizer descriptions, '
              'the i-th one computed from and located at the i-th library coordinate, each with object, colour, opacity, '
              'params, location (no look-up miss), and H / logical_x / logical_z are the matrices of the C01 valid_code '
              'theorems (relabelled qubit by qubit under a deformation, C08; validity transfers). The model is tied to the '
              'Flask backend by differential runs through the test client: menus, per-type descriptions, and EVERY field of '
              'every description plus H / logicals / order of /code-data for every menu class x sizes x deformation x picture; '
              'the statement-level oracle compares /code-data, /decode and /new-errors with direct library calls. '
              'Library routes (Properties/C20Routes.lean): a Lean model of the glue of _instantiate_code, send_correction, '
              'send_random_errors, send_decoder_names with the library (class constructors, deform, code.n, PauliErrorModel, decoder '
              'constructors, decode, generate) as a parameter; proved for ANY library and menus: /decode constructs exactly the objects '
              'the request names (class with (Lx, Ly) for 2-D - Lz ignored, present or not - or (Lx, Ly, Lz) for 3-D, deform iff the '
              'deformation is not "None", direction and noise deformation with "None" -> None, decoder class, p, keyword arguments: '
              'max_bp_iter for BP-OSD and MBP, osd_order=0 and channel_update for BP-OSD, alpha and beta for MBP, nothing else) in the '
              'order code, error model, decoder, decode(syndrome), and answers the library correction split at code.n; /new-errors '
              'answers the whole vector generate returned for the named error model and code; a request whose selection fails is never '
              'answered; the answers depend on the listed request fields only. Regenerated tables (noise_directions, constructor '
              'signatures of the menu decoders, request bodies and decoder-folder controls of main.js) by decide: every menu code x '
              'decoder x error model request of the front end selects exactly the named objects; directions sum to 1; every field the '
              'front end sends is read and every option control reaches exactly the decoders whose constructor has that parameter '
              '(the repaired defect: channel_update was dropped; old glue kept with regression theorems). Tied to the backend by spies '
              'on the code / error-model / decoder constructors and calls through the Flask test client (constructor arguments, call '
              'order, returned JSON, exception kind of malformed requests) and by /new-errors end to end against the route model on top '
              'of the lattice models and the C07 noise model with planted variates.')
LEVEL_NOTE = ('trusted: Lean kernel + standard axioms; translator harness/regen_gui.py; the Flask/JSON layer is tested '
              '(compared field by field with the model), not modelled; floats the source computes with numpy (np.pi/4, '
              'np.sqrt(2)/2, z*1.4142, y+-0.9) are symbolic constants of the model, matched by exact float equality with the '
              'same Python operation in the harness; nothing specifies what a drawing should look like (the theorems are about '
              'completeness, order, location and the matrices, not about geometric correctness of normals and angles); error '
              'kinds are compared as "HTTP error" only; menu sizes beyond the bounded set (up to 12) are covered by the all-sizes '
              'theorems on the model side and by the streams up to 6 (3-D) / 8 (2-D) in the thorough tier; for /decode and '
              '/new-errors the GLUE is modelled, the library behind it is a parameter: the decoders are not plugged into the route '
              'model (their models belong to C05 / C10; the oracle compares the answer with the real library decoder), np.array(syndrome) '
              'is part of the decode parameter (ragged lists not modelled), malformed sizes reach the class constructor and are outside '
              'the model; of the JavaScript front end only the request bodies and the decoder-folder controls of main.js are read '
              '(regex translator), the rest is out of scope')
TECHNIQUE = ('Lean 4 proof by decide over tables regenerated from the source by a translator + generic lookup theorems + '
             'all-sizes theorems about a hand-written model of the representation methods and send_code_data; '
             'differential correspondence through the Flask test client (every field of /code-data)')
TRUSTED = ['translator harness/regen_gui.py (AST-free: imports the module and reads the JSON; float literals as exact decimals; '
           'noise directions as the small fraction whose float they are; constructor signatures by inspect; main.js request bodies by regex)',
           'spies of the route streams (subclasses of the menu classes / PauliErrorModel recording their arguments, stand-in decoders)',
           'HTTP/JSON layer tested only',
           'float tags: a float of the answer is recognised by exact equality with the Python operation the source performs']
ASSUMPTIONS = ['supported lattice families of DESIGN.md section 4; menu = _gui.codes/_gui.decoders + main.js (sizes 1..12, coprime L+1)']


PROPERTY_MODULES = ['PanqecVerif.Properties.C20', 'PanqecVerif.Properties.C20Repr', 'PanqecVerif.Properties.C20Routes', 'PanqecVerif.Properties.C20RoutesNoise']


def regen(ctx):
    from harness.regen_gui import regen_gui
    return regen_gui()


def client():
    from panqec.gui._gui import GUI
    g = GUI()
    g.app.logger.disabled = True
    import logging
    logging.getLogger('werkzeug').disabled = True
    return g, g.app.test_client()


def post(c, url, payload):
    r = c.post(url, json=payload)
    if r.status_code != 200:
        return None, r.status_code
    return json.loads(r.data), 200


def menu_requests(ctx, deep=False):
    """(menu name, class, size, deformation, rotated)"""
    import panqec.gui._gui as G
    rng = ctx.np_rng(201)
    reqs = []
    for name, klass in G.codes.items():
        cls = klass.__name__
        dim = klass.dimension
        lmax = (6 if dim == 2 else 4) if (ctx.thorough or deep) else (4 if dim == 2 else 3)
        sizes = []
        for L in range(1, lmax + 1):
            for s in ((L,) * dim, (L + 1,) + (L,) * (dim - 1)):
                if K.supported(cls, s) and s not in sizes:
                    try:
                        if K.qubit_count(cls, s) <= (250 if (ctx.thorough or deep) else 70):
                            sizes.append(s)
                    except Exception:
                        sizes.append(s)
        if not sizes:
            sizes = [s for s in K.all_sizes(cls, 4, n_max=250)][:1]
        if not (ctx.thorough or deep) and len(sizes) > 2:
            sizes = [sizes[i] for i in sorted(rng.choice(len(sizes), 2, replace=False))]
        elif len(sizes) > 5:
            sizes = [sizes[i] for i in sorted(rng.choice(len(sizes), 5, replace=False))]
        for s in sizes:
            for dn in ['None'] + list(klass.deformation_names):
                for rot in (False, True):
                    reqs.append((name, cls, s, dn, rot))
    return reqs


def offmenu_requests(ctx):
    """sizes the menu cannot send (pairwise different sides) but the route accepts: they separate Lx / Ly / Lz in
    the per-class arithmetic of the descriptions (e.g. `y == 2*Ly-1` against `z == 2*Lz-1`)"""
    import itertools
    import panqec.gui._gui as G
    rng = ctx.np_rng(203)
    reqs = []
    for name, klass in G.codes.items():
        cls = klass.__name__
        if klass.dimension == 2:
            cand = [s for s in itertools.permutations(range(1, 7), 2) if K.supported(cls, s)]
        else:
            cand = [s for s in itertools.permutations(range(1, 6), 3) if K.supported(cls, s)]
            cand += [s for s in itertools.permutations((2, 4, 6), 3) if K.supported(cls, s)]
        lim = 260 if ctx.thorough else 130
        ok = []
        for s in cand:
            try:
                if K.qubit_count(cls, s) <= lim:
                    ok.append(s)
            except Exception:  # noqa
                pass
        k = 6 if ctx.thorough else 2
        pick = [ok[i] for i in sorted(rng.choice(len(ok), min(k, len(ok)), replace=False))] if ok else []
        for s in pick:
            for rot in (False, True):
                reqs.append((name, cls, s, 'None', rot))
    return reqs


def payload(name, size, dn, rot, **extra):
    p = {'Lx': size[0], 'Ly': size[1], 'code_name': name, 'code_deformation_name': dn, 'rotated_picture': rot}
    p['Lz'] = size[2] if len(size) > 2 else size[0]
    p.update(extra)
    return p


def esc(s):
    return s.replace(' ', '~')


def correspondence(ctx):
    import panqec.gui._gui as G
    g, c = client()
    def strip_object(op, out):
        # per-class overrides may replace the drawn object (e.g. boundary stabilizers); the table
        # lookup is compared on the colours, which no override touches
        return out.split(' ', 1)[1] if (op.startswith('gui.repr') and ' ' in out and not out.startswith('ERR')) else out
    s_menu, s_repr = Stream('menus'), Stream('descriptions-vs-table-lookup', post=strip_object)
    for dim in (2, 3):
        ans = guarded(lambda: '|'.join(post(c, '/code-names', {'dimension': dim})[0]))
        s_menu.add(f'gui.codenames {dim}', ans, {'route': '/code-names', 'dimension': dim}, tag='code-names')
    for name, klass in G.codes.items():
        ans = guarded(lambda: '|'.join(post(c, '/decoder-names', {'code_name': name})[0]))
        s_menu.add(f'gui.decoders {klass.__name__}', ans, {'route': '/decoder-names', 'code_name': name},
                   tag='decoder-names')
        ans = guarded(lambda: ('|'.join(post(c, '/deformation-names', {'code_name': name})[0]) or '-'))
        s_menu.add(f'gui.deformations {esc(name)}', ans, {'route': '/deformation-names', 'code_name': name},
                   tag='deformation-names')
    seen = set()
    for name, cls, size, dn, rot in menu_requests(ctx):
        data, status = post(c, '/code-data', payload(name, size, dn, rot))
        pic = 'rotated' if rot else 'kitaev'
        if data is None:
            # which lookup failed? ask the model for every type of the class
            code = K.build(cls, size)
            types = sorted({code.stabilizer_type(l) for l in code.stabilizer_coordinates})
            for t in types:
                if (cls, pic, t) in seen:
                    continue
                seen.add((cls, pic, t))
                s_repr.add(f'gui.repr {cls} stabilizers {pic} {t}', f'HTTP {status}',
                           {'code_name': name, 'size': size, 'deformation': dn, 'rotated': rot, 'type': t}, tag=cls)
            continue
        for st in data['stabilizers']:
            t = st.get('type')
            if (cls, pic, t) in seen:
                continue
            seen.add((cls, pic, t))
            col = st.get('color', {})
            ans = f"activated={col.get('activated')},deactivated={col.get('deactivated')}"
            s_repr.add(f'gui.repr {cls} stabilizers {pic} {t}', ans,
                       {'code_name': name, 'size': size, 'deformation': dn, 'rotated': rot, 'type': t}, tag=cls)
        if data['qubits'] and (cls, pic, '') not in seen:
            seen.add((cls, pic, ''))
            qb = data['qubits'][0]
            col = qb.get('color', {})
            ans = ','.join(f"{k}={col.get(k)}" for k in 'IXYZ')
            s_repr.add(f'gui.repr {cls} qubits {pic} -', ans,
                       {'code_name': name, 'size': size, 'rotated': rot, 'what': 'qubit description'}, tag=cls)
    return [s_menu.run(), s_repr.run()] + code_data_streams(ctx, c) + route_streams(ctx)


# ------------------------------------------------------------------ /code-data payload vs Model/GuiRepr.lean

def _float_tag(v, in_location):
    """canonical text of a float of the payload.  Floats the source computes with numpy / inexact float arithmetic are
    recognised by EXACT equality with the same Python operation and printed as the tagged constant the model carries
    (never approximated); every other float is a literal of gui-config.json / the source, printed as Python prints it."""
    import numpy as np
    if in_location:
        k = round(v / 1.4142)
        if k * 1.4142 == v:
            return f'{k}*1.4142'
        k = round(v - 0.9)
        if k + 0.9 == v:
            return f'{k}+0.9'
        k = round(v + 0.9)
        if k - 0.9 == v:
            return f'{k}-0.9'
    else:
        if v == np.pi / 4:
            return 'pi/4'
        if v == np.sqrt(2) / 2:
            return 'sqrt(2)/2'
        if v == -np.sqrt(2) / 2:
            return '-sqrt(2)/2'
    t = repr(float(v))
    if 'e' in t or 'n' in t:
        return 'FLOAT:' + t
    return t


def float_tag_collisions(kmax=200):
    """the three location forms never denote the same float for |k| <= kmax (so the tag printed for a float of a
    location is the one the model carries, whichever form the source used), and every form is recognised"""
    bad = []
    forms = {}
    for k in range(-kmax, kmax + 1):
        for tag, v in ((f'{k}*1.4142', k * 1.4142), (f'{k}+0.9', k + 0.9), (f'{k}-0.9', k - 0.9)):
            if _float_tag(v, True) != tag:
                bad.append((tag, _float_tag(v, True)))
            if v in forms and forms[v] != tag:
                bad.append((tag, forms[v]))
            forms[v] = tag
    return bad


def _jstr(s_):
    return '"' + s_.replace('\\', '\\\\').replace('"', '\\"') + '"'


def canon_json(o, in_location=False):
    """canonical text of a JSON value: no blanks, keys sorted, floats through _float_tag"""
    if o is None:
        return 'null'
    if isinstance(o, bool):
        return 'true' if o else 'false'
    if isinstance(o, int):
        return str(o)
    if isinstance(o, float):
        return _float_tag(o, in_location)
    if isinstance(o, str):
        return _jstr(o)
    if isinstance(o, list):
        return '[' + ','.join(canon_json(x, in_location) for x in o) + ']'
    if isinstance(o, dict):
        return '{' + ','.join(_jstr(k) + ':' + canon_json(o[k], in_location or k == 'location') for k in sorted(o)) + '}'
    return 'UNSUPPORTED:' + type(o).__name__


def stack_str(m):
    """Driver.showStack"""
    if not m:
        return '_'
    return '|'.join((''.join(str(int(x)) for x in row) if row else '-') for row in m)


def narrow(a, b):
    la, lb = a.split('\t'), b.split('\t')
    for i, (x, y) in enumerate(zip(la, lb)):
        if x != y:
            return f'[element {i} of {len(la)}] {x}', f'[element {i} of {len(lb)}] {y}'
    return f'[{len(la)} elements] ' + a[:300], f'[{len(lb)} elements] ' + b[:300]


def code_data_streams(ctx, c):
    """EVERY field of every qubit / stabilizer description of /code-data, in the order sent, and H / logical_x /
    logical_z, against the model's describeAll (Model/GuiRepr.lean + the hand-written lattice models), for every menu
    class x sizes x deformation x both pictures"""
    def err_post(op, out):
        return 'ERR' if out.startswith('ERR') else out
    coll = float_tag_collisions()
    if coll:   # would make the textual comparison ambiguous: report, never silently pass
        ctx.notes.append(f'float tag collisions: {coll[:5]}')
    s_desc = Stream('code-data-descriptions-vs-model', post=err_post)
    s_mat = Stream('code-data-H-logicals-order-vs-model', post=err_post)
    menu = menu_requests(ctx)
    for name, cls, size, dn, rot in menu + offmenu_requests(ctx):
        data, status = post(c, '/code-data', payload(name, size, dn, rot))
        pre = f"guidata {cls} {'x'.join(map(str, size))} {esc(dn)} {int(rot)}"
        inp = {'code_name': name, 'class': cls, 'size': list(size), 'deformation': dn, 'rotated': rot}
        tag = f"{cls}{'/rotated' if rot else '/kitaev'}" + ('' if (name, cls, size, dn, rot) in menu else '/off-menu-size')
        if data is None:
            s_desc.add(pre + ' qubits', 'ERR', dict(inp, what=f'HTTP {status}'), tag=tag)
            continue
        ans = guarded(lambda: f"{len(data['qubits'])} {len(data['stabilizers'])}")
        s_mat.add(pre + ' counts', ans, dict(inp, what='number of descriptions'), tag=tag)
        for part, key in (('H', 'H'), ('logx', 'logical_x'), ('logz', 'logical_z')):
            ans = guarded(lambda: stack_str(data[key]))
            s_mat.add(f'{pre} {part}', ans, dict(inp, what=key), tag=tag)
        for part, key in (('qubits', 'qubits'), ('stabs', 'stabilizers')):
            ans = guarded(lambda: '\t'.join(canon_json(d) for d in data[key]) or '_')
            s_desc.add(f'{pre} {part}', ans, dict(inp, what=key + ' descriptions (every field, index order)'), tag=tag)
    for s_ in (s_desc, s_mat):
        s_.run()
        narrow_mismatches(s_)
    return [s_desc, s_mat]


def narrow_mismatches(stream):
    if not stream.mismatches:
        return
    from harness.core import driver
    by_op = {op: a for op, a in zip(stream.ops, stream.impl)}
    for m in stream.mismatches:
        a = by_op.get(m['op'])
        if a is None or '\t' not in a:
            continue
        b = driver([m['op']])[0]
        m['implementation'], m['model'] = (t[:2000] for t in narrow(a, b))


# ------------------------------------------------------------------ /decode, /new-errors, /decoder-names vs Model/GuiRoutes.lean

def enc_field(k, v):
    """one request field as a driver token (Driver/OpsGuiRoutes.lean); None = not expressible"""
    if isinstance(v, bool):
        return f'{k}:b:{int(v)}'
    if isinstance(v, int):
        return f'{k}:i:{v}'
    if isinstance(v, float):
        t = repr(v)
        if 'e' in t or 'n' in t or '.' not in t:
            return None
        ip, fp = t.split('.')
        m = int(ip.lstrip('-') + fp) * (-1 if t.startswith('-') else 1)
        return f'{k}:d:{m}/{len(fp)}'
    if v is None:
        return f'{k}:n:'
    if isinstance(v, str):
        return None if ('~' in v or ':' in v) else f'{k}:s:{esc(v)}'
    if isinstance(v, list) and all(isinstance(x, int) and not isinstance(x, bool) for x in v):
        return f'{k}:l:' + ','.join(map(str, v))
    return None


def enc_req(req):
    toks = [enc_field(k, v) for k, v in req.items()]
    return None if any(t is None for t in toks) else ' '.join(toks)


def frac_str(v):
    from fractions import Fraction
    f = Fraction(v).limit_denominator(1000)
    return str(f) if float(f) == float(v) else 'FLOAT:' + repr(v)


class RouteSpies:
    """spies on everything the routes construct: the code classes of the menu (positional arguments, deform), the
    PauliErrorModel constructor (and, optionally, a planted `generate`), the decoder constructors and `decode`
    (planted correction).  The log is the sequence of library calls of one request."""

    def __init__(self):
        self.log = []
        self.correction = None      # planted answer of decode
        self.errors = None          # planted answer of generate (None: the real generate runs)

    def code_class(self, klass):
        spies = self

        def __init__(self_, *a, **k):
            if not getattr(self_, '_spy_in_deform', False):
                spies.log.append(('code', klass.__name__, list(a), dict(k)))
            klass.__init__(self_, *a, **k)

        def deform(self_, *a, **k):
            spies.log.append(('deform', list(a), dict(k)))
            self_._spy_in_deform = True
            try:
                return klass.deform(self_, *a, **k)
            finally:
                self_._spy_in_deform = False
        return type(klass.__name__, (klass,), {'__init__': __init__, 'deform': deform})

    def error_model_class(self, klass):
        spies = self

        def __init__(self_, *a, **k):
            spies.log.append(('em', list(a), dict(k)))
            klass.__init__(self_, *a, **k)

        def generate(self_, code, p, *a, **k):
            spies.log.append(('generate', type(code).__name__, p))
            if spies.errors is not None:
                return np.array(spies.errors)
            return klass.generate(self_, code, p, *a, **k)
        return type(klass.__name__, (klass,), {'__init__': __init__, 'generate': generate})

    def decoder_class(self, klass):
        spies = self

        class Spy:
            allowed_codes = klass.allowed_codes

            def __init__(self_, code, error_model, p, **kwargs):
                spies.log.append(('dec', klass.__name__, code, error_model, p, dict(kwargs)))

            def decode(self_, syndrome):
                spies.log.append(('decode', syndrome.tolist() if hasattr(syndrome, 'tolist') else syndrome))
                return np.array(spies.correction, dtype=int)
        Spy.__name__ = klass.__name__
        return Spy


def spied_client():
    """a GUI whose menus hold spy classes; exceptions propagate to the caller (so that their kind can be compared)"""
    import panqec.gui._gui as G
    sp = RouteSpies()
    patches = [mock.patch.dict(G.codes, {n: sp.code_class(k) for n, k in G.codes.items()}),
               mock.patch.dict(G.decoders, {n: sp.decoder_class(k) for n, k in G.decoders.items()}),
               mock.patch.object(G, 'PauliErrorModel', sp.error_model_class(G.PauliErrorModel))]
    for p_ in patches:
        p_.start()
    g = G.GUI()
    g.app.logger.disabled = True
    g.app.config['PROPAGATE_EXCEPTIONS'] = True
    return sp, g.app.test_client(), patches


def post_kind(c, url, req):
    """(json, None) or (None, 'ERR <exception class>')"""
    try:
        r = c.post(url, json=req)
    except Exception as e:  # noqa
        return None, 'ERR ' + type(e).__name__
    if r.status_code != 200:
        return None, f'ERR HTTP{r.status_code}'
    return json.loads(r.data), None


def describe_decode_log(log):
    """the constructor calls of one /decode request in the text of `guiroute decodesel`"""
    kinds = [e[0] for e in log]
    want = ['code'] + (['deform'] if 'deform' in kinds else []) + ['em', 'dec', 'decode']
    if kinds != want:
        return 'UNEXPECTED CALL SEQUENCE ' + ' '.join(kinds)
    code = next(e for e in log if e[0] == 'code')
    deform = next((e for e in log if e[0] == 'deform'), None)
    em = next(e for e in log if e[0] == 'em')
    dec = next(e for e in log if e[0] == 'dec')
    syn = next(e for e in log if e[0] == 'decode')
    if code[3] or em[2] or (deform is not None and (deform[2] or len(deform[1]) != 1)) or len(em[1]) != 4:
        return f'UNEXPECTED ARGUMENT FORM code={code} deform={deform} em={em}'
    obj, emobj = dec[2], dec[3]
    if type(obj).__name__ != code[1] or list(emobj.direction) != list(em[1][:3]):
        return 'DECODER GOT ANOTHER CODE / ERROR MODEL OBJECT'
    return (f"cls={dec[1]} code={code[1]}({','.join(canon_json(a) for a in code[2])}) "
            f"deform={'-' if deform is None else canon_json(deform[1][0])} "
            f"dir={','.join(frac_str(x) for x in em[1][:3])} nd={canon_json(em[1][3])} p={canon_json(dec[4])} "
            f"kw={';'.join(k + '=' + canon_json(v) for k, v in dec[5].items()) or '-'} syn={canon_json(syn[1])}")


def small_size(cls):
    import panqec.codes as C
    dim = getattr(C, cls).dimension
    for L in range(2, 5):
        for s_ in ((L,) * dim, (L + 1,) + (L,) * (dim - 1)):
            if K.supported(cls, s_):
                return s_
    return K.all_sizes(cls, 4, n_max=250)[0]


def route_streams(ctx):
    import panqec.gui._gui as G
    rng = ctx.np_rng(204)
    menu_codes = list(G.codes.items())
    dec_names = list(G.decoders)
    em_names = list(G.noise_directions)
    s_sel = Stream('route-decode-constructor-calls-vs-model')
    s_ans = Stream('route-decode-answer-split-vs-model')
    s_bad = Stream('route-malformed-requests-error-kind-vs-model')
    s_spec = Stream('route-new-errors-planted-sample-vs-model')
    sp, c, patches = spied_client()
    try:
        i = 0
        for name, klass in menu_codes:
            cls = klass.__name__
            size = small_size(cls)
            n = K.qubit_count(cls, size)
            dnames = ['None'] + list(klass.deformation_names)
            for dn in dnames:
                for ndn in dict.fromkeys(['None', dn, (list(klass.deformation_names) + ['None'])[0]]):
                    picks = [dec_names[(i + j) % len(dec_names)] for j in range(len(dec_names) if ctx.thorough else 3)]
                    for dec in dict.fromkeys(picks + (['BP-OSD', 'MBP'] if dn == 'None' and ndn == 'None' else [])):
                        i += 1
                        em_name = em_names[i % len(em_names)]
                        req = payload(name, size, dn, False)
                        del req['rotated_picture']
                        if klass.dimension == 2 and i % 3 == 0:
                            del req['Lz']                    # a 2-D code is served without it
                        elif klass.dimension == 2 and i % 3 == 1:
                            req['Lz'] = 'not-a-number'        # and whatever it holds
                        req.update(p=[0.25, 0.5, 0.125, 0.1, 0][i % 5], max_bp_iter=int(rng.integers(1, 1000)),
                                   alpha=[0.4, 1.25, 2][i % 3], beta=[0, 0.01, 0.5][i % 3],
                                   channel_update=[True, False, 1, 0, '', 'yes', None, 0.0, [0], []][i % 10],
                                   syndrome=[int(x) for x in rng.integers(0, 2, 6)],
                                   noise_deformation_name=ndn, decoder=dec, error_model=em_name)
                        if i % 11 == 10:
                            del req['channel_update']        # an older front end: the box defaults to False
                        length = [2 * n, 2 * n, 2 * n, 2 * n + 1, max(n - 1, 0), 0][i % 6]
                        sp.correction = [int(x) for x in rng.integers(0, 2, length)]
                        sp.log.clear()
                        got, err = post_kind(c, '/decode', req)
                        inp = {'route': '/decode', 'request': req, 'planted_correction_length': length, 'n': n}
                        tag = f'{cls}/{dec}'
                        enc = enc_req(req)
                        s_sel.add(f'guiroute decodesel {enc}', err or guarded(lambda: describe_decode_log(sp.log)), inp, tag=tag)
                        s_ans.add(f"guiroute decode {n} {','.join(map(str, sp.correction)) or '-'} {enc}",
                                  err or canon_json(got), inp, nontrivial=length > 0, tag=tag)
        # --- planted samples: the answer is the whole vector; the discarded error_spec comprehension can raise
        for name, klass in menu_codes[:: (1 if ctx.thorough else 3)]:
            cls = klass.__name__
            size = small_size(cls)
            n = K.qubit_count(cls, size)
            for kind in ('binary', 'two', 'short', 'long', 'empty'):
                v = [int(x) for x in rng.integers(0, 2, 2 * n)]
                if kind == 'two':
                    v[int(rng.integers(0, 2 * n))] = 2
                elif kind == 'short':
                    v = v[: int(rng.integers(n, 2 * n))]
                elif kind == 'long':
                    v = v + [0, 1, 1]
                elif kind == 'empty':
                    v = []
                sp.errors = v
                req = payload(name, size, 'None', False, p=0.25, noise_deformation_name='None', error_model='Pure Y')
                del req['rotated_picture']
                sp.log.clear()
                got, err = post_kind(c, '/new-errors', req)
                s_spec.add(f"guiroute newerrors-planted {n} {','.join(map(str, v)) or '-'} {enc_req(req)}",
                           err or canon_json(got), {'route': '/new-errors', 'request': req, 'planted_sample': kind, 'n': n},
                           tag=f'{kind}')
            sp.errors = None
        # --- malformed requests: which exception, decided by the order in which the route reads and looks up
        base = payload('Toric 3D', (2, 2, 2), 'None', False, p=0.25, max_bp_iter=5, alpha=0.4, beta=0, syndrome=[0, 1],
                       noise_deformation_name='None', decoder='BP-OSD', error_model='Pure X')
        del base['rotated_picture']
        base2 = dict(base, code_name='Planar 2D')
        sp.correction = [0] * 8
        variants = []
        for b_, lab in ((base, '3d'), (base2, '2d')):
            for k in b_:
                variants.append(({x: y for x, y in b_.items() if x != k}, f'{lab}-without-{k}'))
            variants += [(dict(b_, code_name='No Such Code'), f'{lab}-unknown-code'), (dict(b_, code_name=[1]), f'{lab}-code-name-list'),
                         (dict(b_, code_name=3), f'{lab}-code-name-int'), (dict(b_, error_model='Biased'), f'{lab}-unknown-error-model'),
                         (dict(b_, error_model=[1]), f'{lab}-error-model-list'), (dict(b_, error_model=None), f'{lab}-error-model-null'),
                         (dict(b_, decoder='Magic'), f'{lab}-unknown-decoder'), (dict(b_, decoder=[2]), f'{lab}-decoder-list'),
                         (dict(b_, decoder='Magic', error_model=[1]), f'{lab}-error-model-list-and-unknown-decoder'),
                         (dict(b_, code_name='Nope', error_model='Biased'), f'{lab}-unknown-code-and-error-model'),
                         ({x: y for x, y in dict(b_, code_name='Nope').items() if x != 'p'}, f'{lab}-unknown-code-without-p'),
                         (dict(b_, Toric2DCode=1, extra='ignored'), f'{lab}-extra-fields'),
                         (dict(b_, channel_update=True), f'{lab}-box-ticked'), (dict(b_, channel_update='x', decoder='MBP'), f'{lab}-box-mbp')]
        n_of = {'Toric 3D': K.qubit_count('Toric3DCode', (2, 2, 2)), 'Planar 2D': K.qubit_count('Planar2DCode', (2, 2))}
        for req, lab in variants:
            enc = enc_req(req)
            n_real = n_of.get(req.get('code_name') if isinstance(req.get('code_name'), str) else None, 4)
            plant = [int(x) for x in rng.integers(0, 2, 2 * n_real)]
            for url, op in (('/decode', 'decode'), ('/new-errors', 'newerrors-planted')):
                sp.correction, sp.errors = plant, plant
                got, err = post_kind(c, url, req)
                s_bad.add(f"guiroute {op} {n_real} {','.join(map(str, plant))} {enc}", err or canon_json(got),
                          {'route': url, 'request': req, 'what': lab},
                          nontrivial=err is not None, tag=f'{url}:{lab.split("-", 1)[1]}')
            sp.errors = None
        for req, lab in [({'code_name': 'Toric 2D'}, 'known'), ({'code_name': 'Nope'}, 'unknown'), ({}, 'missing'),
                         ({'code_name': [2]}, 'list'), ({'code_name': None}, 'null'), ({'code_name': 'XCube', 'x': 1}, 'extra')]:
            got, err = post_kind(c, '/decoder-names', req)
            s_bad.add(f'guiroute decodernames {enc_req(req)}'.rstrip(), err or ('|'.join(got) or '-'),
                      {'route': '/decoder-names', 'request': req}, tag='/decoder-names:' + lab)
        for dim in (2, 3, '2', '3', 2.0, True, None, 4, '2d', [2]):
            req = {'dimension': dim}
            got, err = post_kind(c, '/code-names', req)
            s_bad.add(f'guiroute codenames {enc_req(req)}', err or ('|'.join(got) or '-'),
                      {'route': '/code-names', 'request': req}, tag='/code-names')
        got, err = post_kind(c, '/code-names', {})
        s_bad.add('guiroute codenames', err or '|'.join(got), {'route': '/code-names', 'request': {}}, tag='/code-names')
    finally:
        for p_ in patches:
            p_.stop()
    return [s_.run() for s_ in (s_sel, s_ans, s_spec, s_bad)] + [new_errors_stream(ctx)]


class StubRng:
    """what `np.random.default_rng()` returns while /new-errors runs: `random()` yields the planted variates"""

    def __init__(self, us):
        self.us = list(us)

    def random(self):
        return self.us.pop(0)


def new_errors_stream(ctx):
    """/new-errors end to end (real codes, real PauliErrorModel) against the route model on top of the lattice models
    and the noise model: the variates `rng.random()` returns are planted dyadics k/64, the rates are dyadic"""
    import panqec.gui._gui as G
    from fractions import Fraction
    rng = ctx.np_rng(205)

    def err_post(op, out):
        return 'ERR' if out.startswith('ERR') else out
    s_ = Stream('route-new-errors-sample-vs-lattice-and-noise-models', post=err_post)
    g, c = client()
    em_names = list(G.noise_directions)
    i = 0
    for name, klass in G.codes.items():
        cls = klass.__name__
        size = small_size(cls)
        n = K.qubit_count(cls, size)
        if n > (400 if ctx.thorough else 130):
            continue
        dnames = ['None'] + list(klass.deformation_names)
        for dn in dnames:
            for ndn in dict.fromkeys(dnames + ['XZZX']):
                for em_name in (em_names if (ctx.thorough or ndn != 'None') else em_names[:2]):
                    i += 1
                    p = [0.25, 0.5, 0.125, 0.75, 0, 1][i % 6]
                    ks = [int(x) for x in rng.integers(0, 64, n)]
                    req = payload(name, size, dn, False, p=p, noise_deformation_name=ndn, error_model=em_name)
                    del req['rotated_picture']
                    with mock.patch('numpy.random.default_rng', side_effect=lambda *a, **k: StubRng(k_ / 64 for k_ in ks)):
                        got, status = post(c, '/new-errors', req)
                    us = ','.join(str(Fraction(k_, 64)) for k_ in ks)
                    s_.add(f'guiroute newerrors {us} {enc_req(req)}', 'ERR' if got is None else canon_json(got),
                           {'route': '/new-errors', 'request': req, 'variates_times_64': ks},
                           nontrivial=got is not None and any(got), tag=f"{cls}/{'deformed-noise' if ndn != 'None' else 'plain'}")
    return s_.run()


# ------------------------------------------------------------------ oracle

def jsonable(o):
    return json.loads(json.dumps(o, default=lambda x: x.tolist() if hasattr(x, 'tolist') else list(x)))


_GUI_CONFIG = None


def _gui_config():
    global _GUI_CONFIG
    if _GUI_CONFIG is None:
        import panqec
        with open(os.path.join(os.path.dirname(panqec.__file__), 'codes', 'gui-config.json')) as f:
            _GUI_CONFIG = json.load(f)
    return _GUI_CONFIG


def check_request(c_app, req):
    name, cls, size, dn, rot = req['code_name'], req['class'], tuple(req['size']), req['deformation'], req['rotated']
    try:
        data, status = post(c_app, '/code-data', payload(name, size, dn, rot))
        if data is None:
            return f'/code-data returned HTTP {status}'
        code = K.build(cls, size, None if dn == 'None' else (dn, {}))
        if data['H'] != K.dense(code.stabilizer_matrix) if code.n_stabilizers else data['H'] not in ([], [[]]):
            return 'H differs from the library stabilizer_matrix'
        if data['logical_x'] != K.dense(code.logicals_x) or data['logical_z'] != K.dense(code.logicals_z):
            return 'logical operators differ from the library'
        if len(data['qubits']) != code.n or len(data['stabilizers']) != code.n_stabilizers:
            return 'number of qubit/stabilizer descriptions differs from n / number of stabilizers'
        for i, loc in enumerate(code.qubit_coordinates):
            want = jsonable(code.qubit_representation(loc, rot))
            got = data['qubits'][i]
            if got != want:
                return f'qubit description {i} differs from qubit_representation({loc})'
            for k in ('object', 'color', 'opacity', 'params', 'location'):
                if k not in got:
                    return f'qubit description {i} lacks {k}'
        # independent of the class's own *_representation overrides: colours and opacities of the
        # REQUESTED picture as listed in gui-config.json (no class replaces them; they only replace
        # object/params/location details)
        conf = _gui_config().get(code.id, {})
        pic = 'rotated' if rot else 'kitaev'
        qconf = conf.get('qubits', {}).get(pic)
        if qconf is not None:
            wantc = {k: code.colormap[v] for k, v in qconf['color'].items()}
            for i, got in enumerate(data['qubits']):
                if got.get('color') != wantc or got.get('opacity') != qconf['opacity']:
                    return (f'qubit description {i}: colour/opacity is not the gui-config entry of the '
                            f'requested picture ({pic})')
        for i, loc in enumerate(code.stabilizer_coordinates):
            want = jsonable(code.stabilizer_representation(loc, rot))
            got = data['stabilizers'][i]
            sconf = conf.get('stabilizers', {}).get(pic, {}).get(code.stabilizer_type(loc))
            if sconf is not None:
                wantc = {k: code.colormap[v] for k, v in sconf['color'].items()}
                if got.get('color') != wantc or got.get('opacity') != sconf['opacity']:
                    return (f'stabilizer description {i} ({code.stabilizer_type(loc)} at {loc}): colour/opacity is '
                            f'not the gui-config entry of the requested picture ({pic})')
            if got != want:
                return f'stabilizer description {i} differs from stabilizer_representation({loc})'
            for k in ('object', 'color', 'opacity', 'params', 'location', 'type'):
                if k not in got:
                    return f'stabilizer description {i} lacks {k}'
    except Exception as e:  # noqa
        return f'raised {type(e).__name__}: {e}'
    return None


def check_decoders(c_app):
    import panqec.gui._gui as G
    out = []
    for name, klass in G.codes.items():
        got, status = post(c_app, '/decoder-names', {'code_name': name})
        want = [dn for dn, d in G.decoders.items() if d.allowed_codes is None or klass.__name__ in d.allowed_codes]
        if got != want:
            out.append({'input': {'kind': 'decoder-names', 'code_name': name}, 'observed': f'offered {got}, declaring support {want}',
                        'match': {'kind': 'decoder-names', 'code_name': name}})
    return out


RATES = [0.1, 0, 0.5, 0.25, 0.0, 0.01]


def check_decode_and_errors(ctx, c_app, deep):
    """/decode and /new-errors vs the library decoder / noise model"""
    import panqec.gui._gui as G
    from panqec.error_models import PauliErrorModel
    fails, n = [], 0
    rng = ctx.np_rng(202)
    combos = [('Toric 2D', (3, 3), 'Matching'), ('Toric 2D', (2, 3), 'BP-OSD'), ('Planar 2D', (3, 3), 'Matching'),
              ('Toric 2D', (3, 3), 'Union-Find'), ('Rotated Planar 2D', (3, 3), 'Matching'),
              ('Toric 3D', (3, 3, 3), 'SweepMatch'), ('XCube', (2, 2, 2), 'BP-OSD')]
    if deep:
        combos += [('Planar 3D', (2, 2, 2), 'BP-OSD'), ('Rotated Planar 3D', (3, 3, 3), 'RotatedSweepMatch'),
                   ('4.8.8 Color Code', (2, 2), 'BP-OSD'), ('XCube', (2, 2, 2), 'XCube Matching')]
    for name, size, dec in combos:
        klass = G.codes[name]
        dnames = list(klass.deformation_names)[:1]
        # code deformation and noise deformation are independent menu entries
        pairs = [('None', 'None')] + [(d, d) for d in dnames] + [(d, 'None') for d in dnames] + [('None', d) for d in dnames]
        for em_name in (['Depolarizing', 'Pure Z', 'Pure X'] if deep else ['Depolarizing', 'Pure Z']):
            for dn, ndn in pairs:
                n += 1
                # the whole range of the menu's Probability slider, its two ends included (0: the noise model
                # returns the identity with certainty; 0.5)
                p = RATES[(n - 1) % len(RATES)]
                try:
                    code = K.build(klass.__name__, size, None if dn == 'None' else (dn, {}))
                    rx, ry, rz = G.noise_directions[em_name]
                    em = PauliErrorModel(rx, ry, rz, None if ndn == 'None' else ndn)
                    e = em.generate(code, max(p, 0.05), rng=rng)
                    syn = code.measure_syndrome(e)
                    pl = payload(name, size, dn, False, syndrome=[int(x) for x in syn], p=p,
                                 noise_deformation_name=ndn, max_bp_iter=10, alpha=0.4, beta=0,
                                 decoder=dec, error_model=em_name)
                    kwargs = {}
                    if dec in ('BP-OSD', 'MBP'):
                        kwargs['max_bp_iter'] = 10
                    if dec == 'BP-OSD':
                        kwargs['osd_order'] = 0
                    with mock.patch('numpy.random.default_rng', side_effect=lambda *a, **k: np.random.Generator(np.random.PCG64(7))):
                        got, status = post(c_app, '/decode', pl)
                        try:
                            want = G.decoders[dec](code, em, p, **kwargs).decode(np.array(syn))
                        except Exception:  # the library itself rejects this combination
                            want = None
                    if want is None:
                        msg = None if got is None else '/decode answered although the library decoder raises'
                    elif got is None:
                        msg = f'/decode returned HTTP {status}'
                    elif got['x'] != [int(x) for x in want[:code.n]] or got['z'] != [int(x) for x in want[code.n:]]:
                        msg = '/decode differs from the library decoder'
                    else:
                        msg = None
                    if msg is None:
                        with mock.patch('numpy.random.default_rng', side_effect=lambda *a, **k: np.random.Generator(np.random.PCG64(11))):
                            got, status = post(c_app, '/new-errors', {k: pl[k] for k in pl if k not in ('syndrome', 'decoder')})
                            want = em.generate(code, p)
                        if got is None:
                            msg = f'/new-errors returned HTTP {status}'
                        elif got != [int(x) for x in want]:
                            msg = '/new-errors differs from error_model.generate'
                except Exception as ex:  # noqa
                    msg = f'raised {type(ex).__name__}: {ex}'
                if msg:
                    fails.append({'input': {'kind': 'decode', 'code_name': name, 'size': list(size), 'decoder': dec,
                                            'error_model': em_name, 'deformation': dn, 'noise_deformation': ndn, 'p': p},
                                  'observed': msg, 'match': {'kind': 'decode', 'code_name': name, 'decoder': dec}})
    return fails, n


def check_channel_update(ctx, c_app, deep):
    """the "Channel update (BP)" box of the menu: /decode with the box ticked / unticked must return what the library
    BP-OSD decoder returns with channel_update=True / False (defect repaired by fix a7fdabc: the box was ignored)"""
    import panqec.gui._gui as G
    from panqec.error_models import PauliErrorModel
    from panqec.decoders import BeliefPropagationOSDDecoder
    fails, n, sensitive = [], 0, 0
    rng = ctx.np_rng(206)
    for name, size, em_name in ([('Toric 2D', (4, 4), 'Depolarizing'), ('Planar 2D', (4, 4), 'Depolarizing')] +
                                ([('Toric 2D', (6, 6), 'Depolarizing'), ('Toric 3D', (3, 3, 3), 'Pure Z')] if deep else [])):
        klass = G.codes[name]
        code = K.build(klass.__name__, size)
        em = PauliErrorModel(*G.noise_directions[em_name])
        for t in range(12 if deep else 6):
            e = em.generate(code, 0.1, rng=rng)
            syn = [int(x) for x in code.measure_syndrome(e)]
            want = {}
            for cu in (False, True):
                want[cu] = [int(x) for x in BeliefPropagationOSDDecoder(code, em, 0.1, max_bp_iter=20, osd_order=0,
                                                                         channel_update=cu).decode(np.array(syn))]
            sensitive += want[False] != want[True]
            for cu in (False, True):
                n += 1
                pl = payload(name, size, 'None', False, syndrome=syn, p=0.1, noise_deformation_name='None', max_bp_iter=20,
                             alpha=0.4, beta=0, channel_update=cu, decoder='BP-OSD', error_model=em_name)
                try:
                    got, status = post(c_app, '/decode', pl)
                    if got is None:
                        msg = f'/decode returned HTTP {status}'
                    elif got['x'] + got['z'] != want[cu]:
                        msg = (f'/decode with the "Channel update (BP)" box {"ticked" if cu else "unticked"} differs from the '
                               f'library BP-OSD decoder with channel_update={cu}' +
                               (' (it equals the answer for the other value of the box)' if got['x'] + got['z'] == want[not cu] else ''))
                    else:
                        msg = None
                except Exception as ex:  # noqa
                    msg = f'raised {type(ex).__name__}: {ex}'
                if msg:
                    fails.append({'input': {'kind': 'decode-option', 'option': 'channel_update', 'code_name': name,
                                            'size': list(size), 'error_model': em_name, 'syndrome': syn, 'channel_update': cu},
                                  'observed': msg, 'match': {'kind': 'decode-option', 'option': 'channel_update'}})
    return fails[:1], n, sensitive


def oracle(ctx, deep=False, broken=None):
    g, c = client()
    reqs = [{'code_name': n, 'class': cl, 'size': list(s), 'deformation': dn, 'rotated': rot}
            for n, cl, s, dn, rot in menu_requests(ctx, deep)]
    fails = first_failures(reqs, lambda r: check_request(c, r),
                           key=lambda r: {'kind': 'code-data', 'class': r['class'], 'rotated': r['rotated']})
    if deep:
        # the top of the size menu (L = 12, and 13 x 12 with the coprime box) for the 2-D surface codes: every
        # offered size must be served, not only the small ones
        import panqec.gui._gui as G
        top = []
        for n_, klass in G.codes.items():
            if klass.__name__ in ('Toric2DCode', 'Planar2DCode', 'RotatedPlanar2DCode'):
                for s_ in ((12, 12), (13, 12)):
                    if K.supported(klass.__name__, s_):
                        top.append({'code_name': n_, 'class': klass.__name__, 'size': list(s_), 'deformation': 'None',
                                    'rotated': False})
        fails += first_failures(top, lambda r: check_request(c, r),
                                key=lambda r: {'kind': 'code-data', 'class': r['class'], 'rotated': r['rotated']})
        reqs = reqs + top
    fails += check_decoders(c)
    f2, n2 = check_decode_and_errors(ctx, c, deep)
    fails += f2
    f3, n3, sensitive = check_channel_update(ctx, c, deep)
    fails += f3
    return fails, {'evaluations': len(reqs) + n2 + n3 + 16, 'channel_update_sensitive_syndromes': sensitive}


def replay(ctx, payload_):
    g, c = client()
    inp = payload_['input']
    if inp.get('kind') == 'decoder-names':
        return bool(check_decoders(c))
    if inp.get('kind') == 'decode':
        return bool(check_decode_and_errors(ctx, c, True)[0])
    if inp.get('kind') == 'decode-option':
        return bool(check_channel_update(ctx, c, True)[0])
    return check_request(c, inp) is not None
