"""C04 - decoding success is declared iff the residual error is a stabilizer."""
from __future__ import annotations

import itertools

import numpy as np

from harness import codes as K
from harness.core import Stream
from harness.util import vec, stack, guarded, first_failures

ID = 'C04'
LEVEL = 'proof'
LEVEL_TEXT = ('Lean theorem for every valid [[n,k]] code (the C01 clauses as hypothesis ValidCodeL) and every binary '
              'error e: is_success(e) = true iff e is a GF(2) combination of the generator rows; in_codespace iff e '
              'commutes with all generators (any matrix); the 2k-bit logical effect is linear, constant on stabilizer '
              'cosets, and its first k bits are the products with logical Z_i (X-type action), the last k with '
              'logical X_i. Proved by a dimension argument over ZMod 2 (Mathlib) bridged to the executable list model; '
              'the model is tied to _stabilizer_code.py / bpauli.get_effective_error by differential runs '
              '(full 4^n enumeration on small codes).')
LEVEL_NOTE = ('trusted: Lean kernel + standard axioms; Mathlib linear algebra; correspondence harness; validity of the '
              'library codes is the premise supplied by C01; numpy dot/concatenate semantics of get_effective_error')
TECHNIQUE = 'Lean 4 proof (rank-nullity over ZMod 2 via Mathlib, bridged to list model) + differential correspondence'
TRUSTED = ['premise ValidCodeL for library codes comes from C01 (kernel-checked instances / all-size theorems)']
ASSUMPTIONS = ['errors are binary vectors of length 2n']


def small_codes(ctx):
    """(cls, size, deform) with n <= bound for exhaustive 4^n enumeration"""
    bound = 8 if ctx.thorough else 6
    out = []
    for cls in K.CLASSES:
        sizes = K.all_sizes(cls, 3 if K.dimension(cls) == 2 else 2, n_max=bound)
        for size in sizes:
            for deform in K.deformations(cls):
                out.append((cls, size, deform))
    return out


def larger_codes(ctx):
    rng = ctx.np_rng(41)
    out = []
    for cls in K.CLASSES:
        if cls in ('RhombicToricCode', 'Color3DCode'):
            sizes = K.all_sizes(cls, 2)
        elif cls == 'HollowRhombicCode':
            sizes = K.all_sizes(cls, 3)
        else:
            sizes = K.all_sizes(cls, 4 if K.dimension(cls) == 2 else 3, n_max=130)
        sizes = [s for s in sizes if K.qubit_count(cls, s) > 6]
        if not sizes:
            continue
        pick = [sizes[i] for i in sorted(rng.choice(len(sizes), min(len(sizes), 3 if ctx.thorough else 2),
                                                    replace=False))]
        for size in pick:
            defs = K.deformations(cls)
            d = defs[int(rng.integers(0, len(defs)))]
            out.append((cls, size, d))
    return out


def judge_answer(code, e):
    def f():
        cs = code.in_codespace(e)
        le = code.logical_errors(e)
        il = code.is_logical_error(e)
        su = code.is_success(e)
        return f"{int(bool(cs))} {vec(le)} {int(bool(il))} {int(bool(su))}"
    return guarded(f)


def add_code(s: Stream, code, label, errors, dtype, tag):
    H = K.dense(code.stabilizer_matrix) if code.n_stabilizers else []
    LX, LZ = K.dense(code.logicals_x), K.dense(code.logicals_z)
    s.add(f'set H {stack(H)}', 'ok', nontrivial=False)
    s.add(f'set LX {stack(LX)}', 'ok', nontrivial=False)
    s.add(f'set LZ {stack(LZ)}', 'ok', nontrivial=False)
    dt = 'u8' if dtype == 'uint8' else 'wide'
    for e in errors:
        ea = np.array(e, dtype=dtype)
        s.add(f'judge {dt} $H $LX $LZ {vec(e)}', judge_answer(code, ea),
              {'code': label, 'error': vec(e), 'dtype': dtype}, nontrivial=any(e), tag=tag)
    # stacked get_effective_error: rows must equal the single-error answers
    if len(errors) >= 2:
        from panqec.bpauli import get_effective_error
        E = np.array(errors[:50], dtype=dtype)
        eff = guarded(lambda: stack([[int(x) for x in r] for r in get_effective_error(
            E, code.logicals_x, code.logicals_z).reshape(len(E), -1)]))
        single = stack([[int(x) for x in code.logical_errors(np.array(e, dtype=dtype))] for e in errors[:50]])
        # compared on the implementation side against the single-error path, whose rows the model checks above
        s.add('b2i 1', '1' if eff == single else f'stack-mismatch {eff[:80]} vs {single[:80]}',
              {'code': label, 'what': 'get_effective_error on a stack vs row by row'}, nontrivial=False, tag='stacked')
        # ... and against the model: the 2-D path of get_effective_error / code.logical_errors row by row
        s.add(f'effstack {dt} $LX $LZ {stack([list(e) for e in errors[:50]])}', eff,
              {'code': label, 'what': 'get_effective_error on a stack vs the model'}, tag='stacked-model')
        eff2 = guarded(lambda: stack([[int(x) for x in r] for r in np.asarray(code.logical_errors(E)).reshape(len(E), -1)]))
        s.add(f'effstack {dt} $LX $LZ {stack([list(e) for e in errors[:50]])}', eff2,
              {'code': label, 'what': 'code.logical_errors on a stack vs the model'}, tag='stacked-model')


def structured_errors(code, rng, n_rand):
    """basis vectors, products of stabilizers, logicals, logical x stabilizer, random"""
    n = code.n
    H = np.array(K.dense(code.stabilizer_matrix), dtype=int) if code.n_stabilizers else np.zeros((0, 2 * n), int)
    LX, LZ = np.array(K.dense(code.logicals_x), dtype=int), np.array(K.dense(code.logicals_z), dtype=int)
    errs = []
    for i in rng.choice(2 * n, min(2 * n, 10), replace=False):
        b = [0] * (2 * n)
        b[int(i)] = 1
        errs.append(b)
    for _ in range(n_rand):
        if H.shape[0]:
            sel = rng.integers(0, 2, H.shape[0])
            errs.append([int(x) for x in (sel @ H) % 2])
            l = (LX[int(rng.integers(0, len(LX)))] if rng.random() < 0.5 else LZ[int(rng.integers(0, len(LZ)))])
            errs.append([int(x) for x in ((sel @ H) + l) % 2])
        errs.append([int(x) for x in rng.integers(0, 2, 2 * n)])
        p = rng.random() * 0.2
        errs.append([int(x) for x in (rng.random(2 * n) < p)])
    for l in list(LX) + list(LZ):
        errs.append([int(x) for x in l])
    errs.append([0] * (2 * n))
    return errs


def correspondence(ctx):
    rng = ctx.np_rng(42)
    s1 = Stream('exhaustive-small-codes')
    for cls, size, deform in small_codes(ctx):
        code = K.build(cls, size, deform)
        n = code.n
        errors = [list(v) for v in itertools.product([0, 1], repeat=2 * n)]
        cap = (4096 if n <= 6 else 1500) if ctx.thorough else (1024 if n <= 4 else 300)
        if len(errors) > cap:
            idx = rng.choice(len(errors), cap, replace=False)
            errors = [errors[i] for i in idx]
        add_code(s1, code, f'{cls}{size}/{K.deform_tag(deform)}', errors, 'uint8', f'n={n}')
    s2 = Stream('structured-larger-codes')
    for cls, size, deform in larger_codes(ctx):
        code = K.build(cls, size, deform)
        errors = structured_errors(code, rng, 12 if ctx.thorough else 5)
        dtype = ['uint8', 'int64'][int(rng.integers(0, 2))]
        add_code(s2, code, f'{cls}{size}/{K.deform_tag(deform)}', errors, dtype, cls)
    return [s1.run(), s2.run()]


# ------------------------------------------------------------------ oracle

def gf2_in_span(rows, v):
    """is v in the GF(2) row space of rows? (rows, v: python ints)"""
    piv = {}
    for r in rows:
        while r:
            hb = r.bit_length() - 1
            if hb in piv:
                r ^= piv[hb]
            else:
                piv[hb] = r
                break
    while v:
        hb = v.bit_length() - 1
        if hb in piv:
            v ^= piv[hb]
        else:
            return False
    return True


def symp_ref(a, b):
    n = len(a) // 2
    return (sum(a[i] * b[n + i] for i in range(n)) + sum(a[n + i] * b[i] for i in range(n))) % 2


class _FixedErrors:
    """error model stand-in: returns the scripted error (the sampling itself is C07's business)"""
    def __init__(self, e):
        self.e = e

    def generate(self, code, error_rate, rng=None):
        return np.array(self.e, dtype='uint8')


class _NoCorrection:
    def decode(self, syndrome, **kw):
        return np.zeros(self.n2, dtype='uint8')

    def __init__(self, n2):
        self.n2 = n2


def check_case(c):
    try:
        code = K.build(c['class'], tuple(c['size']), (c['deform'][0], c['deform'][1]), reuse=bool(c.get('reuse')))
        H = K.dense(code.stabilizer_matrix) if code.n_stabilizers else []
        LX, LZ = K.dense(code.logicals_x), K.dense(code.logicals_z)
        k = len(LX)
        rows = [K.pack(r) for r in H]
        for e in c['errors']:
            ea = np.array(e, dtype='uint8')
            commutes = all(symp_ref(g, e) == 0 for g in H)
            if bool(code.in_codespace(ea)) != commutes:
                return {'error': vec(e)}, 'in_codespace disagrees with commutation with all generators'
            stab = gf2_in_span(rows, K.pack(e))
            if bool(code.is_success(ea)) != stab:
                return {'error': vec(e)}, f'is_success={bool(code.is_success(ea))} but membership in stabilizer group={stab}'
            le = [int(x) for x in code.logical_errors(ea)]
            want = [symp_ref(l, e) for l in LZ] + [symp_ref(l, e) for l in LX]
            if le != want:
                return {'error': vec(e)}, f'logical_errors={le} but [products with logical Z | with logical X]={want}'
        # the simulation's own verdict (run_once) on a scripted residual error with a null decoder
        from panqec.simulation._direct_simulation import run_once
        for e in c['errors'][:60]:
            r = run_once(code, _FixedErrors(e), _NoCorrection(2 * code.n), 0.1, rng=np.random.default_rng(0))
            stab = gf2_in_span(rows, K.pack(e))
            if bool(r['success']) != stab:
                return {'error': vec(e)}, (f"run_once success={bool(r['success'])} for residual error in stabilizer "
                                           f"group={stab}")
            if bool(r['codespace']) != all(symp_ref(g, e) == 0 for g in H):
                return {'error': vec(e)}, 'run_once codespace flag disagrees with commutation with all generators'
        # stacks: get_effective_error on a 2-D array of errors = row-by-row effects
        from panqec.bpauli import get_effective_error
        es = c['errors']
        if len(es) >= 2:
            E = np.array(es[:40], dtype='uint8')
            eff = np.asarray(get_effective_error(E, code.logicals_x, code.logicals_z)).reshape(len(E), -1)
            for row, e in zip(eff, es[:40]):
                want = [symp_ref(l, e) for l in LZ] + [symp_ref(l, e) for l in LX]
                if [int(x) for x in row] != want:
                    return ({'error': vec(es[0]), 'error2': vec(e)},
                            f'stacked get_effective_error row {[int(x) for x in row]} but products with logicals {want}')
        # linearity and coset invariance on a few pairs
        for a, b in zip(es[::2][:6], es[1::2][:6]):
            ab = [(x + y) % 2 for x, y in zip(a, b)]
            la = code.logical_errors(np.array(a, dtype='uint8'))
            lb = code.logical_errors(np.array(b, dtype='uint8'))
            lab = code.logical_errors(np.array(ab, dtype='uint8'))
            if [int(x) for x in lab] != [int((x + y) % 2) for x, y in zip(la, lb)]:
                return {'error': vec(a), 'error2': vec(b)}, 'logical effect is not linear'
            if H:
                sa = [(x + y) % 2 for x, y in zip(a, H[0])]
                if [int(x) for x in code.logical_errors(np.array(sa, dtype='uint8'))] != [int(x) for x in la]:
                    return {'error': vec(a)}, 'logical effect changed by multiplying with a generator'
    except Exception as e:  # noqa
        return {}, f'raised {type(e).__name__}: {e}'
    return None


def oracle(ctx, deep=False, broken=None):
    rng = ctx.np_rng(43)
    cases = []
    for cls, size, deform in small_codes(ctx):
        n = K.qubit_count(cls, size)
        errors = [list(v) for v in itertools.product([0, 1], repeat=2 * n)]
        cap = (1024 if n <= 6 else 400) if deep else (256 if n <= 4 else 100)
        if len(errors) > cap:
            idx = rng.choice(len(errors), cap, replace=False)
            errors = [errors[i] for i in idx]
        cases.append({'class': cls, 'size': list(size), 'deform': [deform[0], deform[1]], 'errors': errors})
    for cls, size, deform in larger_codes(ctx):
        code = K.build(cls, size, deform)
        cases.append({'class': cls, 'size': list(size), 'deform': [deform[0], deform[1]],
                      'errors': structured_errors(code, rng, 10 if deep else 4)})
        if deform[0] is not None:   # the same on an object that was used and deformed before
            cases.append({'class': cls, 'size': list(size), 'deform': [deform[0], deform[1]], 'reuse': True,
                          'errors': structured_errors(code, rng, 4)})
    if deep:
        # codes with more than 255 / 512 qubits (dtype wrap-around and blocking in dense products live there)
        for cls, size in (('Toric2DCode', (12, 12)), ('Toric3DCode', (5, 5, 5)), ('Planar2DCode', (12, 11)),
                          ('RotatedPlanar2DCode', (17, 16)), ('Toric2DCode', (16, 17))):
            code = K.build(cls, size, (None, {}))
            cases.append({'class': cls, 'size': list(size), 'deform': [None, {}],
                          'errors': structured_errors(code, rng, 6)})
    fails = []
    n_eval = 0
    seen = set()
    for c in cases:
        n_eval += len(c['errors'])
        r = check_case(c)
        if r and (c['class'], bool(c.get('reuse'))) not in seen:
            seen.add((c['class'], bool(c.get('reuse'))))
            where, msg = r
            # minimise: keep only the failing error(s)
            errs = [[int(ch) for ch in where[k]] for k in ('error', 'error2') if k in where] or c['errors'][:2]
            small = dict(c, errors=errs if len(errs) > 1 else errs + errs)
            if check_case(small) is None:
                small = c
            fails.append({'input': small, 'observed': msg, 'match': {'class': c['class'], 'what': msg.split(' ')[0]}})
    return fails, {'evaluations': n_eval}


def replay(ctx, payload):
    return check_case(payload['input']) is not None
