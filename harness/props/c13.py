"""C13 - input specifications expand to exactly the requested simulations."""
from __future__ import annotations

import contextlib
import copy
import hashlib
import io
import itertools
import json
import os
import tempfile
import warnings
from collections import Counter
from fractions import Fraction
from pathlib import Path

from harness import core
from harness.core import Stream
from harness.util import guarded, first_failures
from harness.props import c13_regen

ID = 'C13'
LEVEL = 'proof'
LEVEL_TEXT = ('Lean theorems for every specification (any axis lengths, list/dict parameter forms, single ranges, '
              'list of ranges, explicit runs): the simulations built from a ranges dictionary are in one-to-one, '
              'order-preserving correspondence with the Cartesian product of the requested code, noise, decoder '
              'parameters and error rates (length = product of the axis lengths, tuple (i,j,k,l) sits at index '
              '((i*N+j)*D+k)*R+l, no tuple twice when the axes have no repetition), a list of ranges is the '
              'concatenation, runs give one simulation per entry; every registered name resolves to the class of '
              'that name (decided on the table regenerated from config.py on every run); re-instantiating from the '
              'recorded inputs reproduces class and parameters; _find_current_simulation returns exactly the record '
              'with equal inputs. For method splitting the same is proved tuple by tuple: the simulations are, position by '
              'position over the product codes x noises x decoders, built from exactly the requested blocks, every '
              'requested combination gets one and no other exists, and each carries all requested error rates in '
              'non-increasing order (a permutation of the requested list). The model is tied to '
              '_batch_simulation.py by differential runs on random specs.')
LEVEL_NOTE = ('trusted: Lean kernel + standard axioms; correspondence harness and the config.py translator; lattice '
              'construction and decoder set-up are outside the model (sizes/parameters the classes accept); a code '
              'deformation is not part of the recorded inputs, so "identical code" means class and (L_x, L_y, L_z); the '
              'splitting method is modelled and proved per tuple like the direct one; of the one-decoder-per-rate list of a '
              'SplittingSimulation the model keeps the instantiation (class, params) they share - error_rate is an '
              'implicit constructor argument, not part of params')
TECHNIQUE = ('Lean 4 proof (structural induction over lists / Cartesian products, decide on the regenerated finite '
             'registry) + regenerated tables + differential correspondence with the compiled model driver')
TRUSTED = ['itertools.product order (last axis fastest), Python call semantics for *args/**kwargs as modelled in '
           'Model/Spec.lean (bindArgs)',
           'np.isclose(r_x+r_y+r_z, 1) evaluated on the exact sum (inputs within an ulp of the tolerance are not generated)']
ASSUMPTIONS = ['error_rate is a list, code/error_model blocks carry a parameters entry (other forms raise in the '
               'code; the model rejects them with the same exception class)',
               'dictionary keys of a specification are distinct (JSON objects)']
ANCHOR_FILES = ['panqec/simulation/_batch_simulation.py', 'panqec/config.py',
                'panqec/simulation/_base_simulation.py', 'panqec/codes/base/_stabilizer_code.py',
                'panqec/error_models/_pauli_error_model.py']

warnings.filterwarnings('ignore')
GENERATED = core.LEAN_DIR / 'PanqecVerif' / 'Generated' / 'Registry.lean'
ERRMAP = {'KeyError': 'ERR key', 'TypeError': 'ERR type', 'ValueError': 'ERR value',
          'UnboundLocalError': 'ERR unbound'}


def regen(ctx):
    src, info = c13_regen.generate(core.REPO)
    old = GENERATED.read_text() if GENERATED.exists() else None
    if old != src:
        GENERATED.parent.mkdir(parents=True, exist_ok=True)
        GENERATED.write_text(src)
        info['rewritten'] = True
    for n in info.get('notes', []):
        ctx.notes.append('regen: ' + n)
    return info


# ------------------------------------------------------------------ encoding

FORBIDDEN = set(';=[]{}~')


def esc(s: str) -> str:
    if FORBIDDEN & set(s) or '\n' in s:
        raise ValueError(f'string not encodable: {s!r}')
    return s.replace(' ', '~')


def enc(v) -> str:
    import numpy as np
    if v is None:
        return 'N'
    if isinstance(v, (bool, np.bool_)):
        return 'T' if v else 'F'
    if isinstance(v, (int, np.integer)):
        return f'i{int(v)}'
    if isinstance(v, (float, np.floating)):
        f = Fraction(float(v))
        return f'q{f.numerator}/{f.denominator}'
    if isinstance(v, str):
        return 's:' + esc(v)
    if isinstance(v, (list, tuple)):
        return '[' + ';'.join(enc(x) for x in v) + ']'
    if isinstance(v, dict):
        return '{' + ';'.join(f'{esc(str(k))}={enc(x)}' for k, x in v.items()) + '}'
    raise ValueError(f'value not encodable: {type(v).__name__}')


def inst(obj) -> str:
    return obj.id + enc(dict(sorted(obj.params.items())))


def sim_str(sim) -> str:
    if hasattr(sim, 'decoders'):          # SplittingSimulation
        return (f'{inst(sim.code)}|{inst(sim.error_model)}|{inst(sim.decoders[0])}|'
                f'{enc([float(x) for x in sim.error_rates])}|splitting')
    return f'{inst(sim.code)}|{inst(sim.error_model)}|{inst(sim.decoder)}|{enc(sim.error_rate)}'


def quiet(fn):
    with contextlib.redirect_stdout(io.StringIO()):
        return fn()


def batch_answer(spec, out_file) -> str:
    from panqec.simulation import read_input_dict

    def go():
        b = quiet(lambda: read_input_dict(copy.deepcopy(spec), out_file, verbose=False))
        return ' '.join([f'label={esc(b.label)}', f'method={esc(b.method)}', f'n={len(b._simulations)}'] +
                        [sim_str(s) for s in b._simulations])
    return guarded(go, ERRMAP)


def runout_str(run) -> str:
    def nm(block):
        return enc(block.get('name'))
    return '|'.join([nm(run['code']), enc(run['code'].get('parameters')),
                     nm(run['error_model']), enc(run['error_model'].get('parameters')),
                     nm(run['decoder']), enc(run['decoder'].get('parameters')), enc(run.get('error_rate'))])


def runs_answer(fn) -> str:
    def go():
        rs = quiet(fn)
        return ' '.join([f'n={len(rs)}'] + [runout_str(r) for r in rs])
    return guarded(go, ERRMAP)


# ---------------------------------------------------------------- generators

CAND_2D = [(2, 2), (3, 3), (2, 3), (3, 2), (4, 4), (4, 2), (2, 4), (3, 4)]
CAND_3D = [(2, 2, 2), (3, 2, 2), (2, 3, 2), (2, 2, 3), (3, 3, 2), (4, 2, 2), (2, 2, 4), (3, 3, 3)]
_size_cache = {}


def class_dimension(cls):
    import inspect
    d = inspect.getattr_static(cls, 'dimension')
    return int(d.fget(None)) if isinstance(d, property) else int(d)


def sizes_for(name):
    """Small sizes the class itself accepts (construction succeeds, n small)."""
    from panqec.config import CODES
    if name not in _size_cache:
        cls = CODES[name]
        ok = []
        for size in (CAND_3D if class_dimension(cls) == 3 else CAND_2D):
            try:
                c = cls(*size)
                if 0 < c.n <= 130 and c.k >= 1:
                    _ = c.stabilizer_matrix
                    ok.append(size)
            except Exception:
                pass
        _size_cache[name] = ok
    return _size_cache[name]


def allowed_codes_of(dcls):
    import inspect
    a = inspect.getattr_static(dcls, 'allowed_codes', None)
    try:
        return a.fget(None) if isinstance(a, property) else a
    except Exception:
        return None


SLOW_DECODERS = ('MemoryBeliefPropagationDecoder',)   # prints and takes seconds per trial
_combo_cache = {}


def combo_ok(code_name, size, dn):
    """Does the decoder class accept this code instance (set-up is outside the model)?"""
    from panqec.config import CODES, DECODERS
    from panqec.error_models import PauliErrorModel
    key = (code_name, tuple(size), dn)
    if key not in _combo_cache:
        try:
            quiet(lambda: DECODERS[dn](CODES[code_name](*size), PauliErrorModel(0.25, 0.25, 0.5), 0.125))
            _combo_cache[key] = True
        except Exception:
            _combo_cache[key] = False
    return _combo_cache[key]


def decoders_for(code_name, runnable=False):
    from panqec.config import DECODERS
    out = []
    for dn, dcls in DECODERS.items():
        ac = allowed_codes_of(dcls)
        if (ac is None or code_name in ac) and not (runnable and dn in SLOW_DECODERS):
            out.append(dn)
    return out


DECODER_CHOICES = {
    'MatchingDecoder': {'error_type': [None, 'X', 'Z']},
    'RotatedSweepMatchDecoder': {'max_rounds': [4, 8, 16]},
    'BeliefPropagationOSDDecoder': {'max_bp_iter': [5, 10, 20], 'osd_order': [0, 1, 2],
                                    'channel_update': [False, True],
                                    'bp_method': ['minimum_sum', 'product_sum']},
    'MemoryBeliefPropagationDecoder': {'max_bp_iter': [5, 10], 'alpha': [0.5, 0.75, 0.4], 'beta': [0, 0.25]},
}
DIRECTIONS = [(1, 0, 0), (0, 0, 1), (0.5, 0.25, 0.25), (0.25, 0.25, 0.5), (1 / 3, 1 / 3, 1 / 3),
              (0.125, 0.125, 0.75), (0.0, 1.0, 0.0), (0.5, 0.5, 0.0), (0.1, 0.2, 0.7)]
RATES = [0.0625, 0.125, 0.1875, 0.25, 0.3125, 0.375, 0.1, 0.05, 0.3, 0.02]


def pick(rng, seq):
    return seq[int(rng.integers(len(seq)))]


def distinct_sample(rng, seq, k):
    idx = rng.choice(len(seq), size=min(k, len(seq)), replace=False)
    return [seq[int(i)] for i in idx]


def code_param_form(rng, size, dim):
    """One of the accepted ways of writing a size."""
    keys = ['L_x', 'L_y', 'L_z'][:dim]
    w = rng.random()
    if w < 0.35:
        return dict(zip(keys, size))
    if w < 0.5 and all(s == size[0] for s in size):
        return {'L_x': size[0]} if rng.random() < 0.5 else [size[0]]
    if w < 0.6 and dim == 3 and size[2] == size[0]:
        return {'L_x': size[0], 'L_y': size[1]} if rng.random() < 0.5 else [size[0], size[1]]
    if w < 0.7:
        items = list(zip(keys, size))
        items.reverse()
        return dict(items)
    return list(size)


def gen_ranges(rng, max_product=40, label=True, runnable=False):
    """A valid `ranges` dictionary with 1..5 values per axis (bounded product)."""
    from panqec.config import CODES, ERROR_MODELS
    while True:
        name = pick(rng, list(CODES))
        dname = pick(rng, decoders_for(name, runnable))
        if dname in SLOW_DECODERS and rng.random() < 0.75:
            continue                     # its constructor takes 0.1 s: keep it rare
        sizes = [sz for sz in sizes_for(name) if combo_ok(name, sz, dname)]
        if sizes:
            break
    if dname in SLOW_DECODERS:
        max_product = min(max_product, 8)
    dim = class_dimension(CODES[name])
    lens = [int(rng.integers(1, 6)) for _ in range(4)]
    while lens[0] * lens[1] * lens[2] * lens[3] > max_product:
        i = int(rng.integers(4))
        lens[i] = max(1, lens[i] - 1)
    csizes = distinct_sample(rng, sizes, lens[0])
    cparams = [code_param_form(rng, s, dim) for s in csizes]
    code = {'name': name}
    if len(cparams) == 1 and isinstance(cparams[0], dict) and rng.random() < 0.5:
        code['parameters'] = cparams[0]
    else:
        code['parameters'] = cparams
    # noise
    defs = list(getattr(CODES[name], 'deformation_names', []) or [])
    nparams = []
    for d in distinct_sample(rng, DIRECTIONS, lens[1]):
        w = rng.random()
        if w < 0.5:
            p = {'r_x': d[0], 'r_y': d[1], 'r_z': d[2]}
            if defs and rng.random() < 0.4:
                p['deformation_name'] = pick(rng, defs)
                if rng.random() < 0.3:
                    p['deformation_kwargs'] = {}
        elif w < 0.75:
            p = list(d)
            if defs and rng.random() < 0.3:
                p.append(pick(rng, defs))
        else:
            p = {'r_z': d[2], 'r_x': d[0], 'r_y': d[1]}
        nparams.append(p)
    noise = {'name': pick(rng, list(ERROR_MODELS))}
    if len(nparams) == 1 and isinstance(nparams[0], dict) and rng.random() < 0.5:
        noise['parameters'] = nparams[0]
    else:
        noise['parameters'] = nparams
    # decoder
    choices = DECODER_CHOICES.get(dname, {})
    dparams = []
    seen = set()
    for _ in range(lens[2] * 3):
        p = {k: pick(rng, v) for k, v in choices.items() if rng.random() < 0.6}
        key = json.dumps(p, sort_keys=True)
        if key not in seen:
            seen.add(key)
            dparams.append(p)
        if len(dparams) == lens[2]:
            break
    decoder = {'name': dname}
    w = rng.random()
    if len(dparams) == 1 and dparams[0] == {} and w < 0.5:
        pass                                   # no 'parameters' entry at all
    elif len(dparams) == 1 and w < 0.7:
        decoder['parameters'] = dparams[0]
    else:
        decoder['parameters'] = dparams
    ranges = {'code': code, 'error_model': noise, 'decoder': decoder,
              'error_rate': distinct_sample(rng, RATES, lens[3])}
    if label and rng.random() < 0.6:
        ranges['label'] = pick(rng, ['exp', 'my run', 'x1'])
    w = rng.random()
    if w < 0.2:
        ranges['method'] = {'name': 'direct', 'parameters': {}}
    elif w < 0.32 and not runnable:
        ranges['method'] = {'name': 'splitting', 'parameters': {'n_init_runs': int(rng.integers(1, 20))}}
    items = list(ranges.items())
    if rng.random() < 0.3:
        items.reverse()
    return dict(items)


def gen_splitting_ranges(rng):
    """A ranges dictionary with the splitting method and at least two values on the decoder and
    error-rate axes (so that dropping or multiplying an axis is visible)."""
    for _ in range(200):
        r = gen_ranges(rng, max_product=16, runnable=True)
        d = r['decoder'].get('parameters')
        if isinstance(d, list) and len(d) >= 2 and len(r['error_rate']) >= 2:
            r['method'] = {'name': 'splitting', 'parameters': {'n_init_runs': int(rng.integers(1, 20))}}
            return r
    raise RuntimeError('generator could not produce a splitting specification')


def gen_run(rng):
    r = gen_ranges(rng, max_product=1, label=False)

    def one(block):
        b = dict(block)
        if 'parameters' in b and isinstance(b['parameters'], list) and b['parameters'] and \
                isinstance(b['parameters'][0], (dict, list)):
            b['parameters'] = b['parameters'][0]
        return b
    run = {'code': one(r['code']), 'error_model': one(r['error_model']), 'decoder': one(r['decoder']),
           'error_rate': r['error_rate'][0]}
    return run


def gen_spec(rng):
    w = rng.random()
    if w < 0.55:
        return {'ranges': gen_ranges(rng)}, 'single'
    if w < 0.75:
        return {'ranges': [gen_ranges(rng, max_product=12) for _ in range(int(rng.integers(1, 4)))]}, 'list'
    if w < 0.92:
        return {'runs': [gen_run(rng) for _ in range(int(rng.integers(1, 6)))]}, 'runs'
    return {'runs': [gen_run(rng)], 'ranges': gen_ranges(rng, max_product=8)}, 'runs+ranges'


def malformed_ranges(rng):
    """(ranges, tag): one defect each, evaluated identically by code and model."""
    out = []
    base = gen_ranges(rng, max_product=6)

    def mod(tag, f):
        r = copy.deepcopy(base)
        f(r)
        out.append((r, tag))
    mod('scalar-error-rate', lambda r: r.__setitem__('error_rate', 0.125))
    mod('code-without-parameters', lambda r: r['code'].pop('parameters'))
    mod('noise-without-parameters', lambda r: r['error_model'].pop('parameters'))
    mod('no-code', lambda r: r.pop('code'))
    mod('no-error-model', lambda r: r.pop('error_model'))
    mod('no-decoder', lambda r: r.pop('decoder'))
    mod('no-error-rate', lambda r: r.pop('error_rate'))
    mod('unknown-code', lambda r: r['code'].__setitem__('name', 'Toric4DCode'))
    mod('unknown-noise', lambda r: r['error_model'].__setitem__('name', 'NoNoise'))
    mod('unknown-decoder', lambda r: r['decoder'].__setitem__('name', 'OracleDecoder'))
    mod('code-without-name', lambda r: r['code'].pop('name'))
    mod('decoder-without-name', lambda r: r['decoder'].pop('name'))
    mod('too-many-positionals', lambda r: r['code'].__setitem__('parameters', [[2, 2, 2, 2]]))
    mod('unknown-size-keyword', lambda r: r['code'].__setitem__('parameters', [{'L_x': 2, 'L_w': 2}]))
    mod('missing-L_x', lambda r: r['code'].__setitem__('parameters', [{'L_y': 2}]))
    mod('flat-size-list', lambda r: r['code'].__setitem__('parameters', [2, 2]))
    mod('empty-code-parameters', lambda r: r['code'].__setitem__('parameters', []))
    mod('direction-not-normalised', lambda r: r['error_model'].__setitem__('parameters', [{'r_x': 0.5, 'r_y': 0.25, 'r_z': 0.125}]))
    mod('direction-missing', lambda r: r['error_model'].__setitem__('parameters', [{'r_x': 1, 'r_y': 0}]))
    mod('flat-direction-list', lambda r: r['error_model'].__setitem__('parameters', [1, 0, 0]))
    mod('unknown-decoder-keyword', lambda r: r['decoder'].__setitem__('parameters', [{'speed': 3}]))
    mod('decoder-parameters-not-dict', lambda r: r['decoder'].__setitem__('parameters', [3]))
    mod('splitting-without-n_init_runs', lambda r: r.__setitem__('method', {'name': 'splitting', 'parameters': {}}))
    mod('splitting', lambda r: r.__setitem__('method', {'name': 'splitting', 'parameters': {'n_init_runs': 5}}))
    mod('splitting', lambda r: r.__setitem__('method', {'name': 'splitting',
                                                        'parameters': {'start_run': 2, 'n_init_runs': 7}}))
    mod('splitting-verbose', lambda r: r.__setitem__('method', {'name': 'splitting',
                                                                'parameters': {'n_init_runs': 5, 'verbose': True}}))
    mod('unknown-method', lambda r: r.__setitem__('method', {'name': 'annealing', 'parameters': {}}))
    mod('method-without-name', lambda r: r.__setitem__('method', {'parameters': {}}))
    mod('method-without-parameters', lambda r: r.__setitem__('method', {'name': 'direct'}))
    mod('method-verbose', lambda r: r.__setitem__('method', {'name': 'direct', 'parameters': {'verbose': False}}))
    mod('method-compress', lambda r: r.__setitem__('method', {'name': 'direct', 'parameters': {'compress': False}}))
    return out


# ---------------------------------------------------------- correspondence

def digest(obj) -> str:
    return hashlib.sha256(json.dumps(obj, sort_keys=True).encode()).hexdigest()[:16]


def json_roundtrip(obj):
    from panqec.utils import NumpyEncoder
    return json.loads(json.dumps(obj, cls=NumpyEncoder))


def correspondence(ctx):
    from panqec.simulation import read_input_dict
    from panqec.simulation import _batch_simulation as bs
    from panqec.utils import load_json
    rng = ctx.np_rng(13)
    streams = []
    tmp = tempfile.mkdtemp(prefix='c13_')
    out_file = os.path.join(tmp, 'out.json')
    n_specs = 120 if ctx.thorough else 36

    # --- 1. read_input_dict on random valid specifications
    s = Stream('read_input_dict-valid')
    specs = []
    for _ in range(n_specs):
        spec, form = gen_spec(rng)
        specs.append((spec, form))
        ans = batch_answer(spec, out_file)
        s.add(f'sims {enc(spec)}', ans, {'spec': spec}, tag=form,
              nontrivial=not ans.startswith('ERR'))
    for _ in range(8 if ctx.thorough else 3):
        spec = {'ranges': gen_splitting_ranges(rng)}
        s.add(f'sims {enc(spec)}', batch_answer(spec, out_file), {'spec': spec}, tag='splitting')
    streams.append(s.run())

    # --- 2. expand_input_ranges / get_runs
    s = Stream('expand_input_ranges')
    for spec, form in specs:
        if form == 'single':
            r = spec['ranges']
            s.add(f'expand {enc(r)}', runs_answer(lambda: bs.expand_input_ranges(copy.deepcopy(r))),
                  {'ranges': r}, tag='expand')
        s.add(f'getruns {enc(spec)}', runs_answer(lambda: bs.get_runs(copy.deepcopy(spec))),
              {'spec': spec}, tag='get_runs/' + form)
    streams.append(s.run())

    # --- 3. malformed specifications (one defect each)
    s = Stream('malformed')
    for _ in range(3 if ctx.thorough else 1):
        for r, tag in malformed_ranges(rng):
            spec = {'ranges': r}
            s.add(f'sims {enc(spec)}', batch_answer(spec, out_file), {'spec': spec}, tag=tag)
            s.add(f'expand {enc(r)}', runs_answer(lambda: bs.expand_input_ranges(copy.deepcopy(r))),
                  {'ranges': r}, tag=tag)
    for spec, tag in (({}, 'neither'), ({'runs': []}, 'empty-runs'), ({'ranges': []}, 'empty-ranges-list'),
                      ({'label': 'x'}, 'neither')):
        s.add(f'sims {enc(spec)}', batch_answer(spec, out_file), {'spec': spec}, tag=tag)
        s.add(f'getruns {enc(spec)}', runs_answer(lambda: bs.get_runs(copy.deepcopy(spec))), {'spec': spec}, tag=tag)
    r = gen_ranges(rng, max_product=4)
    r['error_rate'] = []
    s.add(f'expand {enc(r)}', runs_answer(lambda: bs.expand_input_ranges(copy.deepcopy(r))), {'ranges': r},
          tag='empty-error-rate')
    run = gen_run(rng)
    for tag, f in (('run-without-code', lambda x: x.pop('code')), ('run-without-error-rate', lambda x: x.pop('error_rate')),
                   ('run-code-without-parameters', lambda x: x['code'].pop('parameters')),
                   ('run-noise-without-parameters', lambda x: x['error_model'].pop('parameters')),
                   ('run-without-decoder', lambda x: x.pop('decoder'))):
        x = copy.deepcopy(run)
        f(x)
        spec = {'runs': [gen_run(rng), x]}
        s.add(f'sims {enc(spec)}', batch_answer(spec, out_file), {'spec': spec}, tag=tag)
    # label of a list of ranges (read from subdata['ranges']['label'])
    for labels in (['a', 'a'], ['a', 'b'], ['a', None], [None, None]):
        rs = []
        for lb in labels:
            r = gen_ranges(rng, max_product=2)
            if lb is not None:
                r['ranges'] = {'label': lb}
            rs.append(r)
        spec = {'ranges': rs}
        s.add(f'sims {enc(spec)}', batch_answer(spec, out_file), {'spec': spec}, tag='list-labels')
    streams.append(s.run())

    # --- 4. recorded inputs: re-instantiation and _find_current_simulation
    s = Stream('recorded-inputs')
    for spec, form in specs[: (40 if ctx.thorough else 10)]:
        try:
            b = quiet(lambda: read_input_dict(copy.deepcopy(spec), out_file, verbose=False))
        except Exception:
            continue
        sims = b._simulations
        if not sims or any(hasattr(sim, 'decoders') for sim in sims):
            continue                     # splitting simulations record other inputs and are not run here
        for sim in sims[:6]:
            for src, via in ((sim._inputs, 'memory'), (json_roundtrip(sim._inputs), 'json')):
                cd, nd, dd = src['code'], src['error_model'], src['decoder']
                cblk = {'name': cd['name'], 'parameters': cd['parameters']}
                s.add(f'reinst code {enc(cblk)}', guarded(lambda: inst(bs._parse_code_dict(copy.deepcopy(cd))), ERRMAP),
                      {'block': cblk}, tag='reinst-code/' + via)
                s.add(f'reinst noise {enc(nd)}',
                      guarded(lambda: inst(bs._parse_error_model_dict(copy.deepcopy(nd))), ERRMAP),
                      {'block': nd}, tag='reinst-noise/' + via)
                s.add(f'reinst decoder {enc(dd)}',
                      guarded(lambda: inst(bs._parse_decoder_dict(copy.deepcopy(dd), sim.code, sim.error_model,
                                                                  src['error_rate'])), ERRMAP),
                      {'block': dd}, tag='reinst-decoder/' + via)
        # results file round trip
        path = os.path.join(tmp, f'rt_{len(s.ops)}.json')
        b._output_file = path
        slow = any(sim.decoder.id in SLOW_DECODERS for sim in sims)
        for i, sim in enumerate(sims):
            try:
                quiet(lambda: sim.run(0 if slow else i % 3))
            except Exception as e:  # a decoder that raises while decoding is outside C13
                ctx.notes.append(f'trial not run ({sim.decoder.id} on {sim.code.id}{tuple(sim.code.size)}): '
                                 f'{type(e).__name__}')
        b.save_results()
        data = load_json(path)
        order = [int(i) for i in rng.permutation(len(data))]
        variants = [list(range(len(data))), order, order[: max(1, len(order) // 2)], order + order]
        for var in variants:
            recs = [data[i] for i in var]
            keys = ';'.join(digest(r['inputs']) for r in recs) or '-'
            for sim in sims[:8]:
                got = sim._find_current_simulation(recs)
                idx = next((j for j, r in enumerate(recs) if r is got), -1)
                s.add(f'find {keys} {digest(json_roundtrip(sim._inputs))}', str(idx),
                      {'spec': spec, 'records': var}, tag='find')
    streams.append(s.run())
    return streams


# ------------------------------------------------------------------ oracle

def requested_axes(ranges):
    """Axis values as the user wrote them (normal forms only)."""
    def plist(block):
        p = block.get('parameters', {})
        if isinstance(p, dict):
            return [p]
        return list(p) if p else [{}]
    return plist(ranges['code']), plist(ranges['error_model']), plist(ranges['decoder']), list(ranges['error_rate'])


def expected_code(name, p):
    from panqec.config import CODES
    dim = class_dimension(CODES[name])
    if isinstance(p, dict):
        lx, ly, lz = p.get('L_x'), p.get('L_y'), p.get('L_z')
    else:
        lx, ly, lz = (list(p) + [None, None, None])[:3]
    ly = lx if ly is None else ly
    lz = lx if (lz is None and dim == 3) else lz
    return (name, lx, ly, lz)


def expected_noise(name, p):
    if isinstance(p, dict):
        return (name, p['r_x'], p['r_y'], p['r_z'], p.get('deformation_name'))
    q = list(p) + [None]
    return (name, q[0], q[1], q[2], q[3])


def decoder_defaults(dname):
    import inspect
    from panqec.config import DECODERS
    ps = inspect.signature(DECODERS[dname].__init__).parameters
    return {k: p.default for k, p in ps.items()
            if k not in ('self', 'code', 'error_model', 'error_rate') and p.default is not inspect.Parameter.empty}


def sim_tuple(sim):
    c, e = sim.code, sim.error_model
    if hasattr(sim, 'decoders'):          # SplittingSimulation: all rates, largest first
        d, rate = sim.decoders[0], tuple(float(x) for x in sim.error_rates)
    else:
        d, rate = sim.decoder, sim.error_rate
    return repr((('code', c.id, c.params['L_x'], c.params['L_y'], c.params['L_z']),
                 ('noise', e.id, e.params['r_x'], e.params['r_y'], e.params['r_z'], e.params['deformation_name']),
                 ('decoder', d.id, tuple(sorted(d.params.items()))),
                 rate))


def expected_tuples(ranges):
    """The Cartesian product of the requested values, each completed with the documented defaults."""
    cs, ns, ds, rs = requested_axes(ranges)
    cname, nname, dname = ranges['code']['name'], ranges['error_model']['name'], ranges['decoder']['name']
    dflt = decoder_defaults(dname)
    exp = []
    if ranges.get('method', {}).get('name') == 'splitting':
        # one simulation per (code, noise, decoder), each with every requested rate
        allr = tuple(sorted((float(x) for x in rs), reverse=True))
        for c, n, d in itertools.product(cs, ns, ds):
            exp.append(repr((('code',) + expected_code(cname, c), ('noise',) + expected_noise(nname, n),
                             ('decoder', dname, tuple(sorted({**dflt, **d}.items()))), allr)))
        return exp
    for c, n, d, r in itertools.product(cs, ns, ds, rs):
        exp.append(repr((('code',) + expected_code(cname, c), ('noise',) + expected_noise(nname, n),
                         ('decoder', dname, tuple(sorted({**dflt, **d}.items()))), r)))
    return exp


def check_case(case):
    from panqec.simulation import read_input_dict
    from panqec.simulation import _batch_simulation as bs
    from panqec import config
    from panqec.utils import load_json
    import numpy as np
    kind = case['kind']
    try:
        if kind == 'registry':
            cls = getattr(config, case['table'])[case['name']]
            if cls.__name__ != case['name']:
                return f"{case['table']}[{case['name']!r}] is class {cls.__name__}"
            return None
        if kind == 'expand-direct':
            # the expansion function called directly, several times in ONE process (as count_runs, get_runs,
            # generate-input and user scripts do): each call must return exactly the product of ITS argument
            for i, rj in enumerate(case['ranges_json']):
                r = json.loads(rj)
                runs = bs.expand_input_ranges(copy.deepcopy(r))
                dflt = decoder_defaults(r['decoder']['name'])
                def as_tuple(u):
                    try:
                        return repr((('code',) + expected_code(u['code']['name'], u['code']['parameters']),
                                     ('noise',) + expected_noise(u['error_model']['name'],
                                                                 u['error_model']['parameters']),
                                     ('decoder', u['decoder']['name'],
                                      tuple(sorted({**dflt, **u['decoder'].get('parameters', {})}.items()))),
                                     u['error_rate']))
                    except Exception:  # noqa: BLE001 -- a run that is not of this request at all
                        return 'foreign run ' + json.dumps(u, sort_keys=True, default=str)[:160]
                got = [as_tuple(u) for u in runs]
                exp = expected_tuples({k: v for k, v in r.items() if k != 'method'})
                if Counter(got) != Counter(exp):
                    extra = list((Counter(got) - Counter(exp)).elements())
                    missing = list((Counter(exp) - Counter(got)).elements())
                    return (f'call #{i + 1} of expand_input_ranges in this process returned {len(got)} runs for '
                            f'{len(exp)} requested combinations; not requested: {extra[:2]}; missing: {missing[:2]}')
            return None
        tmp = tempfile.mkdtemp(prefix='c13o_')
        out = os.path.join(tmp, 'o.json')
        spec = json.loads(case['spec_json'])      # a string: key order is part of the input
        b = quiet(lambda: read_input_dict(copy.deepcopy(spec), out, verbose=False))
        sims = b._simulations
        if kind == 'expansion':
            rl = spec['ranges'] if isinstance(spec['ranges'], list) else [spec['ranges']]
            pos = 0
            for r in rl:
                exp = expected_tuples(r)
                got = [sim_tuple(s) for s in sims[pos:pos + len(exp)]]
                pos += len(exp)
                ce, cg = Counter(exp), Counter(got)
                if ce != cg:
                    missing = list((ce - cg).elements())
                    extra = list((cg - ce).elements())
                    return (f'{len(got)} simulations for {len(exp)} requested combinations; '
                            f'requested but not built: {missing[:2]}; built but not requested: {extra[:2]}')
            if pos != len(sims):
                return f'{len(sims)} simulations built, {pos} requested'
            return None
        if kind == 'runs':
            exp = []
            for run in spec['runs']:
                d = run['decoder'].get('parameters', {})
                exp.append(repr((('code',) + expected_code(run['code']['name'], run['code']['parameters']),
                                 ('noise',) + expected_noise(run['error_model']['name'], run['error_model']['parameters']),
                                 ('decoder', run['decoder']['name'],
                                  tuple(sorted({**decoder_defaults(run['decoder']['name']), **d}.items()))),
                                 run['error_rate'])))
            got = [sim_tuple(s) for s in sims]
            if Counter(exp) != Counter(got):
                missing = list((Counter(exp) - Counter(got)).elements())
                return (f'{len(got)} simulations for {len(exp)} runs; requested but not built: {missing[:2]}')
            return None
        if kind == 'reinstantiate':
            for sim in sims[:10]:
                for src in (sim._inputs, json_roundtrip(sim._inputs)):
                    c2 = config.CODES[src['code']['name']](**src['code']['parameters'])
                    if (c2.id, c2.params) != (sim.code.id, sim.code.params) or \
                            (c2.n, c2.k, int(c2.d)) != (sim.code.n, sim.code.k, int(sim.code.d)) or \
                            (c2.stabilizer_matrix != sim.code.stabilizer_matrix).nnz != 0:
                        return f'code rebuilt from recorded inputs differs: {c2.id} {c2.params} vs {sim.code.id} {sim.code.params}'
                    if (src['code']['n'], src['code']['k'], int(src['code']['d'])) != (sim.code.n, sim.code.k, int(sim.code.d)):
                        return 'recorded n, k, d differ from the code'
                    e2 = config.ERROR_MODELS[src['error_model']['name']](**src['error_model']['parameters'])
                    if (e2.id, e2.params) != (sim.error_model.id, sim.error_model.params):
                        return f'error model rebuilt from recorded inputs differs: {e2.params} vs {sim.error_model.params}'
                    d2 = config.DECODERS[src['decoder']['name']](c2, e2, src['error_rate'], **src['decoder']['parameters'])
                    if (d2.id, d2.params) != (sim.decoder.id, sim.decoder.params):
                        return f'decoder rebuilt from recorded inputs differs: {d2.params} vs {sim.decoder.params}'
                    if src['error_rate'] != sim.error_rate:
                        return 'recorded error rate differs'
            return None
        if kind == 'resume':
            ran = []
            for i, sim in enumerate(sims):
                try:
                    quiet(lambda: sim.run((i * 2 + 1) % 3))
                except Exception:      # the decoder itself raised: not an input of C13
                    return None
                ran.append((sim.n_results, [bool(x) for x in sim.results['success']],
                            [[int(v) for v in e] for e in sim.results['effective_error']]))
            b.save_results()
            data = load_json(out)
            if len(data) != len(sims):
                return f'{len(data)} records written for {len(sims)} simulations'
            b2 = quiet(lambda: read_input_dict(copy.deepcopy(spec), out, verbose=False))
            distinct = len({digest(json_roundtrip(s._inputs)) for s in sims}) == len(sims)
            for i, s2 in enumerate(b2._simulations):
                got = s2._find_current_simulation(data)
                if got == {}:
                    return f'simulation {i} does not find its record in the results file'
                if distinct and got is not data[i]:
                    return f'simulation {i} adopts the record of another simulation'
            b2.load_results()
            for i, s2 in enumerate(b2._simulations):
                now = (s2.n_results, [bool(x) for x in s2.results['success']],
                       [[int(v) for v in e] for e in s2.results['effective_error']])
                if distinct and now != ran[i]:
                    return f'simulation {i} resumed with {now[0]} trials, {ran[i][0]} were recorded'
            return None
    except Exception as e:  # noqa
        return f'raised {type(e).__name__}: {e}'
    return None


def oracle_cases(ctx, deep):
    from panqec import config
    rng = ctx.np_rng(29)
    cases = []
    for table in ('CODES', 'ERROR_MODELS', 'DECODERS'):
        for name in getattr(config, table):
            cases.append({'kind': 'registry', 'table': table, 'name': name})
    for _ in range(40 if deep else 12):
        w = rng.random()
        if w < 0.7:
            spec = {'ranges': gen_ranges(rng, max_product=60 if deep else 30)}
        else:
            spec = {'ranges': [gen_ranges(rng, max_product=10) for _ in range(int(rng.integers(1, 4)))]}
        cases.append({'kind': 'expansion', 'spec': spec})
    for _ in range(12 if deep else 4):
        spec = {'ranges': gen_ranges(rng, max_product=8, runnable=True)}
        cases.append({'kind': 'reinstantiate', 'spec': spec})
        cases.append({'kind': 'resume', 'spec': {'ranges': gen_ranges(rng, max_product=12, runnable=True)}})
    for _ in range(6 if deep else 2):
        cases.append({'kind': 'expansion', 'spec': {'ranges': gen_splitting_ranges(rng)}})
    for _ in range(6 if deep else 2):
        cases.append({'kind': 'expand-direct',
                      'ranges_json': [json.dumps(gen_ranges(rng, max_product=12)) for _ in range(3)]})
    for _ in range(10 if deep else 4):
        cases.append({'kind': 'runs', 'spec': {'runs': [gen_run(rng) for _ in range(int(rng.integers(1, 6)))]}})
    # pairs a decoder handles but does not LIST in its (GUI-menu) allowed_codes: the expansion must keep them
    # (checked first that the pair is constructible on this tree)
    from panqec.config import CODES as _CODES, DECODERS as _DECODERS
    from panqec.error_models import PauliErrorModel as _PEM
    for dname, dpar, cnames in (('MatchingDecoder', {'error_type': 'X'},
                                 ['Toric3DCode', 'Planar3DCode', 'RotatedPlanar3DCode', 'HollowPlanar3DCode']),
                                ('SweepMatchDecoder', {}, ['HollowPlanar3DCode'])):
        for cname in cnames:
            try:
                quiet(lambda: _DECODERS[dname](_CODES[cname](2, 2, 2), _PEM(0.25, 0.25, 0.5), 0.125, **dpar))
            except Exception:  # noqa
                continue
            cases.append({'kind': 'expansion', 'spec': {'ranges': {
                'label': 'unlisted', 'code': {'name': cname, 'parameters': [{'L_x': 2, 'L_y': 2, 'L_z': 2}, [2, 2, 3]]},
                'error_model': {'name': 'PauliErrorModel', 'parameters': [{'r_x': 0.25, 'r_y': 0.25, 'r_z': 0.5}]},
                'decoder': {'name': dname, 'parameters': dpar}, 'error_rate': [0.0625, 0.125]}}})
    # falsy parameter values that differ from the class defaults must be kept as given
    cases.append({'kind': 'expansion', 'spec': {'ranges': {
        'label': 'falsy', 'code': {'name': 'Toric2DCode', 'parameters': [{'L_x': 2, 'L_y': 2}]},
        'error_model': {'name': 'PauliErrorModel', 'parameters': [{'r_x': 0.25, 'r_y': 0.25, 'r_z': 0.5}]},
        'decoder': {'name': 'BeliefPropagationOSDDecoder',
                    'parameters': [{'osd_order': 0, 'max_bp_iter': 5}, {'osd_order': 2, 'channel_update': False}]},
        'error_rate': [0.125]}}})
    cases.append({'kind': 'expansion', 'spec': {'ranges': {
        'label': 'falsy2', 'code': {'name': 'Toric2DCode', 'parameters': [{'L_x': 2, 'L_y': 2}]},
        'error_model': {'name': 'PauliErrorModel', 'parameters': [{'r_x': 0.25, 'r_y': 0.25, 'r_z': 0.5}]},
        'decoder': {'name': 'MemoryBeliefPropagationDecoder', 'parameters': [{'alpha': 0, 'max_bp_iter': 5}, {'beta': 0}]},
        'error_rate': [0.125]}}})
    # one axis with five values
    big = gen_ranges(rng, max_product=1)
    big['error_rate'] = RATES[:5]
    cases.append({'kind': 'expansion', 'spec': {'ranges': big}})
    return cases


def oracle(ctx, deep=False, broken=None):
    cases = oracle_cases(ctx, deep)
    for c in cases:
        if 'spec' in c:
            c['spec_json'] = json.dumps(c.pop('spec'))

    def key(c):
        if c['kind'] == 'registry':
            return {'kind': 'registry', 'table': c['table'], 'name': c['name']}
        if c['kind'] == 'expand-direct':
            return {'kind': 'expand-direct'}
        sp = json.loads(c['spec_json'])
        r = sp['ranges'] if 'ranges' in sp else sp['runs']
        r0 = r[0] if isinstance(r, list) else r
        return {'kind': c['kind'], 'code': r0['code']['name'], 'decoder': r0['decoder']['name']}
    fails = first_failures(cases, check_case, key=key)
    return fails, {'evaluations': len(cases)}


def replay(ctx, payload):
    return check_case(payload['input']) is not None
