"""C19 - generated input files cover exactly the requested parameter grid."""
from __future__ import annotations

import contextlib
import io
import itertools
import json
import os
import tempfile
import warnings
from fractions import Fraction
from unittest import mock
from urllib.parse import quote

from harness.core import Stream
from harness.util import first_failures

ID = 'C19'
LEVEL = 'proof'
LEVEL_TEXT = ('Lean theorems over exact rationals, for all inputs: a min:max:step range is the arithmetic '
              'progression min + i*step with floor((max-min)/step)+1 elements, none beyond max, last = max on a '
              'grid (proved for the code\'s 1e-9 tolerance whenever step is fewer than 10^9 grid units); '
              'the noise direction of a bias ratio eta >= 0 is non-negative, sums to 1, has r_bias = eta * '
              '(sum of the others), inf gives the pure bias; file names are injective in the bias ratio so every '
              'ratio keeps its own specification; the file read back expands to exactly one simulation per '
              '(size, rate). The model transcribes cli.py/utils.py and the read-back path of '
              '_batch_simulation.py and is tied to them by differential runs of the real click command.')
LEVEL_NOTE = ('trusted: Lean kernel + standard axioms; correspondence harness; binary floating point is '
              'abstracted by exact rationals: inputs are decimal-grid literals, every float the implementation '
              'produces is snapped to the nearest grid point / small-denominator rational (tolerance 1e-9*step, '
              'resp. 1e-12) before it is compared with the model, a float outside the tolerance is reported '
              'raw; Python repr of a float bias ratio in the file name is modelled positionally '
              '(1e-4 <= |eta| < 1e16, <= 15 significant digits)')
TECHNIQUE = ('Lean 4 proof over Rat (floor/ceil characterisation, field arithmetic, list induction) + differential '
             'correspondence: the click command generate-input is run into a temporary directory, the files are '
             'parsed with json and read back with read_input_json')
TRUSTED = ['numpy.arange(start, stop, step) has ceil((stop-start)/step) elements start + i*step up to float '
           'rounding; np.minimum clamps elementwise; json round-trips Python floats; float(repr(x)) == x']
ASSUMPTIONS = ['decimal literals without exponent/underscore/nan, at most 15 significant digits, '
               '|non-integral eta| >= 1e-4',
               'ranges on a decimal grid with step below 10^9 grid units (the tolerance 1e-9*step of the code '
               'then never crosses a grid point)',
               'code, noise and decoder class names are passed through unchecked by generate-input; the '
               'read-back part uses registered names and positive sizes']
ANCHOR_FILES = ['panqec/cli.py', 'panqec/utils.py', 'panqec/simulation/_batch_simulation.py']
RULE = ('one model-driver op per range spec / eta string / (axis, eta) / generate-input command line '
        '(files on disk as canonical text) / read-back of the generated files')

INF = 'inf'


# ------------------------------------------------------------------ exact helpers

def tok(s: str) -> str:
    # an empty token would vanish from the op line; encode '' as a single blank (float(' ') fails like float(''))
    return quote(s, safe='.,-') if s else '%20'


def opt(s):
    return '~' if s is None else '=' + quote(s, safe='.,-')


def fr(x: Fraction) -> str:
    return f'{x.numerator}/{x.denominator}'


def decimals(lit: str) -> int:
    lit = lit.strip()
    return len(lit.split('.')[1]) if '.' in lit else 0


def snap_grid(v, unit: Fraction, tol: Fraction) -> str:
    """nearest multiple of `unit`; raw repr when the float is farther than tol from it"""
    try:
        fv = Fraction(v)
    except (TypeError, ValueError, OverflowError):
        return f'RAW:{v!r}'
    k = round(fv / unit)
    g = k * unit
    if abs(fv - g) > tol:
        return f'RAW:{v!r}'
    return fr(g)


def snap_small(v, max_den=10 ** 8, tol=Fraction(1, 10 ** 12)) -> str:
    """nearest rational with a small denominator (direction components)"""
    try:
        fv = Fraction(v)
    except (TypeError, ValueError, OverflowError):
        return f'RAW:{v!r}'
    g = fv.limit_denominator(max_den)
    if abs(fv - g) > tol * max(1, abs(g)):
        return f'RAW:{v!r}'
    return fr(g)


def spec_grid(spec: str):
    """(unit, tol) for snapping the values of a range spec, from its decimal literals"""
    try:
        if ':' in spec:
            parts = spec.split(':')
            lits = [parts[0], parts[1]] + ([parts[2]] if len(parts) == 3 else ['0.005'])
            d = max(decimals(x) for x in lits)
            step = abs(Fraction(lits[2].strip())) or Fraction(1)
            return Fraction(1, 10 ** d), step / 10 ** 9
        lits = spec.split(',')
        d = max(decimals(x) for x in lits)
        return Fraction(1, 10 ** d), Fraction(1, 10 ** (d + 9))
    except (ValueError, ZeroDivisionError, IndexError):
        return Fraction(1, 1000), Fraction(1, 10 ** 12)


def exc_kind(e) -> str:
    name = type(e).__name__
    if name == 'ValueError':
        return 'ERR value'
    if name == 'ZeroDivisionError':
        return 'ERR zerodiv'
    if name == 'IndexError':
        return 'ERR index'
    return f'EXC:{name}:{str(e)[:80]}'


def show_rates(values, spec):
    unit, tol = spec_grid(spec)
    values = list(values)
    if not values:
        return '-'
    return ','.join(snap_grid(v, unit, tol) for v in values)


# ------------------------------------------------------------------ implementation runners

def impl_range(spec):
    from panqec.cli import read_range_input
    try:
        return show_rates(read_range_input(spec), spec)
    except Exception as e:  # noqa: BLE001
        return exc_kind(e)


def show_eta_value(v):
    import numpy as np
    if isinstance(v, float) and v == np.inf:
        return 'inf'
    if isinstance(v, (int, np.integer)) and not isinstance(v, bool):
        return f'i{int(v)}'
    if isinstance(v, float):
        return f'f{v!r}={fr(Fraction(repr(v)))}'
    return f'RAW:{v!r}'


def impl_etas(s):
    from panqec.cli import read_bias_ratios
    try:
        vals = read_bias_ratios(s)
        return ','.join(show_eta_value(v) for v in vals) if vals else '-'
    except Exception as e:  # noqa: BLE001
        return exc_kind(e)


def show_direction(d: dict):
    if not d:
        return '{}'
    return ' '.join(f'{k}={snap_small(v)}' for k, v in d.items())


def impl_dir(axis, token):
    from panqec.cli import read_bias_ratios
    from panqec.utils import get_direction_from_bias_ratio
    try:
        eta = read_bias_ratios(token)[0]
        return show_direction(get_direction_from_bias_ratio(axis, eta))
    except Exception as e:  # noqa: BLE001
        return exc_kind(e)


ARG_ORDER = ['sizes', 'decoder_class', 'bias', 'eta', 'prob', 'code_class', 'noise_class',
             'deformation_name', 'method', 'label']


def argv_of(a: dict, data_dir: str):
    argv = ['-d', data_dir, '-s', a['sizes'], '--decoder_class', a['decoder_class'], '--bias', a['bias'],
            '--eta', a['eta'], '--prob', a['prob'], '--noise_class', a['noise_class'], '-m', a['method']]
    if a.get('code_class') is not None:
        argv += ['--code_class', a['code_class']]
    if a.get('deformation_name') is not None:
        argv += ['--deformation_name', a['deformation_name']]
    if a.get('label') is not None:
        argv += ['-l', a['label']]
    return argv


def op_args(a: dict) -> str:
    return ' '.join([tok(a['sizes']), tok(a['decoder_class']), a['bias'], tok(a['eta']), tok(a['prob']),
                     opt(a.get('code_class')), tok(a['noise_class']), opt(a.get('deformation_name')),
                     tok(a['method']), opt(a.get('label'))])


class Generated:
    """Result of running `panqec generate-input` for one argument set into a temp dir."""

    def __init__(self, a: dict, read_back=False):
        import panqec.cli as pcli
        from click.testing import CliRunner
        self.args = a
        self.exc = None
        self.files = {}          # name -> parsed json
        self.n_writes = 0
        self.back = {}           # name -> ('ok', label, method, sims) | ('exc', exception)
        with tempfile.TemporaryDirectory(prefix='verif_c19_') as d:
            real_dump = json.dump

            def counting_dump(*aa, **kw):
                self.n_writes += 1
                return real_dump(*aa, **kw)
            with mock.patch.object(pcli.json, 'dump', counting_dump):
                res = CliRunner().invoke(pcli.generate_input, argv_of(a, d))
            if res.exception is not None and not isinstance(res.exception, SystemExit):
                self.exc = res.exception
            elif res.exit_code != 0:
                self.exc = RuntimeError(f'exit code {res.exit_code}: {res.output[-300:]}')
            in_dir = os.path.join(d, 'inputs')
            names = sorted(os.listdir(in_dir)) if os.path.isdir(in_dir) else []
            self.other = [n for n in os.listdir(d) if n != 'inputs']
            for n in names:
                try:
                    with open(os.path.join(in_dir, n)) as f:
                        self.files[n] = json.load(f)
                except Exception as e:  # noqa: BLE001
                    self.files[n] = {'__unreadable__': f'{type(e).__name__}: {e}'}
            if read_back:
                from panqec.simulation import read_input_json
                for n in names:
                    out = os.path.join(d, 'out_' + n + '.json.gz')
                    try:
                        with contextlib.redirect_stdout(io.StringIO()), warnings.catch_warnings():
                            warnings.simplefilter('ignore')
                            b = read_input_json(os.path.join(in_dir, n), out)
                        sims = []
                        for s in b._simulations:
                            sims.append({
                                'L': (s.code.L_x, s.code.L_y, s.code.L_z),
                                'size': tuple(s.code.size), 'code': type(s.code).__name__,
                                'rates': ([s.error_rate] if hasattr(s, 'error_rate')
                                          else [float(x) for x in s.error_rates]),
                                'direction': tuple(s.error_model.direction),
                                'deformation': getattr(s.error_model, '_deformation_name', None),
                                'noise': type(s.error_model).__name__,
                                'decoder': type(s.decoder if hasattr(s, 'decoder')
                                                else s.decoders[0]).__name__,
                                'kind': type(s).__name__,
                            })
                        self.back[n] = ('ok', b.label, b.method, sims)
                    except Exception as e:  # noqa: BLE001
                        self.back[n] = ('exc', e)


def show_params(p):
    if not isinstance(p, dict):
        return f'RAW:{p!r}'
    return '{' + ','.join(f'{k}={v}' for k, v in p.items()) + '}'


def show_file(name, data, prob):
    if '__unreadable__' in data:
        return f'{name}|UNREADABLE {data["__unreadable__"]}'
    if set(data) != {'comments', 'ranges'} or data['comments'] != '':
        return f'{name}|BAD top-level keys {sorted(data)}'
    r = data['ranges']
    if list(r) != ['label', 'method', 'code', 'error_model', 'decoder', 'error_rate']:
        return f'{name}|BAD ranges keys {list(r)}'
    code = r['code']
    sizes = []
    for p in code.get('parameters', []):
        if list(p) != ['L_x', 'L_y', 'L_z']:
            sizes.append('BADKEYS')
        else:
            sizes.append(f'{p["L_x"]}x{p["L_y"]}x{p["L_z"]}')
    noise = dict(r['error_model']['parameters'])
    deformation = noise.pop('deformation_name', None)
    return (f'{name}|label={r["label"]}'
            f'|method={r["method"]["name"]}{show_params(r["method"]["parameters"])}'
            f'|code={"None" if code["name"] is None else "=" + code["name"]}[{",".join(sizes)}]'
            f'|noise={r["error_model"]["name"]}{{{show_direction(noise)}}}'
            f'|deformation={"None" if deformation is None else "=" + deformation}'
            f'|decoder={r["decoder"]["name"]}{show_params(r["decoder"]["parameters"])}'
            f'|rates={show_rates(r["error_rate"], prob)}')


def impl_geninput(g: Generated):
    parts = [show_file(n, g.files[n], g.args['prob']) for n in sorted(g.files)]
    out = f'writes={g.n_writes} ' + ' ;; '.join(parts)
    if g.exc is not None:
        out += ' ;; ' + exc_kind(g.exc)
    return out


def impl_readback(g: Generated):
    unit, tol = spec_grid(g.args['prob'])
    parts = []
    for n in sorted(g.files):
        r = g.files[n].get('ranges', {})
        head = f'{n}|'
        b = g.back.get(n)
        if b is None:
            parts.append(head + 'NOT-READ')
        elif b[0] == 'exc':
            parts.append(head + f'{r.get("label")}|{r.get("method", {}).get("name")}|' + exc_kind(b[1]))
        else:
            _, label, method, sims = b
            ss = ' '.join(f'{s["L"][0]}x{s["L"][1]}x{s["L"][2]}@' +
                          ','.join(snap_grid(v, unit, tol) for v in sorted(s["rates"])) for s in sims)
            parts.append(head + f'{label}|{method}|{len(sims)}:{ss}')
    return ' ;; '.join(parts)


# ------------------------------------------------------------------ generators

def dec_str(k: int, d: int, rng, loose=True) -> str:
    """k * 10^-d as a decimal literal (optionally with trimmed / padded zeros)"""
    sign = '-' if k < 0 else ''
    k = abs(k)
    if d == 0:
        return sign + str(k)
    s = str(k).rjust(d + 1, '0')
    out = s[:-d] + '.' + s[-d:]
    if loose:
        u = rng.random()
        if u < 0.25 and '.' in out:
            out = out.rstrip('0')
            if out.endswith('.'):
                out = out[:-1] if rng.random() < 0.7 else out + '0'
        elif u < 0.32 and out.startswith('0.'):
            out = out[1:]
        elif u < 0.38:
            out = out + '0'
    return sign + out


def gen_range_spec(rng, big=False):
    """a min:max:step spec on a decimal grid; returns the spec string"""
    d = int(rng.integers(1, 4))
    s = int(rng.choice([1, 2, 5, 10, 25, 3, 7, int(rng.integers(1, 40))]))
    a = int(rng.integers(0, 60))
    kmax = 400 if big else 30
    k = int(rng.integers(0, kmax))
    extra = 0 if rng.random() < 0.6 else int(rng.integers(0, s))
    b = a + k * s + extra
    return f'{dec_str(a, d, rng)}:{dec_str(b, d, rng)}:{dec_str(s, d, rng)}'


def gen_default_step_spec(rng):
    # min:max with the default step 0.005
    a = int(rng.integers(0, 40))
    k = int(rng.integers(0, 60))
    extra = 0 if rng.random() < 0.6 else int(rng.integers(0, 5))
    b = a * 5 + k * 5 + extra
    return f'{dec_str(a * 5, 3, rng)}:{dec_str(b, 3, rng)}'


def gen_list_spec(rng):
    d = int(rng.integers(1, 4))
    n = int(rng.integers(2, 6))
    return ','.join(dec_str(int(rng.integers(0, 10 ** d)), d, rng) for _ in range(n))


def gen_prob(rng, big=False):
    u = rng.random()
    if u < 0.55:
        return gen_range_spec(rng, big)
    if u < 0.7:
        return gen_default_step_spec(rng)
    if u < 0.88:
        return gen_list_spec(rng)
    d = int(rng.integers(1, 4))
    return dec_str(int(rng.integers(0, 10 ** d)), d, rng)


def gen_eta_token(rng, nonneg=True, integral_ok=True):
    u = rng.random()
    if u < 0.2:
        return 'inf'
    if u < 0.55:
        v = int(rng.choice([0, 1, 2, 3, 5, 10, 30, 100, 300, 1000, int(rng.integers(0, 10 ** 5))]))
        t = str(v)
        if rng.random() < 0.1:
            t = '+' + t
        if not nonneg and rng.random() < 0.2:
            t = '-' + str(v + 2)       # never -1
        return t
    d = int(rng.integers(1, 4))
    k = int(rng.integers(1, 10 ** d * int(rng.choice([1, 1, 10, 500]))))
    if integral_ok is False and k % 10 ** d == 0:
        k += 1            # '2.0' makes read_bias_ratios raise (int('2.0')); kept out of the oracle inputs
    t = dec_str(k, d, rng)
    if not nonneg and rng.random() < 0.15:
        kk = k if k % 10 ** d else k + 1
        if abs(Fraction(kk, 10 ** d) - 1) > Fraction(1, 20):   # stay away from the pole at -1
            t = '-' + dec_str(kk, d, rng)
    return t


def pad(t, rng):
    u = rng.random()
    return (' ' + t) if u < 0.1 else ((t + ' ') if u < 0.2 else t)


def gen_eta_string(rng, nonneg=True, distinct=False, integral_ok=True):
    n = int(rng.choice([1, 1, 2, 3, 4]))
    toks = [gen_eta_token(rng, nonneg, integral_ok) for _ in range(n)]
    if distinct:
        seen, out = set(), []
        for t in toks:
            key = INF if t == 'inf' else Fraction(t)
            if key not in seen:
                seen.add(key)
                out.append(t)
        toks = out
    return ','.join(pad(t, rng) for t in toks)


CODES_2D = ['Toric2DCode', 'Planar2DCode', 'RotatedPlanar2DCode']
CODES_3D = ['Toric3DCode', 'Planar3DCode', 'RotatedPlanar3DCode', 'XCubeCode', 'RhombicToricCode']


def gen_sizes(rng, dim=None, positive=True):
    n = int(rng.integers(1, 4))
    out = []
    for _ in range(n):
        k = int(rng.choice([1, 2, 3])) if dim is None else int(rng.choice([1, dim]))
        L = [int(rng.integers(2, 7)) for _ in range(k)]
        out.append('x'.join(map(str, L)))
    return ','.join(out)


def gen_args(rng, valid=True, big=False):
    dim = int(rng.choice([2, 3]))
    code = str(rng.choice(CODES_2D if dim == 2 else CODES_3D))
    decoder = str(rng.choice(['BeliefPropagationOSDDecoder', 'MatchingDecoder'] if dim == 2
                             else ['BeliefPropagationOSDDecoder']))   # constructors that stay lazy
    a = {
        'sizes': gen_sizes(rng, dim if valid else None),
        'decoder_class': decoder,
        'bias': str(rng.choice(['X', 'Y', 'Z'])),
        'eta': gen_eta_string(rng, nonneg=valid),
        'prob': gen_prob(rng, big),
        'code_class': code if (valid or rng.random() < 0.7) else None,
        'noise_class': 'PauliErrorModel',
        'deformation_name': None if rng.random() < 0.5 else str(rng.choice(['XZZX', 'XY'])),
        'method': 'direct' if rng.random() < 0.8 else 'splitting',
        'label': None if rng.random() < 0.3 else str(rng.choice(['lab', 'run_1', 'toric-3d', 'a.b', 'x_eta-1'])),
    }
    return a


MALFORMED_RANGE = ['abc', '0.1:abc', 'abc:0.3', '0.1:0.3:x', '', ':', '0:1:0', '0.5:1:0.0', '1:0:0.1',
                   '0.3:0.1:0.1', '0:1:-0.1', '0.1:0.3:0.1:7', '0.1:0.2:0.05:', '0.2:0.2:0.1', '0.1,', ',',
                   '0.1,abc', '1..2', '--1', '0.1:0.3:', ' 0.1 : 0.3 : 0.1 ', '+0.1:+0.3:+0.1', '-0.3:-0.1:0.1',
                   '-0.2:0.2:0.1', '0.1:0.3:0.1', '0:0.6:0.005', '0:0.5:0.005', '0.1:0.35:0.1', '0:1:0.3',
                   '.1:.3:.1', '1.:2.:.5', '.', '+', '-', '1,2,3', '0.5']
MALFORMED_ETA = ['10.0', '5.', 'abc', '', '1,,2', ',', '1,', '-1', '-0', '+5', ' 5 ', '0.50', '.5', '007', '-0.5',
                 'inf', ' inf', 'inf ,1', '0', '0.0', '-0.0', '1.50,1.5', 'inf,inf', '3,3', '0.25,0.250', '1..5',
                 '--2', '+-2', '12 3', '0.125', '1000000', '1234.567']
MALFORMED_SIZES = ['3x3,', 'axb', '3x', 'x3', '', ',', '3', '3x4', '3x4x5', '3x4x5x6', '3x4x5x6x7', ' 3 x 4 ',
                   '+3x-4', '0x0', '3.0x3', '3x3;4x4', '2x2,3', '-2']


def correspondence(ctx):
    rng = ctx.np_rng(19)
    streams = []
    big = ctx.thorough

    # --- read_range_input on decimal grids
    s = Stream('read_range_input')
    specs = list(MALFORMED_RANGE)
    n = 1500 if big else 350
    for _ in range(n):
        specs.append(gen_prob(rng, big=True))
    for spec in specs:
        ans = impl_range(spec)
        s.add(f'range {tok(spec)}', ans, {'fn': 'read_range_input', 'spec': spec},
              nontrivial=not ans.startswith('ERR'),
              tag='error' if ans.startswith('ERR') else ('range' if ':' in spec else ('list' if ',' in spec else 'single')))
    streams.append(s.run())

    # --- read_bias_ratios and get_direction_from_bias_ratio
    s = Stream('bias-ratios-and-direction')
    strings = list(MALFORMED_ETA) + [gen_eta_string(rng, nonneg=False) for _ in range(600 if big else 150)]
    for st in strings:
        ans = impl_etas(st)
        s.add(f'etas {tok(st)}', ans, {'fn': 'read_bias_ratios', 'eta': st},
              nontrivial=not ans.startswith('ERR'), tag='etas-error' if ans.startswith('ERR') else 'etas')
    tokens = ['inf', '0', '1', '3', '0.5', '10', '100', '1000', '-1', '-3', '-0.5', '0.125', '7', '10.0', 'x',
              '0.001', '999.999', '100000']
    tokens += [gen_eta_token(rng, nonneg=False) for _ in range(400 if big else 100)]
    for t in tokens:
        for axis in 'XYZ':
            ans = impl_dir(axis, t)
            s.add(f'dir {axis} {tok(t)}', ans, {'fn': 'get_direction_from_bias_ratio', 'axis': axis, 'eta': t},
                  nontrivial=not ans.startswith('ERR'), tag='dir-error' if ans.startswith('ERR') else 'dir')
    streams.append(s.run())

    # --- generate-input: the files on disk, and their read-back
    s = Stream('generate-input-files')
    sb = Stream('generate-input-read-back')
    cases = []
    for _ in range(260 if big else 70):
        cases.append((gen_args(rng, valid=True, big=big), True))
    for _ in range(120 if big else 30):
        cases.append((gen_args(rng, valid=False), False))
    base = gen_args(ctx.np_rng(190), valid=True)
    base.update(method='direct', eta='0.5', prob='0.1:0.3:0.1', sizes='3x3', label='lab')
    for sz in MALFORMED_SIZES:
        cases.append((dict(base, sizes=sz), False))
    for e in MALFORMED_ETA:
        cases.append((dict(base, eta=e), False))
    for p in MALFORMED_RANGE[:24]:
        cases.append((dict(base, prob=p), False))
    for e in ['1,-1,2', '0.5,x', '2,3,-1', 'inf,-1']:         # the loop stops after some files are written
        cases.append((dict(base, eta=e), False))
    cases.append((dict(base, eta='0.5,10,inf', sizes='2x2,3x4,2x3x4', deformation_name='XZZX'), True))
    cases.append((dict(base, eta='1,2', label='x_eta-1'), True))
    cases.append((dict(base, method='splitting'), True))
    cases.append((dict(base, label=None, code_class=None), False))
    for a, back in cases:
        g = Generated(a, read_back=back)
        ans = impl_geninput(g)
        s.add('geninput ' + op_args(a), ans, {'fn': 'generate-input', 'args': a},
              nontrivial=bool(g.files), tag=('error' if g.exc is not None else a['method']))
        if back and g.exc is None:
            sb.add('readback ' + op_args(a), impl_readback(g), {'fn': 'generate-input + read_input_json', 'args': a},
                   nontrivial=bool(g.files), tag=a['method'])
    streams.append(s.run())
    streams.append(sb.run())
    return streams


# ------------------------------------------------------------------ oracle (statement level)

def exact_rates(prob: str):
    """The requested error rates, from the statement: min + i*step for i <= floor((max-min)/step)."""
    if ':' in prob:
        parts = prob.split(':')
        mn, mx = Fraction(parts[0].strip()), Fraction(parts[1].strip())
        step = Fraction(parts[2].strip()) if len(parts) == 3 else Fraction(5, 1000)
        n = (mx - mn) // step
        return [mn + i * step for i in range(int(n) + 1)]
    return [Fraction(x.strip()) for x in prob.split(',')]


def check_range(case):
    from panqec.cli import read_range_input
    spec = case['prob']
    try:
        vals = read_range_input(spec)
    except Exception as e:  # noqa: BLE001
        return f'read_range_input raised {type(e).__name__}: {e}'
    want = exact_rates(spec)
    unit, tol = spec_grid(spec)
    if ':' in spec:
        mx = float(spec.split(':')[1])
        if any(v > mx for v in vals):
            return f'value {max(vals)!r} beyond max {mx!r}'
    got = [snap_grid(v, unit, tol) for v in vals]
    if got != [fr(w) for w in want]:
        return f'values {vals[:4]}..{vals[-2:]} ({len(vals)}) are not the progression {[str(w) for w in want[:3]]}..' \
               f'{[str(w) for w in want[-2:]]} ({len(want)})'
    return None


def requested(a):
    sizes = []
    for sz in a['sizes'].split(','):
        L = [int(x) for x in sz.split('x')]
        sizes.append(L)
    etas = []
    for t in a['eta'].split(','):
        t = t.strip()
        etas.append(INF if t == 'inf' else Fraction(t))
    return sizes, etas, exact_rates(a['prob'])


def size_for(L, dim):
    """what a size entry means for a code of the given dimension: [L] -> (L,)*dim, [a,b] -> (a,b[,a])"""
    if len(L) == 1:
        return tuple([L[0]] * dim)
    if dim == 2:
        return (L[0], L[1])
    return (L[0], L[1], L[2] if len(L) >= 3 else L[0])


def check_generate(case):
    """C19 as stated, on the implementation, for one generate-input command line.
    Returns None or (stage, message)."""
    a = case['args']
    from panqec.config import CODES
    g = Generated(a, read_back=True)
    if g.exc is not None:
        return 'files', f'generate-input raised {type(g.exc).__name__}: {g.exc}'
    sizes, etas, rates = requested(a)
    distinct = []
    for e in etas:
        if e not in distinct:
            distinct.append(e)
    if len(g.files) != len(distinct):
        return 'files', f'{len(distinct)} bias ratios requested, {len(g.files)} files written: {sorted(g.files)}'
    if g.other:
        return 'files', f'unexpected entries in data_dir: {g.other}'
    dim = CODES[a['code_class']].dimension
    want_sizes = sorted(size_for(L, dim) for L in sizes)
    unit, tol = spec_grid(a['prob'])
    axis = {'X': 0, 'Y': 1, 'Z': 2}[a['bias']]
    seen_etas = []
    label = a['label'] if a['label'] is not None else 'experiment'
    for name in sorted(g.files):
        data = g.files[name]
        if '__unreadable__' in data:
            return 'files', f'{name}: not valid JSON'
        r = data['ranges']
        if not name.startswith(label) or not name.endswith('.json'):
            return 'files', f'file name {name} does not carry the label {label}'
        # noise direction <-> bias ratio
        p = r['error_model']['parameters']
        d = [p.get('r_x'), p.get('r_y'), p.get('r_z')]
        if any(x is None for x in d):
            return 'files', f'{name}: direction {p}'
        if any(x < 0 for x in d) or abs(sum(d) - 1) > 1e-12:
            return 'files', f'{name}: direction {d} is not a probability vector'
        others = [d[i] for i in range(3) if i != axis]
        if abs(others[0] - others[1]) > 1e-12:
            return 'files', f'{name}: the two unbiased components differ: {d}'
        if others[0] + others[1] == 0:
            eta = INF if d[axis] == 1 else None
        else:
            eta = Fraction(d[axis]) / (Fraction(others[0]) + Fraction(others[1]))
        match = None
        for e in distinct:
            if e == INF and eta == INF:
                match = e
            elif e != INF and eta not in (INF, None) and abs(eta - e) <= Fraction(1, 10 ** 9) * max(1, e):
                match = e
        if match is None:
            return 'files', f'{name}: direction {d} (bias {a["bias"]}) matches none of the requested ratios ' \
                            f'{[str(e) for e in distinct]}'
        seen_etas.append(match)
        if p.get('deformation_name') != a['deformation_name']:
            return 'files', f'{name}: deformation_name {p.get("deformation_name")!r}'
        if r['code']['name'] != a['code_class'] or r['decoder']['name'] != a['decoder_class'] \
                or r['error_model']['name'] != a['noise_class'] or r['method']['name'] != a['method'] \
                or r['label'] != label:
            return 'files', f'{name}: names {r["code"]["name"]}/{r["decoder"]["name"]}/' \
                            f'{r["error_model"]["name"]}/{r["method"]["name"]}/{r["label"]}'
        if ':' in a['prob']:
            mx = float(a['prob'].split(':')[1])
            if any(v > mx for v in r['error_rate']):
                return 'files', f'{name}: error rate {max(r["error_rate"])!r} beyond max {mx!r}'
        got_rates = [snap_grid(v, unit, tol) for v in r['error_rate']]
        if got_rates != [fr(x) for x in rates]:
            return 'files', f'{name}: error rates {r["error_rate"][:3]}..({len(got_rates)}) requested ' \
                            f'{[str(x) for x in rates[:3]]}..({len(rates)})'
    if sorted(map(str, seen_etas)) != sorted(map(str, distinct)):
        return 'files', f'bias ratios on disk {sorted(map(str, seen_etas))}, requested {sorted(map(str, distinct))}'
    # read back by the simulator
    for name in sorted(g.files):
        b = g.back[name]
        if b[0] == 'exc':
            return 'read-back', f'{name}: read_input_json raised {type(b[1]).__name__}: {b[1]}'
        _, blabel, bmethod, sims = b
        if blabel != label or bmethod != a['method']:
            return 'read-back', f'{name}: batch label/method {blabel}/{bmethod}'
        got = sorted((s['size'], snap_grid(v, unit, tol)) for s in sims for v in s['rates'])
        kinds = {s['kind'] for s in sims}
        if kinds != {'DirectSimulation' if a['method'] == 'direct' else 'SplittingSimulation'}:
            return 'read-back', f'{name}: simulations of kind {sorted(kinds)} for method {a["method"]}'
        want = sorted((sz, fr(x)) for sz in want_sizes for x in rates)
        if got != want:
            return 'read-back', f'{name}: {len(got)} (size, rate) pairs read back, {len(want)} requested ' \
                                f'(sizes {want_sizes} x {len(rates)} rates); first got {got[:3]}'
        fd = g.files[name]['ranges']['error_model']['parameters']
        for s in sims:
            if s['code'] != CODES[a['code_class']].__name__ or s['decoder'] != a['decoder_class'] \
                    or s['deformation'] != a['deformation_name']:
                return 'read-back', f'{name}: simulation with {s["code"]}/{s["decoder"]}/{s["deformation"]}'
            if list(s['direction']) != [fd['r_x'], fd['r_y'], fd['r_z']]:
                return 'read-back', f'{name}: simulation direction {s["direction"]}'
    return None


def check_case(case):
    if case['kind'] == 'range':
        return check_range(case)
    res = check_generate(case)
    return None if res is None else f'[{res[0]}] {res[1]}'


def case_key(case):
    if case['kind'] == 'range':
        return {'kind': 'range'}
    res = case.get('_stage')
    return {'kind': 'generate-input', 'method': case['args']['method'], 'stage': res}


def oracle_cases(ctx, deep):
    rng = ctx.np_rng(91)
    cases = [{'kind': 'range', 'prob': p} for p in
             ['0.1:0.3:0.1', '0:0.6:0.005', '0:0.5:0.005', '0.1:0.35:0.1', '0.01:0.07:0.01', '0.1:0.7:0.1',
              '0:1:0.3', '0.2:0.2:0.1', '0.05:0.5', '0.1,0.2', '0.5', '0.15:0.45:0.15', '0:0.3:0.1']]
    for _ in range(3000 if deep else 500):
        u = rng.random()
        cases.append({'kind': 'range', 'prob': gen_range_spec(rng, big=True) if u < 0.8
                      else gen_default_step_spec(rng)})
    base = {'sizes': '3x3', 'decoder_class': 'BeliefPropagationOSDDecoder', 'bias': 'Z', 'eta': '0.5,10,inf',
            'prob': '0.1:0.3:0.1', 'code_class': 'Toric2DCode', 'noise_class': 'PauliErrorModel',
            'deformation_name': None, 'method': 'direct', 'label': 'lab'}
    gens = [dict(base), dict(base, eta='0.5'), dict(base, label=None), dict(base, bias='X', deformation_name='XZZX'),
            dict(base, sizes='2x2,3x4,2x3x4', code_class='Toric3DCode', bias='Y'),
            dict(base, method='splitting', decoder_class='MatchingDecoder'),
            dict(base, sizes='4,3x5', eta='0,1,3', prob='0.05,0.1'),
            dict(base, eta='0.1,0.2,0.3,0.4'), dict(base, eta='1,1.5,2.5,2', bias='X'),
            dict(base, eta='10,10.5,inf,1000', bias='Y'), dict(base, eta='0,0.25', prob='0.3'),
            # ratios whose textual forms are close (digits/dots/leading zeros): each must keep its own file
            dict(base, eta='0.5,1.5,3,15,100'), dict(base, eta='2.5,25,250,inf', bias='X'),
            dict(base, eta='1,10,100,1000,0.1,0.01'), dict(base, eta='1.25,12.5,125', bias='Y'),
            dict(base, eta='30000,300000,10000000,inf', prob='0.1'),
            dict(base, sizes='3x4,4x3,5', prob='0:0.06'), dict(base, sizes='2x3x4,4', code_class='Planar3DCode'),
            # the low-error-rate regime (what the splitting method exists for): rates finer than 1e-4 and 1e-6
            dict(base, prob='0:0.001:0.00025', eta='0.5'), dict(base, prob='0.00012,0.00016', eta='10'),
            dict(base, prob='0.00003', eta='inf'),
            dict(base, method='splitting', decoder_class='MatchingDecoder', prob='0.00001:0.00005:0.00001', eta='0.5'),
            dict(base, prob='0:0.00001:0.0000025', eta='3'), dict(base, prob='0.0000001,0.0000005,0.000001', eta='1'),
            dict(base, prob='0.00000025', eta='0.5')]
    for _ in range(400 if deep else 60):
        a = gen_args(rng, valid=True, big=deep)
        a['eta'] = gen_eta_string(rng, nonneg=True, integral_ok=False)
        gens.append(a)
    cases += [{'kind': 'generate', 'args': a} for a in gens]
    return cases


def oracle(ctx, deep=False, broken=None):
    cases = oracle_cases(ctx, deep)

    def check(case):
        if case['kind'] == 'range':
            return check_range(case)
        res = check_generate(case)
        if res is None:
            return None
        case['_stage'] = res[0]
        return f'[{res[0]}] {res[1]}'

    fails = first_failures(cases, check, key=case_key)
    for f in fails:
        f['input'] = {k: v for k, v in f['input'].items() if k != '_stage'}
    return fails, {'evaluations': len(cases)}


def replay(ctx, payload):
    return check_case(payload['input']) is not None
