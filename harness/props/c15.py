"""C15 - analysis aggregates are conserved however results are split."""
from __future__ import annotations

import gzip
import json
import math
import os
import shutil
import tempfile
import warnings
import zipfile
from decimal import Decimal, getcontext
from fractions import Fraction

from harness.core import Stream
from harness.util import first_failures

ID = 'C15'
LEVEL = 'proof'
LEVEL_TEXT = ('Lean theorems for every list of result containers (dicts, arbitrarily nested lists, merged files), '
              'every partition of a trial multiset into entries and every order of files, entries and trials: the '
              'pooled n_trials, n_fail, wall_time, sector counts n_trials_X/Z, n_fail_X/Z and the single-logical-qubit '
              'pattern counts depend only on the multiset of trials of each input key; n_fail counts the unsuccessful '
              'trials, p_est = n_fail/n_trials, SE radicand p(1-p)/(n+1) in [0, 1/(4(n+1))], sector counts are the flagged '
              'logical bits among in-codespace trials, the word rate satisfies (1-p_word)^k = 1-p with the first-order '
              'propagated SE (HasDerivAt over the reals), single-qubit rates are pattern counts over n_results each with '
              'its own SE.  The model is tied to analysis.py by differential runs through real .json/.json.gz/.zip/'
              'merge-results files.')
LEVEL_NOTE = ('trusted: Lean kernel + standard axioms; correspondence harness; json/gzip/zip codecs and the file system are '
              'the identity on data; pandas groupby/sum/concatenate semantics as modelled in Model/Analysis.lean; float '
              'columns are compared with the exact rational / exact algebraic relation by bracketing with relative '
              'slack 1e-12 (float formatting), not bit for bit.  Zero-trial entries are pooled (concatenate_nonempty, '
              'commit ad5e045); pools without any trial (0/0 rates) are modelled but not compared.')
TECHNIQUE = ('Lean 4 proof (List.Perm / filter / countP algebra, Rat field arithmetic, Mathlib rpow derivative) + '
             'differential correspondence with the compiled model driver')
TRUSTED = ['json/gzip/zipfile codecs, pathlib.rglob and the merge-results CLI file plumbing are the identity on the '
           'parsed data (exercised on every run)',
           'numpy/pandas: groupby(...).sum(), np.concatenate, boolean-mask indexing, uint8 block sums do not wrap for '
           'fewer than 2^64 trials (modelled in Model/Analysis.lean)',
           'IEEE double arithmetic of the derived rates is within relative 1e-12 of the exact value (bracketed exactly '
           'by the model driver)']
ASSUMPTIONS = ['effective_error rows of one entry have equal length (numpy would reject ragged input) and entries 0/1',
               'k >= 1', 'error rates are not within 1e-9 of a half-way point of the 6-digit rounding',
               'result files are found once (a file listed twice is counted twice, as the code does)']
ANCHOR_FILES = ['panqec/analysis.py', 'panqec/cli.py', 'panqec/utils.py']
RULE = ('aggregate stream: one op per file set (whole Analysis pipeline), integer columns compared as text; rates '
        'streams: one op per result row, float columns bracketed by the model; distinct = distinct op lines flagged '
        'non-trivial')

REL = 1e-12
VARIANTS = [
    ({'r_x': 0.25, 'r_y': 0.25, 'r_z': 0.5}, {'error_type': None, 'weights': None}, 'MatchingDecoder'),
    ({'r_x': 0.0, 'r_y': 0.0, 'r_z': 1.0}, {'error_type': None, 'weights': None}, 'MatchingDecoder'),
    ({'r_x': 0.25, 'r_y': 0.25, 'r_z': 0.5}, {'max_bp_iter': 10}, 'BeliefPropagationOSDDecoder'),
]
RATES = ['0.05', '0.1', '0.10000004', '0.1000006', '0.2', '0.123456', '0.3', '0.0499996']


# ------------------------------------------------------------------ scenario -> files

def make_inputs(inp, rate):
    k, L, v = inp['k'], inp['L'], inp['variant']
    em, dec, dec_name = VARIANTS[v]
    return {
        'code': {'name': 'Toric2DCode' if k == 2 else ('Planar2DCode' if k == 1 else 'Toric3DCode'),
                 'parameters': {'L_x': L, 'L_y': L}, 'n': 2 * L * L, 'k': k, 'd': L},
        'error_model': {'name': 'PauliErrorModel',
                        'parameters': dict(em, deformation_name=None, deformation_kwargs={})},
        'decoder': {'name': dec_name, 'parameters': dict(dec)},
        'error_rate': float(rate),
        'method': {'name': 'direct', 'parameters': {}},
    }


def input_sig(code, code_params, n, k, d, em, em_params, dec, dec_params):
    return json.dumps([code, code_params, int(n), int(k), int(d), em, em_params, dec, dec_params],
                      sort_keys=True, default=str)


def entry_json(spec, e):
    inp = spec['inputs'][e['inp']]
    return {
        'results': {
            'n_runs': len(e['ee']), 'wall_time': float(Fraction(e['wall'])),
            'effective_error': [[int(c) for c in r] for r in e['ee']],
            'success': [c == '1' for c in e['su']],
            'codespace': [c == '1' for c in e['cs']],
        },
        'inputs': make_inputs(inp, e['rate']),
    }


def shape_json(spec, shape):
    if isinstance(shape, int):
        return entry_json(spec, spec['entries'][shape])
    return [shape_json(spec, s) for s in shape]


def write_plain(data, path, gz):
    os.makedirs(os.path.dirname(path), exist_ok=True)
    if gz:
        with gzip.open(path, 'wb') as f:
            f.write(json.dumps(data).encode('utf-8'))
    else:
        with open(path, 'w') as f:
            json.dump(data, f)


def materialise(spec, root):
    """Write the files of a scenario under `root`; returns the list of paths for Analysis."""
    from click.testing import CliRunner
    from panqec.cli import cli
    stage = root + '_stage'
    paths_by_file = []
    zips = {}
    for i, f in enumerate(spec['files']):
        d = os.path.join(root, f.get('dir', ''))
        fmt = f['fmt']
        if fmt in ('json', 'gz'):
            p = os.path.join(d, f'f{i}.json' + ('.gz' if fmt == 'gz' else ''))
            write_plain(shape_json(spec, f['shape']), p, fmt == 'gz')
            paths_by_file.append(p)
        elif fmt in ('zip-json', 'zip-gz'):
            zp = os.path.join(d, f['zip'] + '.zip')
            member = f"{f.get('member_dir', 'results')}/f{i}.json" + ('.gz' if fmt == 'zip-gz' else '')
            raw = json.dumps(shape_json(spec, f['shape'])).encode('utf-8')
            if fmt == 'zip-gz':
                raw = gzip.compress(raw)
            zips.setdefault(zp, []).append((member, raw))
            paths_by_file.append(zp)
        elif fmt in ('merged-gz', 'merged-json'):
            parts = []
            for j, sub in enumerate(f['shape']):
                sp = os.path.join(stage, f'm{i}_{j}.json' + ('.gz' if j % 2 else ''))
                write_plain(shape_json(spec, sub), sp, bool(j % 2))
                parts.append(sp)
            os.makedirs(d, exist_ok=True)
            out = os.path.join(d, f'merged{i}.json' + ('.gz' if fmt == 'merged-gz' else ''))
            res = CliRunner().invoke(cli, ['merge-results', *parts, '-o', out])
            if res.exit_code != 0:
                raise RuntimeError(f'merge-results failed: {res.output[-300:]} {res.exception!r}')
            paths_by_file.append(out)
        else:
            raise ValueError(fmt)
    for zp, members in zips.items():
        os.makedirs(os.path.dirname(zp), exist_ok=True)
        with zipfile.ZipFile(zp, 'w') as zf:
            for member, raw in members:
                zf.writestr(member, raw)
    if spec.get('paths', 'dir') == 'dir':
        return [root]
    if spec['paths'] == 'str':
        return root
    seen = []
    for idx in spec.get('order', range(len(paths_by_file))):
        p = paths_by_file[idx]
        if p not in seen:
            seen.append(p)
    return seen


# ------------------------------------------------------------------ implementation

def classify_exc(e):
    name = type(e).__name__
    msg = str(e)
    if name == 'ValueError' and ('same number of dimensions' in msg or 'must match exactly' in msg):
        return 'ERR concat'
    if name == 'IndexError':
        return 'ERR index'
    return f'EXC:{name}:{msg[:80]}'


def run_analysis(spec):
    """Run the real pipeline on the files of a scenario.  Returns
    {'error': tag} or {'rows': {(inputId, micro): {...}}, 'sector_error': tag|None}."""
    from unittest import mock
    from panqec.analysis import Analysis
    root = tempfile.mkdtemp(prefix='c15_')
    try:
        paths = materialise(spec, os.path.join(root, 'data'))
        sigs = {}
        for i, inp in enumerate(spec['inputs']):
            j = make_inputs(inp, '0')
            sigs[input_sig(j['code']['name'], j['code']['parameters'], j['code']['n'], j['code']['k'],
                           j['code']['d'], j['error_model']['name'], j['error_model']['parameters'],
                           j['decoder']['name'], j['decoder']['parameters'])] = i
        with warnings.catch_warnings():
            warnings.simplefilter('ignore')
            try:
                a = Analysis(paths)
                res = a.get_results()
            except Exception as e:  # noqa: BLE001
                return {'error': classify_exc(e)}
            sector_error = None
            try:
                # the sector columns are computed by calculate_sector_thresholds; the threshold fit it
                # triggers afterwards is C16's business and is switched off here
                with mock.patch.object(Analysis, 'calculate_thresholds', lambda self, **kw: None):
                    a.calculate_sector_thresholds()
                res = a.get_results()
            except Exception as e:  # noqa: BLE001
                sector_error = classify_exc(e)
        rows = {}
        for _, r in res.iterrows():
            sig = input_sig(r['code'], r['code_params'], r['n'], r['k'], r['d'], r['error_model'],
                            r['error_model_params'], r['decoder'], r['decoder_params'])
            key = (sigs.get(sig, -1), int(round(float(r['error_rate']) * 1000000)))
            ee = r['effective_error']
            row = {
                'k': int(r['k']), 'nt': int(r['n_trials']), 'nf': int(r['n_fail']),
                'wall': Fraction(float(r['wall_time'])), 'ls': int(len(r['success'])),
                'st': int(sum(bool(x) for x in r['success'])), 'nres': int(ee.shape[0]),
                'p_est': float(r['p_est']), 'p_se': float(r['p_se']),
                'p_word_est': float(r['p_word_est']), 'p_word_se': float(r['p_word_se']),
                'sq_est': [[float(x) for x in rr] for rr in r['single_qubit_p_est']],
                'sq_se': [[float(x) for x in rr] for rr in r['single_qubit_p_se']],
            }
            if sector_error is None:
                row.update({
                    'csT': int(sum(bool(x) for x in r['codespace'])),
                    'ntX': int(r['n_trials_X']), 'nfX': int(r['n_fail_X']),
                    'ntZ': int(r['n_trials_Z']), 'nfZ': int(r['n_fail_Z']),
                    'p_est_X': float(r['p_est_X']), 'p_se_X': float(r['p_se_X']),
                    'p_est_Z': float(r['p_est_Z']), 'p_se_Z': float(r['p_se_Z']),
                })
            if key in rows:
                return {'error': f'duplicate-row {key}'}
            rows[key] = row
        return {'rows': rows, 'sector_error': sector_error}
    finally:
        shutil.rmtree(root, ignore_errors=True)
        shutil.rmtree(os.path.join(root, 'data_stage'), ignore_errors=True)


def sq_counts(row):
    """integer pattern counts recovered from the float estimates (est = c/nres exactly rounded)"""
    est = row['sq_est']
    if any(math.isnan(x) for rr in est for x in rr):
        return None
    return [[int(round(x * row['nres'])) for x in rr] for rr in est]


def show_counts(c):
    if c is None:
        return 'nan'
    if not c:
        return '-'
    return '/'.join(','.join(str(x) for x in rr) for rr in c)


def canon_impl(out):
    if 'error' in out:
        return out['error']
    keys = sorted(out['rows'])
    tot = []
    for key in keys:
        r = out['rows'][key]
        tot.append(f"{key[0]}:{key[1]} k={r['k']} nt={r['nt']} nf={r['nf']} wall={r['wall']} ls={r['ls']} "
                   f"st={r['st']} nres={r['nres']} sq={show_counts(sq_counts(r))}")
    if out['sector_error']:
        sec = out['sector_error']
    else:
        parts = []
        for key in keys:
            r = out['rows'][key]
            if r['ntX'] != r['ntZ']:
                return f'n_trials_X={r["ntX"]} != n_trials_Z={r["ntZ"]}'
            parts.append(f"{key[0]}:{key[1]} csT={r['csT']} ntX={r['ntX']} nfX={r['nfX']} nfZ={r['nfZ']}")
        sec = ';'.join(parts)
    return ';'.join(tot) + ' | ' + sec


# ------------------------------------------------------------------ model ops

def entry_token(spec, i):
    e = spec['entries'][i]
    inp = spec['inputs'][e['inp']]
    ee = '|'.join(e['ee']) if e['ee'] else '_'
    return (f"E:{e['inp']}:{Fraction(e['rate'])}:{inp['k']}:{Fraction(e['wall'])}:{ee}:"
            f"{e['su'] or '-'}:{e['cs'] or '-'}")


def shape_tokens(spec, shape):
    if isinstance(shape, int):
        return [entry_token(spec, shape)]
    out = ['[']
    for s in shape:
        out += shape_tokens(spec, s)
    out.append(']')
    return out


def agg_op(spec):
    toks = ['agg']
    for f in spec['files']:
        toks += shape_tokens(spec, f['shape'])
    return ' '.join(toks)


def fr(x):
    x = float(x)
    if math.isnan(x) or math.isinf(x):
        return 'nan'
    n, d = x.as_integer_ratio()
    return f'{n}/{d}' if d != 1 else str(n)


def rate_ops(out):
    """(op, expected, description) for the float columns of each row"""
    ops = []
    if 'rows' not in out:
        return ops
    for key in sorted(out['rows']):
        r = out['rows'][key]
        ops.append((f"rates {r['k']} {r['nt']} {r['st']} {r['ls']} {fr(r['p_est'])} {fr(r['p_se'])} "
                    f"{fr(r['p_word_est'])} {fr(r['p_word_se'])}", 'ok ok ok ok', 'rates', key))
        c = sq_counts(r)
        if c is not None and c:
            flat = [x for rr in c for x in rr]
            es = [fr(x) for rr in r['sq_est'] for x in rr]
            ss = [fr(x) for rr in r['sq_se'] for x in rr]
            ops.append((f"sq {r['nres']} {','.join(map(str, flat))} {','.join(es)} {','.join(ss)}", 'ok',
                        'single-qubit', key))
        if 'ntX' in r:
            for s in 'XZ':
                ops.append((f"sector {r['nt' + s]} {r['nf' + s]} {fr(r['p_est_' + s])} {fr(r['p_se_' + s])}",
                            'ok ok', f'sector-{s}', key))
    return ops


# ------------------------------------------------------------------ generators

def bits(rng, n, p=0.5):
    return ''.join('1' if rng.random() < p else '0' for _ in range(n))


def gen_trials(rng, k, n, mode):
    """list of (ee bitstring, success, codespace) - arbitrary patterns, not only decoder-like ones"""
    out = []
    for _ in range(n):
        if mode == 'uniform':
            out.append((bits(rng, 2 * k), rng.random() < 0.5, rng.random() < 0.6))
        elif mode == 'decoder':
            cs = rng.random() < 0.85
            ee = bits(rng, 2 * k, 0.15)
            out.append((ee, cs and '1' not in ee, cs))
        elif mode == 'allfail':
            out.append((bits(rng, 2 * k, 0.7), False, rng.random() < 0.5))
        elif mode == 'allok':
            out.append(('0' * (2 * k), True, True))
        else:  # dense
            out.append((bits(rng, 2 * k, 0.9), rng.random() < 0.1, rng.random() < 0.9))
    return out


def dyadic(rng):
    return f'{int(rng.integers(0, 64))}/8'


def split_random(rng, n, parts):
    cuts = sorted(rng.choice(np_arange(1, n), parts - 1, replace=False).tolist()) if parts > 1 else []
    idx = [0] + cuts + [n]
    return [(idx[i], idx[i + 1]) for i in range(parts)]


def np_arange(a, b):
    import numpy as np
    return np.arange(a, b)


def random_shape(rng, idxs, depth=0):
    """nested list structure over the entry indices (a lone int = a dict at file top level)"""
    if len(idxs) == 1 and rng.random() < 0.35:
        return idxs[0]
    out = []
    i = 0
    while i < len(idxs):
        if depth < 2 and rng.random() < 0.25:
            j = min(len(idxs), i + 1 + int(rng.integers(0, 3)))
            out.append(random_shape(rng, idxs[i:j], depth + 1) if j > i else [])
            i = j
        else:
            out.append(idxs[i])
            i += 1
    if depth < 2 and rng.random() < 0.1:
        out.append([])
    return out


def layout(rng, spec, n_entries, formats=None):
    """assign entries to files with random formats, nesting, directories"""
    order = [int(x) for x in rng.permutation(n_entries)]
    files = []
    i = 0
    fmts = formats or ['json', 'gz', 'zip-json', 'zip-gz', 'merged-gz', 'merged-json']
    dirs = ['', 'a', 'a/b', 'run2', 'deep/er/est']
    while i < len(order):
        j = min(len(order), i + 1 + int(rng.integers(0, 3)))
        idxs = order[i:j]
        fmt = fmts[int(rng.integers(0, len(fmts)))]
        f = {'fmt': fmt, 'dir': dirs[int(rng.integers(0, len(dirs)))]}
        if fmt.startswith('merged'):
            subs = []
            a = 0
            while a < len(idxs):
                b = min(len(idxs), a + 1 + int(rng.integers(0, 2)))
                subs.append(random_shape(rng, idxs[a:b]))
                a = b
            f['shape'] = subs
        else:
            f['shape'] = random_shape(rng, idxs)
        if fmt.startswith('zip'):
            f['zip'] = f'arch{int(rng.integers(0, 2))}'
            f['member_dir'] = ['results', 'results_1', 'x/y'][int(rng.integers(0, 3))]
        files.append(f)
        i = j
    spec['files'] = files
    mode = rng.random()
    if mode < 0.5:
        spec['paths'] = 'dir'
    elif mode < 0.6:
        spec['paths'] = 'str'
    else:
        spec['paths'] = 'files'
        spec['order'] = [int(x) for x in rng.permutation(len(files))]
    return spec


def gen_groups(rng, size):
    """inputs + pooled trial lists per (input, rate)"""
    n_inputs = int(rng.integers(1, 4))
    inputs = []
    for _ in range(n_inputs):
        inputs.append({'k': int(rng.choice([1, 2, 3])), 'L': int(rng.integers(2, 6)),
                       'variant': int(rng.integers(0, len(VARIANTS)))})
    # distinct (k, L, variant) so that the inputs are different keys
    seen = set()
    inputs = [x for x in inputs if not (tuple(x.values()) in seen or seen.add(tuple(x.values())))]
    groups = []
    for i, inp in enumerate(inputs):
        rates = [RATES[int(j)] for j in rng.choice(len(RATES), int(rng.integers(1, 4)), replace=False)]
        for rate in rates:
            if size == 'tiny':
                n = int(rng.integers(1, 4))
            elif size == 'small':
                n = int(rng.integers(1, 25))
            elif size == 'huge':
                n = int(rng.integers(400, 1500))
            else:
                n = int(rng.integers(25, 400))
            mode = ['uniform', 'decoder', 'allfail', 'allok', 'dense'][int(rng.choice(5, p=[.4, .3, .1, .1, .1]))]
            groups.append({'inp': i, 'rate': rate, 'trials': gen_trials(rng, inp['k'], n, mode)})
    return inputs, groups


def entries_of(rng, groups, max_parts=5):
    """random partition of every pooled trial list into entries, trials shuffled; now and then a part with
    zero trials (a run that saved before its first trial) is added"""
    entries = []
    for g in groups:
        for _ in range(int(rng.choice([0, 0, 0, 1, 2]))):
            entries.append({'inp': g['inp'], 'rate': g['rate'], 'wall': dyadic(rng), 'ee': [], 'su': '', 'cs': ''})
        ts = list(g['trials'])
        perm = rng.permutation(len(ts))
        ts = [ts[int(i)] for i in perm]
        parts = int(rng.integers(1, min(len(ts), max_parts) + 1))
        for a, b in split_random(rng, len(ts), parts):
            chunk = ts[a:b]
            entries.append({'inp': g['inp'], 'rate': g['rate'], 'wall': dyadic(rng),
                            'ee': [t[0] for t in chunk],
                            'su': ''.join('1' if t[1] else '0' for t in chunk),
                            'cs': ''.join('1' if t[2] else '0' for t in chunk)})
    return entries


def gen_scenario(rng, size='small', formats=None):
    inputs, groups = gen_groups(rng, size)
    spec = {'inputs': inputs, 'entries': entries_of(rng, groups)}
    return layout(rng, spec, len(spec['entries']), formats), groups


def gen_malformed(rng, kind):
    inputs = [{'k': int(rng.choice([1, 2])), 'L': 3, 'variant': 0}]
    k = inputs[0]['k']
    t = gen_trials(rng, k, int(rng.integers(2, 7)), 'uniform')

    def ent(ts, **kw):
        e = {'inp': 0, 'rate': '0.1', 'wall': dyadic(rng), 'ee': [x[0] for x in ts],
             'su': ''.join('1' if x[1] else '0' for x in ts), 'cs': ''.join('1' if x[2] else '0' for x in ts)}
        e.update(kw)
        return e
    if kind == 'empty-mixed':
        entries = [ent(t), ent([])]
        if rng.random() < 0.5:
            entries.reverse()
    elif kind == 'only-empty':
        entries = [ent([])] + ([ent([])] if rng.random() < 0.5 else [])
    elif kind == 'short-success':
        entries = [ent(t, su=bits(rng, len(t) - 1))]
    elif kind == 'long-success':
        entries = [ent(t, su=bits(rng, len(t) + 2))]
    elif kind == 'short-codespace':
        entries = [ent(t, cs=bits(rng, len(t) - 1))]
    elif kind == 'width-mismatch':
        entries = [ent(t), ent(t[:1], ee=[bits(rng, 2 * k + 2)])]
    elif kind == 'narrow':       # fewer columns than 2k: column index out of range
        entries = [ent(t, ee=[x[0][:k] for x in t])]
    elif kind == 'odd-width':
        entries = [ent(t, ee=[x[0] + '1' for x in t])]
    else:  # wide: more columns than 2k
        entries = [ent(t, ee=[x[0] + bits(rng, 2) for x in t])]
    spec = {'inputs': inputs, 'entries': entries}
    return layout(rng, spec, len(entries), ['json', 'gz'])


# Zero-trial entries pooled with non-empty ones (the defect fixed by ad5e045) are compared here and, with random
# layouts, in the main stream.  Pools with zero trials in total (0/0 rates) and entries whose columns have
# different lengths / widths are modelled (Model/Analysis.lean) but not compared: what numpy does with them is
# incidental to the property, a refactoring may change it.
MALFORMED = ['empty-mixed']


# ------------------------------------------------------------------ correspondence

def correspondence(ctx):
    rng = ctx.np_rng(15)
    streams = []
    agg = Stream('aggregate-files')
    rates = Stream('derived-rates')

    def one(spec, tag):
        out = run_analysis(spec)
        agg.add(agg_op(spec), canon_impl(out), spec, tag=tag,
                nontrivial=len(spec['entries']) > 1)
        for op, exp, kind, key in rate_ops(out):
            # the expected verdict is 'ok'; what is compared is the model's verdict on the implementation's floats
            rates.add(op, exp, {'spec': spec, 'row': list(key), 'columns': kind}, tag=kind)

    n_tiny, n_small, n_big = (150, 150, 20) if ctx.thorough else (18, 22, 2)
    for _ in range(6 if ctx.thorough else 0):
        one(gen_scenario(rng, 'huge')[0], 'huge')
    for _ in range(n_tiny):
        one(gen_scenario(rng, 'tiny')[0], 'tiny')
    for _ in range(n_small):
        one(gen_scenario(rng, 'small')[0], 'small')
    for _ in range(n_big):
        one(gen_scenario(rng, 'big')[0], 'big')
    streams.append(agg.run())
    streams.append(rates.run())

    mal = Stream('malformed-entries')
    rates_m = Stream('derived-rates-malformed')
    for kind in MALFORMED:
        for _ in range(12 if ctx.thorough else 4):
            spec = gen_malformed(rng, kind)
            out = run_analysis(spec)
            mal.add(agg_op(spec), canon_impl(out), spec, tag=kind)
            for op, exp, knd, key in rate_ops(out):
                rates_m.add(op, exp, {'spec': spec, 'row': list(key), 'columns': knd}, tag=knd)
    streams.append(mal.run())
    streams.append(rates_m.run())

    # rounding of the error rate to six digits (grouping key)
    rs = Stream('error-rate-rounding')
    import numpy as np
    import pandas as pd
    for _ in range(200 if ctx.thorough else 60):
        digits = int(rng.integers(1, 10))
        num = int(rng.integers(0, 10 ** digits))
        s = f'{num}/{10 ** digits}'
        x = num / 10 ** digits
        # keep away from ties of the 6-digit rounding
        if digits > 6 and abs((num * 10 ** (9 - digits)) % 1000 - 500) < 2:
            continue
        got = int(round(float(pd.Series([x]).round(6).iloc[0]) * 1000000))
        rs.add(f'rint6 {s}', str(got), {'rate': s}, tag=f'digits={digits}')
    streams.append(rs.run())
    return streams


# ------------------------------------------------------------------ oracle (independent of the Lean model)

def close(a, b, rel=REL, ab=0.0):
    if isinstance(b, float) and math.isnan(b):
        return math.isnan(a)
    if math.isnan(a):
        return False
    return abs(a - b) <= rel * abs(b) + ab


def dsqrt(fr_):
    getcontext().prec = 50
    return float((Decimal(fr_.numerator) / Decimal(fr_.denominator)).sqrt())


def expected_rows(spec):
    """The property as stated, from the pooled trial multiset of every key (plain Python, exact)."""
    getcontext().prec = 50
    pools = {}
    for e in spec['entries']:
        x = Fraction(e['rate']) * 1000000
        micro = int(x.numerator // x.denominator)
        rem = x - micro
        if rem > Fraction(1, 2) or (rem == Fraction(1, 2) and micro % 2 == 1):
            micro += 1
        key = (e['inp'], micro)
        pools.setdefault(key, {'trials': [], 'wall': Fraction(0)})
        pools[key]['wall'] += Fraction(e['wall'])
        for i, row in enumerate(e['ee']):
            pools[key]['trials'].append((row, e['su'][i] == '1', e['cs'][i] == '1'))
    exp = {}
    for key, pool in pools.items():
        k = spec['inputs'][key[0]]['k']
        ts = pool['trials']
        n = len(ts)
        nf = sum(1 for t in ts if not t[1])
        p = Fraction(nf, n)
        rad = p * (1 - p) / (n + 1)
        one_minus = Decimal((1 - p).numerator) / Decimal((1 - p).denominator)
        if p == 1:
            pw = 1.0
            pwse = 0.0 if k == 1 else float('nan')
        else:
            root = one_minus ** (Decimal(1) / Decimal(k))
            pw = float(1 - root)
            pwse = float((root / one_minus / k) * (Decimal(rad.numerator) / Decimal(rad.denominator)).sqrt())
        incs = [t for t in ts if t[2]]
        row = {
            'k': k, 'nt': n, 'nf': nf, 'wall': pool['wall'],
            'p_est': float(p), 'p_se': dsqrt(rad), 'p_word_est': pw, 'p_word_se': pwse,
            'ntX': k * len(incs), 'ntZ': k * len(incs),
            'nfX': sum(int(c) for t in incs for c in t[0][:k]),
            'nfZ': sum(int(c) for t in incs for c in t[0][k:]),
        }
        for s in 'XZ':
            if row['nt' + s] == 0:
                row['p_est_' + s] = float('nan')
                row['p_se_' + s] = float('nan')
            else:
                ps = Fraction(row['nf' + s], row['nt' + s])
                row['p_est_' + s] = float(ps)
                row['p_se_' + s] = dsqrt(ps * (1 - ps) / (row['nt' + s] + 1))
        est, se = [], []
        for i in range(k):
            pats = [(t[0][i], t[0][k + i]) for t in ts]
            cnt = [sum(1 for q in pats if q != ('0', '0')), pats.count(('1', '0')), pats.count(('1', '1')),
                   pats.count(('0', '1'))]
            est.append([float(Fraction(c, n)) for c in cnt])
            se.append([dsqrt(Fraction(c, n) * (1 - Fraction(c, n)) / (n + 1)) for c in cnt])
        row['sq_est'] = est
        row['sq_se'] = se
        exp[key] = row
    return exp


INT_COLS = ['k', 'nt', 'nf', 'wall', 'ntX', 'ntZ', 'nfX', 'nfZ']
FLOAT_COLS = ['p_est', 'p_se', 'p_word_est', 'p_word_se', 'p_est_X', 'p_se_X', 'p_est_Z', 'p_se_Z']


def compare(exp, out):
    """first column of the analysis output that differs from the stated value; None if all agree"""
    if 'error' in out:
        return 'raised', out['error']
    if out['sector_error']:
        return 'raised', 'sector stage: ' + out['sector_error']
    if set(exp) != set(out['rows']):
        return 'rows', f'rows {sorted(out["rows"])} expected {sorted(exp)}'
    for key in sorted(exp):
        e, r = exp[key], out['rows'][key]
        for c in INT_COLS:
            if e[c] != r[c]:
                return c, f'{c}={r[c]} at input {key[0]} rate {key[1]}e-6, pooled trials give {e[c]}'
        for c in FLOAT_COLS:
            ab = 1e-15 if c.startswith('p_word') else 0.0
            rel = 1e-9 if c == 'p_word_se' else REL
            if not close(r[c], e[c], rel, ab):
                return c, f'{c}={r[c]!r} at input {key[0]} rate {key[1]}e-6, stated formula gives {e[c]!r}'
        for name in ('sq_est', 'sq_se'):
            col = 'single_qubit_p_' + name[3:]
            if len(r[name]) != len(e[name]):
                return col, f'{col} has {len(r[name])} rows, k={e["k"]}'
            for i in range(len(e[name])):
                for t in range(4):
                    if not close(r[name][i][t], e[name][i][t]):
                        return col, (f'{col}[{i}][{"-XYZ"[t]}]={r[name][i][t]!r} at input {key[0]} rate '
                                     f'{key[1]}e-6, stated value {e[name][i][t]!r}')
    return None


def check_case(case):
    """Property on the implementation: the analysis of the files of `case` reports, for every key, the
    quantities of the pooled trial multiset."""
    try:
        spec = case['spec']
        out = run_analysis(spec)
        res = compare(expected_rows(spec), out)
        if res is None:
            return None
        case['_column'] = res[0]
        return res[1]
    except Exception as e:  # noqa: BLE001
        case['_column'] = 'harness'
        return f'raised {type(e).__name__}: {e}'


def fail_key(case):
    return {'class': case['class'], 'column': case.get('_column')}


def single_trial_cases():
    """smallest inputs: one trial in one plain file, every k, characteristic patterns"""
    cases = []
    for k in (1, 2, 3):
        pats = {'0' * (2 * k), '1' * (2 * k), '1' + '0' * (2 * k - 1), '0' * (2 * k - 1) + '1',
                '0' * (k - 1) + '1' + '0' * k, '0' * k + '1' + '0' * (k - 1)}
        for ee in sorted(pats):
            for su, cs in (('0', '1'), ('1', '1'), ('0', '0')):
                spec = {'inputs': [{'k': k, 'L': 3, 'variant': 0}],
                        'entries': [{'inp': 0, 'rate': '0.1', 'wall': '1/2', 'ee': [ee], 'su': su, 'cs': cs}],
                        'files': [{'fmt': 'json', 'dir': '', 'shape': [0]}], 'paths': 'dir'}
                cases.append({'class': 'single-trial', 'spec': spec})
    return cases


def oracle_cases(ctx, deep):
    rng = ctx.np_rng(151)
    cases = single_trial_cases()
    # two trials in two files vs the same two trials in one file
    for k in (1, 2):
        for fmt in ('json', 'gz', 'zip-json', 'zip-gz', 'merged-gz'):
            e1 = {'inp': 0, 'rate': '0.1', 'wall': '1/2', 'ee': ['1' + '0' * (2 * k - 1)], 'su': '0', 'cs': '1'}
            e2 = {'inp': 0, 'rate': '0.1', 'wall': '1/4', 'ee': ['0' * (2 * k)], 'su': '1', 'cs': '0'}
            f = {'fmt': fmt, 'dir': '', 'shape': [[0], [1]] if fmt.startswith('merged') else [0, 1]}
            if fmt.startswith('zip'):
                f.update(zip='arch0', member_dir='results')
            cases.append({'class': 'two-trials', 'spec': {'inputs': [{'k': k, 'L': 3, 'variant': 0}],
                                                            'entries': [e1, e2], 'files': [f], 'paths': 'dir'}})
            f1 = dict(f, shape=[[0]] if fmt.startswith('merged') else [0])
            f2 = {'fmt': 'json', 'dir': 'a', 'shape': 1}
            cases.append({'class': 'two-trials', 'spec': {'inputs': [{'k': k, 'L': 3, 'variant': 0}],
                                                            'entries': [e1, e2], 'files': [f1, f2],
                                                            'paths': 'files', 'order': [1, 0]}})
    # the same pooled multisets under several independent random splits
    n_groups, n_splits = (40, 4) if deep else (14, 3)
    for gi in range(n_groups):
        size = ['tiny', 'small', 'small', 'big'][gi % 4] if deep else ['tiny', 'small', 'small'][gi % 3]
        inputs, groups = gen_groups(rng, size)
        for _ in range(n_splits):
            spec = {'inputs': inputs, 'entries': entries_of(rng, groups)}
            layout(rng, spec, len(spec['entries']))
            cases.append({'class': 'random-split', 'spec': spec})
    if deep:
        # one pooled group of 200 000 trials with more than 2^17 flagged bits on a logical qubit: counters that
        # are narrower than the totals (uint8 / uint16 arithmetic on the stacked bit arrays) wrap here
        inputs = [{'k': 1, 'L': 3, 'variant': 0}]
        trials = gen_trials(rng, 1, 200000, 'dense')
        groups = [{'inp': 0, 'rate': RATES[0], 'trials': trials}]
        spec = {'inputs': inputs, 'entries': entries_of(rng, groups, max_parts=12)}
        layout(rng, spec, len(spec['entries']))
        cases.append({'class': 'large-pool', 'spec': spec})
    # a partition that contains an empty part (a run that saved before its first trial)
    for k in (1, 2):
        e1 = {'inp': 0, 'rate': '0.1', 'wall': '1/2', 'ee': ['1' + '0' * (2 * k - 1)], 'su': '0', 'cs': '1'}
        e0 = {'inp': 0, 'rate': '0.1', 'wall': '0', 'ee': [], 'su': '', 'cs': ''}
        cases.append({'class': 'empty-part', 'spec': {
            'inputs': [{'k': k, 'L': 3, 'variant': 0}], 'entries': [e1, e0],
            'files': [{'fmt': 'json', 'dir': '', 'shape': [0]}, {'fmt': 'json', 'dir': '', 'shape': [1]}],
            'paths': 'dir'}})
    return cases


def oracle(ctx, deep=False, broken=None):
    cases = oracle_cases(ctx, deep)
    fails = first_failures(cases, check_case, key=fail_key)
    for f in fails:
        f['input'] = {k: v for k, v in f['input'].items() if not k.startswith('_')}
    return fails, {'evaluations': len(cases)}


def replay(ctx, payload):
    case = dict(payload['input'])
    return check_case(case) is not None
