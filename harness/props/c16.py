"""C16 - threshold estimation recovers a planted finite-size-scaling threshold (level: other)."""
from __future__ import annotations

import gzip
import json
import math
import os
import shutil
import tempfile
import warnings
from fractions import Fraction

from harness.core import Stream
from harness.util import first_failures

ID = 'C16'
LEVEL = 'other'
PROPERTY_MODULES = ['PanqecVerif.Properties.C16', 'PanqecVerif.Properties.C16Window']
LEVEL_TEXT = ('Partly proved, partly tested.  Lean theorems (all rows, all parameters, every exponent convention): '
              'fit_function/rescale_prob are the ansatz A + Bx + Cx^2, x = (p - p_th) d^nu; planted parameters have '
              'zero residual and minimise the least-squares cost, every minimiser reproduces every planted point; cost, '
              'truncation and the reported quantiles are invariant under row / bootstrap-sample permutations; default '
              'truncation keeps all rows; the reported median lies between the reported 0.16 and 0.84 quantiles for every '
              'bootstrap sample; get_fit_status returns success iff all its tests pass, each failure string exactly under '
              'its condition, success under the planted-box hypotheses.  WHICH ROWS THE FIT SEES AND WHERE IT STARTS '
              '(Properties/C16Window.lean, all tables / grids): get_p_th_nearest returns one of the supplied rates, is '
              'order independent (one value per (code, rate), distinct n per code) and is the smallest rate in the pipeline; '
              'get_p_th_sd_interp is order independent, returns grid points left <= crossover <= right inside the data '
              'range (+ < one grid step), is total on >= 2 curves, and for straight lines through (p_th, A) returns the '
              'grid point nearest to p_th (|p_crossover - p_th| < res/2) with the whole grid as window; default window = '
              'all rows with the seed inside; the first fit starts inside the range of the rows it uses (at the seed when '
              'that is in range), order independent, and fails exactly on an empty window; the whole selection '
              '(calculate_thresholds up to curve_fit) is invariant under permutations of the results rows; skip => no row, replace => '
              'exactly the given values and no fit; apply_overrides writes class-name keys that calculate_thresholds '
              '(label keys) never finds (overrides_spec_never_applies).  TESTED only (not proved): scipy curve_fit '
              'converging to the minimiser and the beta-resampled bootstrap bracketing it - planted data sets are pushed '
              'through Analysis(...).thresholds on every run.')
LEVEL_NOTE = ('trusted/modelled: scipy.optimize.curve_fit (contract "returns a minimiser", exercised not proved), numpy '
              'Generator.beta/choice, np.quantile/np.median (modelled as linear interpolation, compared on the real '
              'bootstrap column), libm pow for d**nu (passed to the model as a per-row scale), float arithmetic within '
              'relative 1e-12 of the exact rational value.  Window model: the interpolation grid of get_p_th_sd_interp is '
              "numpy's np.arange output read at the boundary (a parameter of the model; compared with the exact grid "
              'p_min + i/1000: length exact or one more, points within 1e-12); the SD is sq(variance) with sq a parameter '
              '(driver: 40-digit rational root; theorems for every sq); np.argsort / sort_values modelled as stable sorts '
              '(exact without ties at the extremes of a rate row and with distinct n).  Inputs on which rounding noise '
              'decides the implementation (two neighbouring grid points with EQUAL exact SD, e.g. identical curves: '
              'pandas gives std([c,c,c]) = 4e-18) are recognised by the model and left out of the comparison (counted in '
              'the evidence as *-skipped:rounding-decides); NaN logical rates and duplicated (code_label, error_rate) are '
              'outside the modelled domain of get_p_th_sd_interp (aggregate never produces the latter)')
TECHNIQUE = ('Lean 4 proof (Rat field arithmetic, List.Perm, insertion-sort quantiles, decision-chain case analysis, '
             'V-shape analysis of argrelextrema, exact linear interpolation) + '
             'differential correspondence with the compiled model driver + planted-threshold recovery test')
EXPLANATION = ('C16 is claimed at level "other": the recovery of a planted threshold depends on the convergence of a '
               'third-party numerical optimiser (scipy curve_fit, Levenberg-Marquardt) and on quantiles of 100 '
               'beta-resampled refits, which Lean does not decide.  PROVED in lean/PanqecVerif/Properties/C16.lean: '
               'ansatz identity, zero residual and global minimality of the planted parameters, minimisers reproduce the '
               'data (recovery_partial: with the optimiser as a parameter satisfying its contract), permutation '
               'invariance of cost/truncation/quantiles, estimate inside its own interval for every bootstrap sample, '
               'complete characterisation of get_fit_status; in Properties/C16Window.lean: the selection of the rows and '
               'of the start vector (get_p_th_nearest, get_p_th_sd_interp, default / autotruncate / manual windows, '
               'skip / replace, apply_overrides) - order independence, data range, crossing of straight lines, first-fit '
               'start inside the window, override semantics.  TESTED on every run: planted (p_th, nu, A, B, C) in a '
               'well-conditioned box, 3-5 distances with d_max >= 2 d_min, 7-11 error rates around p_th, 20000 trials per '
               'point with n_fail = round(f n): p_th_fss within 2 x interval width + 1e-4 of the planted p_th, inside its '
               'interval and the data range, status success, all rows used, pooled counts as planted, bootstrap '
               "fits' A scattered around the planted A, identical under a different file layout / order; "
               'curve_fit is spied at its boundary and the reported fss_params are compared with what it '
               'returned (model: the bootstrap loop leaves them alone, start values replaced by the mid-range on a '
               'copy; regression data set of commit 182c096 in the corpus); the cost of its answer is compared (exactly, '
               'by the model driver) with the cost of the planted parameters.  Observed: in about 1% of the planted '
               'data sets the first fit ends in a local minimum outside the data range (third-party behaviour, not '
               'counted; p_th_fss is still recovered because the bootstrap fits restart from the mid-range).  '
               'Found while modelling the window code (reported, outside the statement of C16): overrides given to '
               'Analysis(overrides=...) never apply (name keys vs label keys); in the pipeline p_th_nearest is always the '
               'smallest rate; the autotruncate window can hold no data row (ValueError) and its edge rows are kept or '
               'dropped by the rounding of np.arange; skipping or replacing every parameter set raises.')
TRUSTED = ['scipy.optimize.curve_fit returns a minimiser of the least-squares cost within ftol (contract; tested on '
           'planted data: the cost of its answer is compared with the cost of the planted parameters by the model '
           'driver, op fsscostle, whenever the answer lies inside the data range)',
           'numpy Generator(seed 0).beta / choice, np.quantile (linear), np.median, np.std (radicand compared: op winse)',
           'libm pow for d**nu',
           'numpy arange (grid of get_p_th_sd_interp, read at the boundary and compared with the exact grid), scipy '
           'interp1d / argrelextrema and pandas std as modelled (compared on every table whose exact SD sequence has no '
           'tie between neighbouring grid points)']
ASSUMPTIONS = ['planted box: 0.03 <= p_th <= 0.3, 0.6 <= nu <= 1.6, 0.1 <= A <= 0.45, 0.3 <= B <= 2, -1 <= C <= 2, '
               'rates within +-35% of p_th, all planted rates in [0.02, 0.9] and increasing in p, d_max >= 2 d_min',
               'recovery (planted stream, oracle class planted): no manual overrides, autotruncate off (defaults of '
               'Analysis); the window model, streams and oracle classes nearest / sd-interp / window cover overrides '
               'and autotruncate',
               'get_p_th_nearest order independence: one value per (code, error_rate) and distinct n per code tuple; '
               'model exact without ties at the extremes of a rate row (numpy argsort is not stable on AVX-512 builds)',
               'get_p_th_sd_interp: finite logical rates, no duplicated (code_label, error_rate), no exact tie between '
               'neighbouring grid values of the SD (rounding decides those in the implementation)']
ANCHOR_FILES = ['panqec/analysis.py', 'panqec/utils.py']
RULE = ('function/status streams: one op per call of fit_function / rescale_prob / get_fit_status; planted stream: ops on '
        'the real thresholds row of a planted data set (status, quantiles, range, cost, recovery predicate, first-fit '
        'start, p_th_fss_se); window-helpers: one op per call of get_p_th_nearest / get_p_th_sd_interp on a generated '
        'table; window-pipeline: one op per Analysis(...) / calculate_thresholds call (apply_overrides state, thresholds '
        'entries with curve_fit observed at its boundary)')

N_TRIALS = 20000
_cache = {}


def fr(x):
    x = float(x)
    if math.isnan(x) or math.isinf(x):
        return 'nan'
    n, d = x.as_integer_ratio()
    return f'{n}/{d}' if d != 1 else str(n)


# ------------------------------------------------------------------ planted data sets

def gen_instance(rng):
    import numpy as np
    while True:
        pth = round(float(rng.uniform(0.03, 0.3)), 3)
        nu = round(float(rng.uniform(0.6, 1.6)), 2)
        A = round(float(rng.uniform(0.1, 0.45)), 3)
        B = round(float(rng.uniform(0.3, 2.0)), 2)
        C = round(float(rng.uniform(-1.0, 2.0)), 2)
        nd = int(rng.integers(3, 6))
        ds = sorted(int(x) for x in rng.choice(np.arange(3, 16), nd, replace=False))
        if ds[-1] < 2 * ds[0]:
            continue
        nr = int(rng.integers(7, 12))
        hw = float(rng.uniform(0.1, 0.35)) * pth
        ps = sorted({round(pth - hw + 2 * hw * i / (nr - 1) + float(rng.uniform(-0.2, 0.2)) * hw / nr, 6)
                     for i in range(nr)})
        if len(ps) < 7:
            continue
        inst = {'pth': pth, 'nu': nu, 'A': A, 'B': B, 'C': C, 'ds': ds, 'ps': ps, 'n': N_TRIALS,
                'seed': int(rng.integers(0, 2 ** 31))}
        if rng.random() < 0.5:      # unequal trial counts per distance (fewer for the larger codes)
            inst['n_by_d'] = {str(d): int(N_TRIALS * 2 // (1 + j)) for j, d in enumerate(ds)}
        if in_box(inst):
            return inst


def ansatz(inst, p, d):
    x = (p - inst['pth']) * d ** inst['nu']
    return inst['A'] + inst['B'] * x + inst['C'] * x * x


def in_box(inst):
    fs = [[ansatz(inst, p, d) for p in inst['ps']] for d in inst['ds']]
    flat = [f for r in fs for f in r]
    if min(flat) < 0.02 or max(flat) > 0.9:
        return False
    return not any(any(r[i + 1] <= r[i] for i in range(len(r) - 1)) for r in fs)


CORPUS = [
    {'pth': 0.1, 'nu': 1.0, 'A': 0.3, 'B': 0.8, 'C': 0.5, 'ds': [4, 6, 8],
     'ps': [0.07, 0.08, 0.09, 0.1, 0.11, 0.12, 0.13], 'n': N_TRIALS, 'seed': 1},
    {'pth': 0.161, 'nu': 1.27, 'A': 0.377, 'B': 0.39, 'C': 0.15, 'ds': [3, 9, 11, 12],
     'ps': [0.125305, 0.133, 0.141, 0.149, 0.157, 0.165, 0.173, 0.181, 0.189, 0.196], 'n': N_TRIALS, 'seed': 2},
    # fewer trials for the larger (slower) distances, as real sweeps have them
    {'pth': 0.1, 'nu': 1.0, 'A': 0.3, 'B': 0.8, 'C': 0.5, 'ds': [4, 6, 8],
     'ps': [0.07, 0.08, 0.09, 0.1, 0.11, 0.12, 0.13], 'n': N_TRIALS, 'n_by_d': {'4': 40000, '6': 20000, '8': 10000},
     'seed': 4},
    # modest statistics and closely spaced distances: a few bootstrap refits run away, the reported (median)
    # threshold must still lie inside its own interval
    {'pth': 0.155, 'nu': 0.7, 'A': 0.4, 'B': 1.0, 'C': 1.0, 'ds': [5, 7, 9],
     'ps': [0.13, 0.138333, 0.146667, 0.155, 0.163333, 0.171667, 0.18], 'n': 1000, 'seed': 5},
]
# regression (182c096): the first fit ends in a local minimum with p_th < 0; panqec used to report the mid-range
# value as fss_params[0] because get_fit_params overwrote the caller's array
FINDING_INSTANCE = {'pth': 0.159, 'nu': 0.68, 'A': 0.29, 'B': 0.71, 'C': -0.9, 'ds': [3, 13, 14, 15],
                    'ps': [0.116347, 0.125229, 0.134979, 0.144814, 0.154408, 0.163394, 0.172562, 0.182393,
                           0.19159, 0.202323], 'n': N_TRIALS, 'seed': 3}


def make_inputs(d, p):
    return {
        'code': {'name': 'Toric2DCode', 'parameters': {'L_x': d, 'L_y': d}, 'n': 2 * d * d, 'k': 1, 'd': d},
        'error_model': {'name': 'PauliErrorModel',
                        'parameters': {'r_x': 0.25, 'r_y': 0.25, 'r_z': 0.5, 'deformation_name': None,
                                       'deformation_kwargs': {}}},
        'decoder': {'name': 'MatchingDecoder', 'parameters': {'error_type': None, 'weights': None}},
        'error_rate': p, 'method': {'name': 'direct', 'parameters': {}},
    }


def record(d, p, n, nf, fail_first=True):
    su = [False] * nf + [True] * (n - nf) if fail_first else [True] * (n - nf) + [False] * nf
    ee = [[1, 0] if not s else [0, 0] for s in su]
    return {'results': {'n_runs': n, 'wall_time': 0.5, 'effective_error': ee, 'success': su, 'codespace': [True] * n},
            'inputs': make_inputs(d, p)}


def n_of(inst, d):
    """trials per data point of distance d (instances may plant different numbers of trials per distance)"""
    return int(inst.get('n_by_d', {}).get(str(d), inst['n']))


def planted_counts(inst):
    return {(d, p): int(round(ansatz(inst, p, d) * n_of(inst, d))) for d in inst['ds'] for p in inst['ps']}


def build_files(inst, root, variant):
    """variant 0: one gz file per point, shuffled, nested directories.
    variant 1: every point split into two entries (different sizes), all in two plain merged lists, other order."""
    import numpy as np
    rng = np.random.default_rng(inst['seed'] + 17 * variant)
    counts = planted_counts(inst)
    pts = list(counts)
    order = [pts[int(i)] for i in rng.permutation(len(pts))]
    os.makedirs(root, exist_ok=True)
    if variant == 0:
        for j, (d, p) in enumerate(order):
            n = n_of(inst, d)
            sub = os.path.join(root, f'd{d}' if j % 2 else '')
            os.makedirs(sub, exist_ok=True)
            with gzip.open(os.path.join(sub, f'r{j}.json.gz'), 'wb') as f:
                f.write(json.dumps([record(d, p, n, counts[(d, p)])]).encode())
    else:
        lists = [[], []]
        for j, (d, p) in enumerate(order):
            nf = counts[(d, p)]
            n = n_of(inst, d)
            n1 = int(rng.integers(1, n))
            nf1 = min(nf, int(rng.integers(0, n1 + 1)))
            nf1 = max(nf1, nf - (n - n1))
            lists[j % 2].append(record(d, p, n1, nf1, fail_first=False))
            lists[(j + 1) % 2].append([record(d, p, n - n1, nf - nf1)])
        for j, lst in enumerate(lists):
            with open(os.path.join(root, f'merged{j}.json'), 'w') as f:
                json.dump(lst, f)


def run_thresholds(inst, variant=0):
    """Analysis(dir).thresholds on the planted data; cached per (instance, variant, repo)."""
    key = (json.dumps(inst, sort_keys=True), variant)
    if key in _cache:
        return _cache[key]
    from unittest import mock
    import panqec.analysis as pa
    from panqec.analysis import Analysis
    root = tempfile.mkdtemp(prefix='c16_')
    calls = []
    real_curve_fit = pa.curve_fit

    def spy(f, xdata, ydata, *args, **kw):
        # boundary spy on scipy: what went in (ydata) and what came out, copied at once
        p0 = kw.get('p0')
        rec = {'ydata': [float(y) for y in ydata], 'xdata': [[float(v) for v in r] for r in xdata],
               'p0': None if p0 is None else [float(v) for v in p0]}
        calls.append(rec)
        try:
            res = real_curve_fit(f, xdata, ydata, *args, **kw)
        except Exception as e:  # noqa: BLE001
            rec['raised'] = type(e).__name__
            raise
        rec['popt'] = [float(v) for v in res[0]]
        return res
    try:
        build_files(inst, root, variant)
        with warnings.catch_warnings():
            warnings.simplefilter('ignore')
            import io
            import contextlib
            with contextlib.redirect_stdout(io.StringIO()), mock.patch.object(pa, 'curve_fit', spy):
                a = Analysis(root)
                th = a.thresholds
                trunc = a.trunc_results['total']
        if len(th) != 1:
            out = {'error': f'{len(th)} threshold rows'}
        else:
            row = th.iloc[0]
            res = a.get_results()
            out = {
                'fss_params': [float(x) for x in row['fss_params']],
                'p_th_fss': float(row['p_th_fss']), 'left': float(row['p_th_fss_left']),
                'right': float(row['p_th_fss_right']), 'se': float(row['p_th_fss_se']),
                'p_left': float(row['p_left']), 'p_right': float(row['p_right']),
                'fit_status': str(row['fit_status']), 'fit_found': bool(row['fit_found']),
                'bs_col': [float(x) for x in row['params_bs'][:, 0]],
                'bs_A': [float(x) for x in row['params_bs'][:, 2]],
                'n_trunc': int(len(trunc)),
                'n_fit_calls': len(calls),
                'points': sorted((int(r['d']), float(r['error_rate']), float(r['p_est']), int(r['n_trials']),
                                  int(r['n_fail'])) for _, r in res.iterrows()),
            }
            # the best fit of the 'total' sector: first call whose targets are the p_est column, in row order
            pe = [pt[2] for pt in sorted(out['points'], key=lambda t: (t[0], t[1]))]
            first = [i for i, c in enumerate(calls) if sorted(c['ydata']) == sorted(pe)]
            out['raw_opt'] = None
            if first:
                k = first[-1]                      # the 'total' sector is fitted last
                out['raw_opt'] = calls[k].get('popt')
                out['fit_raised'] = calls[k].get('raised')
                # error-rate ranges of the bootstrap resamples that follow the best fit
                out['bs_bounds'] = [[min(c['xdata'][0]), max(c['xdata'][0])] for c in calls[k + 1:]]
                out['bs_starts'] = [c['p0'][0] if c['p0'] else float('nan') for c in calls[k + 1:]]
                out['first_p0'] = calls[k]['p0']            # start vector of the best fit as curve_fit received it
            out['p_th_nearest'] = float(row['p_th_nearest'])
            out['p_th_sd'] = float(row['p_th_sd'])
    except Exception as e:  # noqa: BLE001
        out = {'error': f'EXC:{type(e).__name__}:{str(e)[:120]}'}
    finally:
        shutil.rmtree(root, ignore_errors=True)
    _cache[key] = out
    return out


def entry_tokens(fss, pth, left, right, se, pl, pr):
    return ' '.join([fr(x) for x in fss] + [fr(pth), fr(left), fr(right), fr(se), fr(pl), fr(pr)])


def recovery_tol(out):
    """'fit tolerance' of the statement for the bootstrap median: twice the reported interval width + 1e-4"""
    return 2 * (out['right'] - out['left']) + 1e-4


# ------------------------------------------------------------------ correspondence

def get_status(entry):
    from panqec.analysis import Analysis
    a = Analysis.__new__(Analysis)
    with warnings.catch_warnings():
        warnings.simplefilter('ignore')
        return a.get_fit_status(entry)


def status_entry(vals):
    import numpy as np
    f0, nu, A, B, C, pth, l, r, se, pl, pr = vals
    return {'fss_params': np.array([f0, nu, A, B, C], dtype=float), 'p_th_fss': pth, 'p_th_fss_left': l,
            'p_th_fss_right': r, 'p_th_fss_se': se, 'p_left': pl, 'p_right': pr}


def gen_status_vals(rng, kind):
    nan = float('nan')
    pth = float(rng.uniform(0.05, 0.3))
    w = float(rng.uniform(1e-3, 2e-2))
    v = [pth, float(rng.uniform(0.5, 2)), float(rng.uniform(0.05, 0.5)), float(rng.uniform(0.2, 2)),
         float(rng.uniform(-1, 2)), pth, pth - w, pth + w, w / 2, pth * 0.7, pth * 1.3]
    if kind == 'success':
        pass
    elif kind == 'nan-param':
        v[int(rng.integers(0, 5))] = nan
    elif kind == 'nan-key':
        v[int(rng.integers(5, 9))] = nan
    elif kind == 'zero-ci':
        scale = float(rng.choice([0.0, 0.5, 0.99]))
        v[6] = v[7] - scale * (1e-8 + 1e-5 * abs(v[7]))
    elif kind == 'near-zero-ci':          # just outside np.isclose
        v[6] = v[7] - float(rng.choice([1.01, 1.5, 3.0])) * (1e-8 + 1e-5 * abs(v[7]))
    elif kind == 'zero-se':
        v[8] = float(rng.choice([0.0, 0.5e-8, 0.99e-8]))
    elif kind == 'near-zero-se':
        v[8] = float(rng.choice([1.01e-8, 2e-8]))
    elif kind == 'outside-unit':
        i = int(rng.integers(5, 9))
        v[i] = float(rng.choice([-0.01, 1.01, -1e-9, 1.0 + 1e-9]))
    elif kind == 'edge-unit':             # exactly 0 or 1 is allowed
        v[7] = 1.0
        v[10] = 1.0
    elif kind == 'bad-A':
        v[2] = float(rng.choice([-0.01, 1.01, -1e-12]))
    elif kind == 'edge-A':
        v[2] = float(rng.choice([0.0, 1.0]))
    elif kind == 'left-of-data':
        v[9] = pth + float(rng.choice([1e-9, 1e-3]))
    elif kind == 'right-of-data':
        v[10] = pth - float(rng.choice([1e-9, 1e-3]))
    elif kind == 'at-edge':               # threshold exactly on the first / last data point is accepted
        if rng.random() < 0.5:
            v[9] = pth
        else:
            v[10] = pth
    elif kind == 'zero-fit':
        v[2], v[3], v[4] = [float(rng.choice([0.0, 0.5e-8, -0.9e-8])) for _ in range(3)]
        v[2] = abs(v[2])
    elif kind == 'almost-zero-fit':
        v[2], v[3], v[4] = 0.0, 0.0, 0.0
        v[int(rng.integers(3, 5))] = float(rng.choice([1.1e-8, -2e-8, 1.0]))
    return v


STATUS_KINDS = ['success', 'nan-param', 'nan-key', 'zero-ci', 'near-zero-ci', 'zero-se', 'near-zero-se',
                'outside-unit', 'edge-unit', 'bad-A', 'edge-A', 'left-of-data', 'right-of-data', 'at-edge',
                'zero-fit', 'almost-zero-fit']


def instances(ctx, salt, n_quick, n_thorough):
    rng = ctx.np_rng(salt)
    n = n_thorough if ctx.thorough else n_quick
    return (CORPUS if ctx.thorough else [CORPUS[0], CORPUS[2], CORPUS[3]]) + [gen_instance(rng) for _ in range(n)]


def correspondence(ctx):
    import numpy as np
    from panqec.analysis import fit_function
    from panqec.utils import rescale_prob
    rng = ctx.np_rng(16)
    streams = []

    # --- fit_function / rescale_prob against the ansatz (scale s = d**nu supplied by libm)
    s = Stream('fit-function')
    for i in range(400 if ctx.thorough else 120):
        p = round(float(rng.uniform(0.001, 0.5)), int(rng.integers(2, 7)))
        d = int(rng.integers(2, 40))
        pth = round(float(rng.uniform(0.001, 0.5)), int(rng.integers(2, 7)))
        if i % 10 == 0:
            p = pth
        nu = float(rng.choice([0.5, 1.0, 2.0, -1.0, round(float(rng.uniform(0.3, 3.0)), 3)]))
        A, B, C = (round(float(rng.uniform(-1, 2)), 3) for _ in range(3))
        if i % 2 == 0:
            f = float(fit_function((p, d), pth, nu, A, B, C))
            x = float(rescale_prob((p, d), pth, nu, A, B, C))
            tag = 'scalar'
        else:
            xd = np.array([[p, 2 * p], [d, d + 1]])
            f = float(fit_function(xd, pth, nu, A, B, C)[0])
            x = float(rescale_prob([np.array([p, 2 * p]), np.array([d, d + 1])], pth, nu, A, B, C)[0])
            tag = 'array'
        scale = math.pow(d, nu)
        s.add(f'fssfn {fr(p)} {fr(scale)} {fr(pth)} {fr(A)} {fr(B)} {fr(C)} {fr(f)} {fr(x)}', 'ok ok',
              {'p': p, 'd': d, 'params': [pth, nu, A, B, C], 'call': tag}, tag=tag, nontrivial=p != pth)
    streams.append(s.run())

    # --- get_fit_status decision logic
    s = Stream('fit-status')
    for kind in STATUS_KINDS:
        for _ in range(12 if ctx.thorough else 5):
            vals = gen_status_vals(rng, kind)
            got = get_status(status_entry(vals))
            s.add('fssstatus ' + entry_tokens(vals[:5], *vals[5:]), got, {'entry': vals, 'kind': kind}, tag=kind)
    streams.append(s.run())

    # --- planted thresholds: the real pipeline; TEST of optimiser + bootstrap, model glue on the real numbers
    s = Stream('planted-threshold-test')
    for inst in instances(ctx, 161, 2, 14) + [FINDING_INSTANCE]:
        out = run_thresholds(inst, 0)
        desc = {'instance': inst}
        if 'error' in out:
            s.add('fssstatus 0 0 0 0 0 0 0 0 0 0 0', out['error'], desc, tag='pipeline-error')
            continue
        fss = out['fss_params']
        toks = entry_tokens(fss, out['p_th_fss'], out['left'], out['right'], out['se'], out['p_left'],
                            out['p_right'])
        s.add('fssstatus ' + toks, out['fit_status'], desc, tag='status-of-real-fit')
        col = ','.join(fr(x) for x in out['bs_col'])
        for q, name in (('1/2', 'p_th_fss'), ('16/100', 'left'), ('84/100', 'right')):
            s.add(f'fssquant {q} {col} {fr(out[name])}', 'ok', desc, tag='quantile-of-real-bootstrap')
        rows = ';'.join(f'{fr(p)},1,{fr(f)}' for (d, p, f, nt, nf) in out['points'])
        s.add(f'fssrange - - {rows}',
              f"{out['n_trunc']} {Fraction(out['p_left'])} {Fraction(out['p_right'])}", desc, tag='range')
        if out.get('raw_opt'):
            # glue between the optimiser's answer and the reported fss_params, and the start values handed to
            # the bootstrap fits (midpoint replacement on a copy), replayed by the model on the recorded ranges
            bounds = ';'.join(f'{fr(lo)},{fr(hi)}' for lo, hi in out['bs_bounds']) or '-'
            starts = ','.join(fr(x) for x in out['bs_starts']) or '-'
            s.add(f"fssreported {fr(out['raw_opt'][0])} {bounds} {fr(fss[0])} {starts}", 'ok ok', desc,
                  tag='reported-vs-optimiser')
        s.add(f'fssrecovered {fr(inst["pth"])} {fr(recovery_tol(out))} ' + toks, 'recovered', desc, tag='recovery')
        # p_th_fss_se is the population standard deviation of the bootstrap column
        if out['bs_col'] and not any(math.isnan(x) for x in out['bs_col']):
            s.add(f"winse {col} {fr(out['se'])}", 'ok', desc, tag='p_th_fss_se')
        # which rows the first fit saw and where it started (default window): all rows, p0 = [p_th_nearest, 2, f_0, 1, 1]
        if out.get('first_p0'):
            trows = ';'.join(f'0:{d}:{2 * d * d}:1:{d}:{fr(p)}:{fr(f)}' for (d, p, f, nt, nf) in out['points'])
            s.add(f"winfit {fr(out['p_left'])} {fr(out['p_right'])} {fr(out['p_th_nearest'])} {trows} "
                  f"{out['n_trunc']} {fr(out['first_p0'][0])} {fr(out['first_p0'][2])}", 'ok ok ok', desc,
                  tag='first-fit-start')
            s.add(f'winnearest {trows}', str(Fraction(out['p_th_nearest'])), desc, tag='p_th_nearest-of-real-data')
        # TEST of the optimiser's contract on the real numbers: the best fit is at least as good as the planted
        # parameters (cost compared exactly by the model; each side with its own scale d**nu).  Not asked when the
        # optimiser ended outside the data range (local minimum, see EXPLANATION).
        raw = out.get('raw_opt')
        if raw and out['p_left'] <= raw[0] <= out['p_right'] and not any(math.isnan(x) for x in raw):
            def scaled(nu):
                return ';'.join(f'{fr(p)},{fr(math.pow(d, nu))},{fr(f)}' for (d, p, f, nt, nf) in out['points'])
            s.add(f"fsscostle {fr(raw[0])} {fr(raw[2])} {fr(raw[3])} {fr(raw[4])} {scaled(raw[1])} "
                  f"{fr(inst['pth'])} {fr(inst['A'])} {fr(inst['B'])} {fr(inst['C'])} {scaled(inst['nu'])} 1 1/1000000000000000",
                  'le', desc, tag='optimiser-vs-planted-cost')
    streams.append(s.run())
    # --- which rows the fit sees and where it starts: get_p_th_nearest, get_p_th_sd_interp, the window branches
    #     of calculate_thresholds, apply_overrides (harness/props/c16_window.py)
    from harness.props import c16_window
    for builder, nm in ((c16_window.stream_helpers, 'window-helpers'), (c16_window.stream_pipeline, 'window-pipeline')):
        try:
            streams.append(builder(ctx))
        except Exception as e:  # noqa: the implementation raised while the inputs were prepared
            import traceback
            st = Stream(nm)
            st.mismatches.append({'stream': nm, 'op': '-', 'implementation': f'EXC {type(e).__name__}: {str(e)[:300]}',
                                  'model': '-', 'input': traceback.format_exc()[-1200:]})
            streams.append(st)
    return streams


# ------------------------------------------------------------------ oracle (independent of the Lean model)

def isclose(a, b):
    return abs(a - b) <= 1e-8 + 1e-5 * abs(b)


def expected_status(v):
    """get_fit_status as documented, written independently (plain Python floats)"""
    f0, nu, A, B, C, pth, l, r, se, pl, pr = v
    if any(math.isnan(x) for x in (f0, nu, A, B, C)):
        return 'Curve fitting failed.'
    if any(math.isnan(x) for x in (pth, l, r, se)):
        return 'NaN threshold estimate or uncertainty.'
    if isclose(l, r):
        return 'Zero CI uncertainty.'
    if isclose(se, 0):
        return 'Zero SE uncertainty.'
    if any(x < 0 or x > 1 for x in (pth, l, r, se)):
        return 'Invalid threshold value.'
    if A < 0 or A > 1:
        return 'Invalid logical error rate at threshold.'
    if pth < pl:
        return 'Threshold left of leftmost data point used.'
    if pth > pr:
        return 'Threshold right of rightmost data point used.'
    if all(isclose(x, 0) for x in (A, B, C)):
        return 'Zero logical error rate fit'
    return 'success'


def check_case(case):
    try:
        kind = case['class']
        if kind == 'ansatz':
            from panqec.analysis import fit_function
            from panqec.utils import rescale_prob
            p, d, (pth, nu, A, B, C) = case['p'], case['d'], case['params']
            x = (p - pth) * d ** nu
            want = A + B * x + C * x ** 2
            got = float(fit_function((p, d), pth, nu, A, B, C))
            gx = float(rescale_prob((p, d), pth, nu, A, B, C))
            scale = abs(A) + abs(B * x) + abs(C * x * x)
            if abs(gx - x) > 1e-12 * abs(x):
                return f'rescale_prob={gx!r}, (p - p_th) d^nu = {x!r}'
            if abs(got - want) > 1e-12 * scale:
                return f'fit_function={got!r}, A + Bx + Cx^2 = {want!r}'
            return None
        if kind == 'status':
            got = get_status(status_entry(case['entry']))
            want = expected_status(case['entry'])
            return None if got == want else f'fit_status={got!r}, documented conditions give {want!r}'
        if kind == 'planted':
            inst = case['instance']
            out = run_thresholds(inst, 0)
            if 'error' in out:
                case['_check'] = 'raised'
                return out['error']
            checks = []
            if out['fit_status'] != 'success' or not out['fit_found']:
                checks.append(('status', f"fit_status={out['fit_status']!r}"))
            if not (out['left'] <= out['p_th_fss'] <= out['right']):
                checks.append(('inside-interval', f"p_th_fss={out['p_th_fss']} not in [{out['left']}, {out['right']}]"))
            if not (out['p_left'] <= out['p_th_fss'] <= out['p_right']):
                checks.append(('inside-range', f"p_th_fss={out['p_th_fss']} not in data range "
                                               f"[{out['p_left']}, {out['p_right']}]"))
            if (out['p_left'], out['p_right']) != (min(inst['ps']), max(inst['ps'])):
                checks.append(('range', f"p_left/p_right={out['p_left']},{out['p_right']} data "
                                        f"{min(inst['ps'])},{max(inst['ps'])}"))
            p0 = out.get('first_p0')
            if p0 is not None and not (out['p_left'] <= p0[0] <= out['p_right']):
                checks.append(('start-inside-range', f"the first fit starts at p_th={p0[0]}, data range "
                                                     f"[{out['p_left']}, {out['p_right']}]"))
            if not (out['p_left'] <= out['p_th_nearest'] <= out['p_right']):
                checks.append(('start-inside-range', f"p_th_nearest={out['p_th_nearest']} outside the data range"))
            if out['n_trunc'] != len(inst['ds']) * len(inst['ps']):
                checks.append(('rows-used', f"{out['n_trunc']} rows used of {len(inst['ds']) * len(inst['ps'])}"))
            if abs(out['p_th_fss'] - inst['pth']) > recovery_tol(out):
                checks.append(('threshold', f"p_th_fss={out['p_th_fss']} planted {inst['pth']} "
                                            f"tolerance {recovery_tol(out):.3g}"))
            # the resampled fits must be fits of the same data: their logical rate at threshold scatters around A
            import statistics
            med_a = statistics.median(out['bs_A'])
            sd_a = statistics.pstdev(out['bs_A'])
            if abs(med_a - inst['A']) > 4 * sd_a + 1e-3:
                checks.append(('bootstrap-A', f"median of the bootstrap fits' A = {med_a}, planted {inst['A']} "
                                              f"(spread {sd_a:.3g})"))
            counts = planted_counts(inst)
            for (d, p, f, nt, nf) in out['points']:
                if nt != n_of(inst, d) or nf != counts[(d, p)]:
                    checks.append(('pooled-counts', f'd={d} p={p}: n_trials={nt} n_fail={nf}, planted '
                                                    f"{n_of(inst, d)} / {counts[(d, p)]}"))
                    break
            out2 = run_thresholds(inst, 1) if case.get('order', True) else out
            if 'error' in out2:
                checks.append(('order', 'other file layout: ' + out2['error']))
            else:
                for name in ('p_th_fss', 'left', 'right', 'se'):
                    if abs(out[name] - out2[name]) > 1e-9 * max(1.0, abs(out[name])):
                        checks.append(('order', f'{name}={out[name]!r} with one file layout, {out2[name]!r} with '
                                                'another'))
                        break
                if out['fit_status'] != out2['fit_status']:
                    checks.append(('order', f"fit_status {out['fit_status']!r} vs {out2['fit_status']!r}"))
            # fss_params must be what the optimiser returned for the best fit (checked last, so that any other
            # violation takes precedence).  A best fit that is itself off (local minimum of the third-party
            # optimiser) is not counted against panqec here.
            raw = out.get('raw_opt')
            if raw is not None and not checks and out['fss_params'] != raw:
                checks.append(('fss-params-not-the-fit',
                               f"fss_params={out['fss_params']} but curve_fit returned {raw}; data range "
                               f"[{out['p_left']}, {out['p_right']}], planted p_th {inst['pth']}, "
                               f"fit_status {out['fit_status']!r}"))
            if checks:
                case['_check'] = checks[0][0]
                return '; '.join(c[1] for c in checks[:3])
            return None
        if kind == 'row-order':
            import numpy as np
            import pandas as pd
            from panqec.analysis import get_fit_params
            inst = case['instance']
            pts = [(d, p, ansatz(inst, p, d)) for d in inst['ds'] for p in inst['ps']]
            base = None
            for perm_seed in (0, 1, 2):
                order = np.random.default_rng(perm_seed).permutation(len(pts)) if perm_seed else np.arange(len(pts))
                sel = [pts[int(i)] for i in order]
                with warnings.catch_warnings():
                    warnings.simplefilter('ignore')
                    opt = get_fit_params(np.array([x[1] for x in sel]), np.array([x[0] for x in sel]),
                                         np.array([x[2] for x in sel]),
                                         params_0=[1.02 * inst['pth'], 0.97 * inst['nu'], 1.03 * inst['A'],
                                                   0.96 * inst['B'], inst['C'] + 0.05], ftol=1e-10)
                if abs(opt[0] - inst['pth']) > 1e-4 * inst['pth']:
                    return f'row order {perm_seed}: fitted p_th={opt[0]} planted {inst["pth"]}'
                if base is None:
                    base = opt
                elif abs(opt[0] - base[0]) > 1e-6 * abs(base[0]):
                    return f'fitted p_th depends on the row order: {base[0]!r} vs {opt[0]!r}'
            return None
        if kind in ('nearest', 'sd-interp', 'window'):
            from harness.props import c16_window
            return c16_window.check_window_case(case)
    except Exception as e:  # noqa: BLE001
        case['_check'] = 'harness'
        return f'raised {type(e).__name__}: {e}'
    return None


def fail_key(case):
    if case['class'] in ('nearest', 'sd-interp', 'window'):
        from harness.props import c16_window
        return c16_window.window_fail_key(case)
    k = {'class': case['class']}
    if '_check' in case:
        k['check'] = case['_check']
    if case['class'] == 'status':
        k['kind'] = case.get('kind')
    return k


def oracle_cases(ctx, deep):
    rng = ctx.np_rng(162)
    cases = []
    for i in range(60):
        p = round(float(rng.uniform(0.01, 0.4)), 4)
        pth = round(float(rng.uniform(0.01, 0.4)), 4)
        nu = float(rng.choice([1.0, 2.0, 0.5, round(float(rng.uniform(0.4, 2.5)), 2)]))
        cases.append({'class': 'ansatz', 'p': p, 'd': int(rng.integers(2, 30)),
                      'params': [pth, nu] + [round(float(rng.uniform(-1, 2)), 2) for _ in range(3)]})
    for kind in STATUS_KINDS:
        for _ in range(6 if deep else 3):
            cases.append({'class': 'status', 'kind': kind, 'entry': gen_status_vals(rng, kind)})
    insts = instances(ctx, 161, 2, 14)           # the same data sets as the correspondence (cached runs)
    if deep and not ctx.thorough:
        insts = insts + [gen_instance(rng) for _ in range(4)]
    for j, inst in enumerate(insts + [FINDING_INSTANCE]):
        # the second file layout (order invariance) for every instance when searching deep, else for two
        cases.append({'class': 'planted', 'instance': inst, 'order': bool(deep or j < 2)})
    for inst in insts[:3]:
        cases.append({'class': 'row-order', 'instance': inst})
    from harness.props import c16_window
    try:
        cases += c16_window.window_oracle_cases(ctx, deep)
    except Exception as e:  # noqa: preparing these cases builds Analysis objects; their failure must not hide the rest
        ctx.notes.append(f'window oracle cases not generated: {type(e).__name__}: {str(e)[:200]}')
    return cases


def oracle(ctx, deep=False, broken=None):
    cases = oracle_cases(ctx, deep)
    fails = first_failures(cases, check_case, key=fail_key)
    for f in fails:
        f['input'] = {k: v for k, v in f['input'].items() if not k.startswith('_')}
    return fails, {'evaluations': len(cases)}


def replay(ctx, payload):
    _cache.clear()
    return check_case(dict(payload['input'])) is not None
