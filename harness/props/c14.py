"""C14 - parallel runs execute exactly the requested trials per input."""
from __future__ import annotations

import contextlib
import io
import json
import os
import shutil
import tempfile
import types
from unittest import mock

from harness.core import Stream
from harness.util import first_failures

ID = 'C14'
LEVEL = 'proof'
LEVEL_TEXT = ('Lean theorems for every number of input files I>=1, nodes N, cores C and trials T with N*C >= I: '
              'the tasks started by all nodes together run exactly T trials on every input, every task gets '
              '>= 1 trial once T covers the tasks of one input, result/progress file names are pairwise distinct '
              '(zero-padded decimal task number is injective), run_parallel raises nothing, and the only '
              'arithmetic error (division by zero) occurs exactly when N*C < I. The model is a line-by-line '
              'transcription of run_parallel tied to cli.py by differential runs over every job index. '
              'End of the pipeline: the task body run_file is modelled as the composition of the input-file '
              'expansion (C13 model), the batch save/resume protocol (C12 model, save frequency 1) and the trial '
              'bookkeeping (C11 model); theorems: from a results file that is absent or holds k trials for every '
              'expanded simulation, run_file(n) ends without error within an explicit step bound and the file '
              'then holds, for every expanded simulation, exactly max(k, n) trials with equally long lists and '
              'records of no other simulation (run_file_completes_requested_trials); composed with the plan, '
              'the trials recorded for every simulation of every input in the result files of its tasks sum to '
              'exactly T (plan_then_run_conserves_trials). Tied to the code by really executing run_file '
              '(tiny codes, MatchingDecoder / BP-OSD, .json and .json.gz, fresh and pre-existing results files, '
              'progress=tqdm and log_file as run_parallel passes them) and the chain run_parallel -> run_file '
              'per task -> merge-results -> Analysis.')
LEVEL_NOTE = ('trusted: Lean kernel + standard axioms; correspondence harness; run_parallel is observed at the '
              'arguments of the multiprocessing.Process objects it creates (Process, cpu_count and glob are '
              'replaced by recording stubs in the plan streams; in the plan-run-merge stream Process is an '
              'in-process executor whose start() runs the task body at once, so concurrency between tasks is not '
              'exercised - tasks write pairwise distinct files, proved). The run_file theorems cover method '
              'direct, pairwise different expanded simulations and a uniform pre-existing file (the state an '
              'earlier run_file call leaves); a results file with records of other simulations, repeated '
              'simulations, or a changed specification are compared with the model by differential runs only '
              '(records of simulations no longer requested are dropped by the next save - modelled, observed). '
              'Trial outcomes inside the records are C11\'s business; here only identity, counts, list lengths '
              'and the record relations are compared. Crash / interrupt schedules of the task are C12.')
TECHNIQUE = ('Lean 4 proof (induction on the task index, interval characterisation of each input, omega; for '
             'run_file: the C12 invariant + a linearised termination measure giving an explicit fuel bound) + '
             'differential correspondence with the compiled model driver over a full box of (I,N,C,T,job), '
             'random larger configurations, real run_file calls chained on one results file, and the executed '
             'plan -> run -> merge -> Analysis pipeline')
TRUSTED = ['multiprocessing.Process(target, args, kwargs) runs run_file(*args, **kwargs) once when started '
           '(stubbed / executed in-process); glob order is whatever the OS returns (the stub returns a fixed '
           'unsorted list); Python integer // and % on non-negative ints = Nat div/mod; str.zfill on digit strings',
           'identity of recorded inputs: Python == on the JSON-like inputs dictionaries = the model\'s sameInputs '
           '(numbers by value, dictionaries by key), compared on every differential run through the identity '
           'numbers of the expanded simulations']
ASSUMPTIONS = ['non-negative integer options (negative --trials/--n_cores are not modelled)',
               'all N invocations see the same list of input files in the same order (the code does not sort '
               'the glob result)',
               'run_file theorems: method direct; the simulations of one input file have pairwise different '
               'recorded inputs; nobody else writes the results file while the task runs']
ANCHOR_FILES = ['panqec/cli.py', 'panqec/simulation/_batch_simulation.py', 'panqec/simulation/_base_simulation.py',
                'panqec/simulation/_direct_simulation.py', 'panqec/utils.py']
RULE = ('one model-driver op per (n_inputs, n_nodes, n_cores option, cpu_count, trials, job_idx); implementation '
        'answer = the (input index, n_runs, result file, log file) of every Process created, as canonical text; '
        'one op per real run_file call (answer = batch label/method, identity numbers, progress log text, range '
        'given to progress, number of run_once calls, temp file, results document record by record); one op per '
        'executed pipeline and group of inputs (answer = trials per (input, simulation) reported by Analysis on '
        'the merged file)')


# ------------------------------------------------------------------ running the implementation

class _Rec:
    """Recording stand-in for multiprocessing.Process."""
    log = None

    def __init__(self, *a, **kw):
        self.target = kw.get('target', a[1] if len(a) > 1 else None)
        self.args = tuple(kw.get('args', ()))
        self.kwargs = dict(kw.get('kwargs', {}) or {})
        self.started = 0
        self.joined = 0
        _Rec.log.append(self)

    def start(self):
        self.started += 1

    def join(self, *a, **kw):
        self.joined += 1


class Env:
    """A temp data dir + the patches; reused for many invocations."""

    def __init__(self):
        self.dir = tempfile.mkdtemp(prefix='verif_c14_')

    def close(self):
        shutil.rmtree(self.dir, ignore_errors=True)

    def input_names(self, n_inputs):
        # deliberately not sorted: run_parallel uses the glob order as it comes
        base = ['zeta', 'alpha', 'mid_10', 'mid_2', 'b', 'a']
        names = [(base[k] if k < len(base) else f'in_{(k * 7919) % 1009}_{k}') + '.json'
                 for k in range(n_inputs)]
        return [os.path.join(self.dir, 'inputs', n) for n in names]

    def invoke(self, I, N, cores_opt, cpu, T, job, via='callback'):
        """Returns ('ok', [Process records], input list) or ('exc', exception, input list)."""
        import panqec.cli as pcli
        inputs = self.input_names(I)
        _Rec.log = []
        fake_mp = types.SimpleNamespace(Process=_Rec, cpu_count=lambda: cpu)
        out = io.StringIO()
        with mock.patch.object(pcli, 'multiprocessing', fake_mp), \
                mock.patch.object(pcli, 'glob', lambda pattern, *a, **k: list(inputs)), \
                contextlib.redirect_stdout(out):
            try:
                if via == 'click':
                    from click.testing import CliRunner
                    argv = ['-d', self.dir, '-t', str(T), '-n', str(N), '-j', str(job)]
                    if cores_opt is not None:
                        argv += ['-c', str(cores_opt)]
                    res = CliRunner().invoke(pcli.run_parallel, argv)
                    if res.exception is not None and not isinstance(res.exception, SystemExit):
                        return 'exc', res.exception, inputs
                    if res.exit_code != 0:
                        return 'exc', RuntimeError(f'exit {res.exit_code}: {res.output[-200:]}'), inputs
                else:
                    pcli.run_parallel.callback(self.dir, T, N, job, cores_opt, False)
            except Exception as e:  # noqa: BLE001
                return 'exc', e, inputs
        return 'ok', list(_Rec.log), inputs


def classify_exc(e):
    name = type(e).__name__
    msg = str(e)
    if name == 'AssertionError':
        if 'job_id' in msg:
            return 'ERR assert-job'
        if 'cores' in msg:
            return 'ERR assert-cores'
        return 'ERR assert'
    if name == 'ValueError' and 'No input files' in msg:
        return 'ERR no-inputs'
    if name == 'ZeroDivisionError':
        return 'ERR zerodiv'
    return f'EXC:{name}:{msg[:80]}'


def canon(env, status, payload, inputs):
    if status == 'exc':
        return classify_exc(payload)
    from panqec.simulation import run_file
    parts = []
    in_dir = os.path.abspath(os.path.join(env.dir, 'inputs'))
    res_dir = os.path.abspath(os.path.join(env.dir, 'results'))
    log_dir = os.path.abspath(os.path.join(env.dir, 'logs', 'progress'))
    names = [os.path.basename(f) for f in inputs]
    for p in payload:
        if p.target is not run_file:
            return 'BAD target is not run_file'
        if len(p.args) != 3:
            return f'BAD args {len(p.args)}'
        inp, resf, n_runs = p.args
        if p.started != 1:
            return f'BAD process started {p.started} times'
        if os.path.dirname(inp) != in_dir or os.path.basename(inp) not in names:
            return f'BAD input {inp}'
        if os.path.dirname(resf) != res_dir:
            return f'BAD result dir {resf}'
        logf = p.kwargs.get('log_file')
        if logf is None or os.path.dirname(logf) != log_dir:
            return f'BAD log file {logf}'
        parts.append(f'{names.index(os.path.basename(inp))}:{n_runs}:{os.path.basename(resf)}:'
                     f'{os.path.basename(logf)}')
    return ';'.join(parts) if parts else '-'


def add_case(s, env, I, N, cores_opt, cpu, T, job, via, tag):
    st, payload, inputs = env.invoke(I, N, cores_opt, cpu, T, job, via=via)
    ans = canon(env, st, payload, inputs)
    copt = 0 if not cores_opt else cores_opt
    s.add(f'plan {I} {N} {copt} {cpu} {T} {job}', ans,
          {'I': I, 'N': N, 'cores_opt': cores_opt, 'cpu': cpu, 'T': T, 'job': job, 'via': via},
          nontrivial=not ans.startswith('ERR'), tag=tag)


def correspondence(ctx):
    rng = ctx.np_rng(14)
    env = Env()
    streams = []
    try:
        # --- full box, every job index
        s = Stream('run_parallel-box')
        Imax, Nmax, Cmax = (6, 4, 6) if ctx.thorough else (4, 3, 4)
        Ts = list(range(0, 41)) if ctx.thorough else list(range(0, 26))
        for I in range(1, Imax + 1):
            for N in range(1, Nmax + 1):
                for C in range(1, Cmax + 1):
                    for T in Ts:
                        for job in range(1, N + 1):
                            u = rng.random()
                            if u < 0.15:       # option absent: all cores of the machine
                                add_case(s, env, I, N, None, C, T, job, 'callback', 'cores-absent')
                            else:
                                cpu = C + int(rng.integers(0, 3))
                                via = 'click' if u > 0.93 else 'callback'
                                add_case(s, env, I, N, C, cpu, T, job, via,
                                         'zerodiv' if N * C < I else ('click' if via == 'click' else 'box'))
        streams.append(s.run())

        # --- random larger configurations, every job index of a sampled subset
        s = Stream('run_parallel-random')
        n = 400 if ctx.thorough else 120
        for _ in range(n):
            N = int(rng.integers(1, 25))
            C = int(rng.integers(1, 65))
            I = int(rng.integers(1, min(N * C, 300) + 1))
            if rng.random() < 0.15:
                I = N * C + int(rng.integers(-2, 3))
                I = max(I, 1)
            q, r = divmod(N * C, I)
            T = int(rng.choice([q + r, q + r + 1, int(rng.integers(1, 2000)), int(rng.integers(1, 10 ** 6)),
                                max(q - 1, 0), (q + r) * int(rng.integers(1, 50))]))
            jobs = range(1, N + 1) if N <= 4 or ctx.thorough else \
                sorted({1, N, int(rng.integers(1, N + 1)), int(rng.integers(1, N + 1))})
            via = 'click' if rng.random() < 0.2 else 'callback'
            for job in jobs:
                add_case(s, env, I, N, C, C + int(rng.integers(0, 2)), T, job, via, 'random')
        streams.append(s.run())

        # --- guards
        s = Stream('run_parallel-guards')
        for (I, N, c, cpu, T, job) in [(1, 1, 2, 4, 10, 0), (1, 1, 2, 4, 10, 2), (2, 3, 2, 4, 10, 4),
                                       (1, 1, 5, 4, 10, 1), (3, 2, 9, 8, 10, 2), (0, 1, 2, 4, 10, 1),
                                       (0, 2, None, 4, 10, 2), (0, 1, 5, 4, 10, 1), (0, 1, 2, 4, 10, 3),
                                       (5, 1, 4, 4, 10, 1), (9, 2, 4, 4, 10, 2), (1, 1, 0, 3, 7, 1),
                                       (2, 2, None, 3, 7, 2), (7, 3, None, 2, 100, 3)]:
            for via in ('callback', 'click'):
                add_case(s, env, I, N, c, cpu, T, job, via, 'guard')
        streams.append(s.run())
    finally:
        env.close()
    # --- the task body really executed: run_file, and plan -> run_file -> merge-results -> Analysis
    #     (harness/props/c14_runfile.py)
    from harness.props import c14_runfile
    streams += c14_runfile.streams(ctx)
    return streams


# ------------------------------------------------------------------ oracle

_ENV = None


class _P:
    """process record read back from a node subprocess"""

    def __init__(self, d):
        self.args = tuple(d['args'])
        self.kwargs = d['kwargs']
        self.started = d['started']


def invoke_in_subprocess(env, I, N, C, T, job, hashseed):
    """One node = one interpreter (as on a cluster), with its own string-hash seed."""
    import subprocess
    import sys
    spec = json.dumps({'dir': env.dir, 'I': I, 'N': N, 'C': C, 'T': T, 'job': job})
    e = dict(os.environ, PYTHONHASHSEED=str(hashseed))
    r = subprocess.run([sys.executable, '-m', 'harness.props.c14', spec], capture_output=True, text=True, env=e,
                       cwd=os.path.dirname(os.path.dirname(os.path.dirname(os.path.abspath(__file__)))), timeout=300)
    line = [ln for ln in r.stdout.splitlines() if ln.startswith('C14NODE ')]
    if not line:
        return 'exc', RuntimeError('node subprocess failed: ' + (r.stderr or r.stdout)[-300:]), env.input_names(I)
    d = json.loads(line[-1][8:])
    if d['status'] == 'exc':
        return 'exc', RuntimeError(d['error']), env.input_names(I)
    return 'ok', [_P(x) for x in d['procs']], env.input_names(I)


def _node_main(spec):
    """entry point of a node subprocess: run one job index and print what it would launch"""
    d = json.loads(spec)
    env = Env.__new__(Env)
    env.dir = d['dir']
    st, payload, _ = env.invoke(d['I'], d['N'], d['C'], d['C'], d['T'], d['job'])
    if st == 'exc':
        print('C14NODE ' + json.dumps({'status': 'exc', 'error': f'{type(payload).__name__}: {payload}'}))
    else:
        print('C14NODE ' + json.dumps({'status': 'ok', 'procs': [
            {'args': list(p.args), 'kwargs': {k: v for k, v in p.kwargs.items() if isinstance(v, (str, int, float, type(None)))},
             'started': p.started} for p in payload]}))


def check_config(case):
    """The statement of C14 on the implementation for one (I, N, C, T): run every node 1..N
    (case['procs']: every node in its own interpreter with its own PYTHONHASHSEED)."""
    global _ENV
    if case.get('kind') == 'pipeline':
        return check_pipeline(case)
    own = _ENV is None
    env = Env() if own else _ENV
    try:
        I, N, C, T = case['I'], case['N'], case['C'], case['T']
        if N * C < I:
            return None           # outside the quantifier
        per_input = {}
        results, logs = [], []
        n_started = 0
        for job in range(1, N + 1):
            if case.get('procs'):
                st, payload, inputs = invoke_in_subprocess(env, I, N, C, T, job, hashseed=101 * job + 7)
            else:
                st, payload, inputs = env.invoke(I, N, C, C, T, job)
            if st == 'exc':
                return f'job {job} raised {type(payload).__name__}: {payload}'
            names = [os.path.abspath(f) for f in inputs]
            for p in payload:
                if len(p.args) != 3:
                    return f'job {job}: process args {p.args!r}'
                inp, resf, n_runs = p.args
                if p.started != 1:
                    return f'job {job}: a created process was started {p.started} times'
                n_started += 1
                if os.path.abspath(inp) not in names:
                    return f'job {job}: task runs on {inp}, not an input file'
                per_input[os.path.abspath(inp)] = per_input.get(os.path.abspath(inp), 0) + n_runs
                if T >= N * C // I + N * C % I and n_runs < 1:
                    return f'job {job}: a task got {n_runs} trials'
                if n_runs < 0:
                    return f'job {job}: a task got {n_runs} trials'
                results.append(os.path.abspath(resf))
                logs.append(p.kwargs.get('log_file'))
        for f in names:
            if per_input.get(f, 0) != T:
                return (f'input #{names.index(f)} ran {per_input.get(f, 0)} trials in total, requested {T} '
                        f'(per input: {[per_input.get(g, 0) for g in names]})')
        if len(set(results)) != len(results):
            return 'two tasks share a result file'
        if len(set(logs)) != len(logs):
            return 'two tasks share a progress file'
        if n_started != N * C:
            return f'{n_started} tasks started, expected {N * C}'
        return None
    finally:
        if own:
            env.close()


def check_pipeline(case):
    """The statement of C14 at the END of the pipeline, on the implementation only: every node's run_parallel is
    executed with the tasks run in-process (real run_file on tiny codes), the result files are merged with
    merge-results and read by Analysis; every simulation of every input must show exactly T trials."""
    from harness.props import c14_runfile
    I, N, C, T = case['I'], case['N'], case['C'], case['T']
    if N * C < I:
        return None
    try:
        r, planned, err = c14_runfile.run_pipeline(I, N, C, T, first=case.get('first'))
    except Exception as e:  # noqa: BLE001
        return f'pipeline raised {type(e).__name__}: {str(e)[:120]}'
    if err:
        return err
    merged, analysis, _ = r
    for key in sorted(merged):
        if merged[key] != T:
            return (f'input #{key[0]}, simulation #{key[1]}: the result files hold {merged[key]} trials in total, '
                    f'requested {T}')
        if analysis[key] != T:
            return f'input #{key[0]}, simulation #{key[1]}: Analysis reports {analysis[key]} trials, requested {T}'
    return None


def oracle_cases(ctx, deep):
    rng = ctx.np_rng(41)
    cases = [{'I': 1, 'N': 1, 'C': 4, 'T': 10}]        # D2 regression input
    Imax, Nmax, Cmax, Tmax = (6, 4, 6, 40) if deep else (4, 3, 4, 25)
    for I in range(1, Imax + 1):
        for N in range(1, Nmax + 1):
            for C in range(1, Cmax + 1):
                if N * C < I:
                    continue
                for T in range(0, Tmax + 1):
                    cases.append({'I': I, 'N': N, 'C': C, 'T': T})
    for _ in range(300 if deep else 60):
        N = int(rng.integers(1, 20))
        C = int(rng.integers(1, 49))
        I = int(rng.integers(1, min(N * C, 200) + 1))
        q, r = divmod(N * C, I)
        T = int(rng.choice([q + r, q + r + 1, int(rng.integers(q + r, 5000 + q + r)),
                            (q + r) * int(rng.integers(1, 40)) + int(rng.integers(0, q + r))]))
        cases.append({'I': I, 'N': N, 'C': C, 'T': T})
    # the end of the pipeline: tasks really executed, merged, read by Analysis
    # (2,2,4,5), (1,1,4,4): the lower edge of the quantifier, tasks whose share is exactly ONE trial
    for (I, N, C, T) in ([(1, 1, 4, 10), (3, 2, 2, 7), (2, 2, 2, 5), (2, 2, 4, 5), (1, 1, 4, 4)] +
                         ([(4, 2, 2, 9), (1, 2, 2, 3), (5, 3, 2, 8), (2, 1, 3, 11), (3, 2, 3, 3)] if deep else [])):
        cases.append({'kind': 'pipeline', 'I': I, 'N': N, 'C': C, 'T': T})
    # the same directory run twice without --delete-existing: partial results of a smaller first request exist when
    # the requested number is run; the result files must then hold the requested number, not more, not fewer
    for (I, N, C, first, T) in ([(2, 2, 2, 4, 12), (1, 1, 3, 3, 7)] +
                                ([(3, 2, 2, 4, 9), (2, 1, 4, 8, 8), (2, 2, 2, 6, 7)] if deep else [])):
        cases.append({'kind': 'pipeline', 'I': I, 'N': N, 'C': C, 'T': T, 'first': first})
    if deep:
        # every node in its own interpreter with its own string-hash seed (as on a cluster)
        for (I, N, C, T) in [(2, 2, 1, 5), (3, 2, 2, 7), (4, 3, 2, 12), (6, 4, 3, 100), (5, 2, 4, 9)]:
            cases.append({'I': I, 'N': N, 'C': C, 'T': T, 'procs': True})
    return cases


def oracle(ctx, deep=False, broken=None):
    global _ENV
    cases = oracle_cases(ctx, deep)
    _ENV = Env()
    try:
        fails = first_failures(cases, check_config, key=lambda c: {'kind': c.get('kind', 'run_parallel')})
    finally:
        _ENV.close()
        _ENV = None
    return fails, {'evaluations': len(cases)}


def replay(ctx, payload):
    return check_config(payload['input']) is not None


if __name__ == '__main__':
    import sys as _sys
    _node_main(_sys.argv[1])
