"""C12 - interrupted batch runs resume without losing or duplicating trials.

The real `BatchSimulation` is run in-process on a cheap configuration (Toric2DCode 2x2 / 3x3,
MatchingDecoder, a few error rates / noise directions) inside a scratch directory, with fault
injection at the boundary of the process:

* `run_once` (one Monte-Carlo trial) is wrapped: hook `t` at entry; the real trial is executed
  and its `effective_error` gets a unique trial id appended (so that "kept unchanged as a prefix"
  and "none counted twice" can be decided on the file); (id -> simulation, values) is logged.
* `builtins.open` for writing inside the scratch directory: hook `o`; the returned file object
  keeps written bytes in memory until flush()/close() (as a buffered Python file may) and can stop
  the write at a byte offset class (0, header, middle, last byte, all bytes but not closed).
* `os.replace` onto the results file: hook `r`.

An injected *kill* is a BaseException that nothing in panqec catches, after which every further
write is dropped (the process is dead); an injected KeyboardInterrupt is a real one.  The same
event sequence is given to the Lean model (`batch` op of the driver) and the on-disk state class,
the outcome of every process and the in-memory results are compared.
"""
from __future__ import annotations

import builtins
import contextlib
import copy
import gzip
import io
import json
import os
import shutil
import subprocess
import sys
import tempfile

from harness.core import Stream

ID = 'C12'
LEVEL = 'proof'
LEVEL_TEXT = ('Lean theorems about the save/load/crash/restart state machine of BatchSimulation, proved by '
              'induction over an arbitrary list of events (micro-steps, kills, KeyboardInterrupts, restarts with '
              'grown specifications, non-decreasing targets and any save frequency >= 1): a restart never raises and, left '
              'alone, reaches completion after finitely many steps, a '
              'completed run leaves exactly the requested number of trials per simulation with equally long lists, '
              'the last completed save stays an unchanged prefix, no trial id occurs twice, records are adopted only '
              'on identical inputs; the old in-place protocol is refuted on a concrete crash schedule. The model is '
              'tied to the code by differential runs of the real BatchSimulation under fault injection.')
LEVEL_NOTE = ('trusted: Lean kernel + standard axioms; the correspondence harness (fault injection through '
              'builtins.open / os.replace / run_once wrappers, classification of the on-disk state); the file system '
              'model (open(w) truncates, bytes reach the disk in order, os.replace is atomic); json/gzip codecs are '
              'modelled by the classes absent/empty/torn/complete; byte offsets of real writes are sampled per class '
              '(0, header, middle, last byte, all bytes, before/after rename), not enumerated')
TECHNIQUE = ('Lean 4 proof (invariant of a protocol state machine, induction over event lists) + differential '
             'correspondence of the real BatchSimulation under injected kills / KeyboardInterrupts with the compiled '
             'model driver')
TRUSTED = ['file system: open(path, "w") creates/truncates, written bytes reach the file in order, os.replace is '
           'atomic; one process at a time uses the results file',
           'gzip/json codecs: a strict prefix of a JSON list is not valid JSON (JSONDecodeError), a non-empty strict '
           'prefix of a gzip stream raises EOFError/BadGzipFile, an empty file is a JSONDecodeError for both']
ASSUMPTIONS = ['a restarted run uses a specification that contains every simulation already in the results file '
               '(it may have grown), without duplicated entries, a target n_trials not below the recorded counts, and '
               'save_frequency >= 1',
               'restart = new process (BatchSimulation object built again from the specification)']
ANCHOR_FILES = ['panqec/simulation/_batch_simulation.py', 'panqec/simulation/_base_simulation.py',
                'panqec/simulation/_direct_simulation.py', 'panqec/utils.py']
RULE = ('one correspondence case = one scenario (1-5 processes on one results file, each with a plan of injected '
        'kills / KeyboardInterrupts); compared text = file class + records, temp-file class, process outcome and '
        'in-memory results after every process; distinct = distinct model event lines')

# --------------------------------------------------------------- universe of simulations

CODES = [('Toric2DCode', 2, 2), ('Toric2DCode', 3, 3)]
NOISES = [(0.5, 0.25, 0.25), (1.0, 0.0, 0.0)]
RATES = [0.1, 0.2, 0.3]
ENTRIES = [(c, nz, r) for c in CODES for nz in NOISES for r in RATES]   # entry id = index
KEY2ID = {(c[0], c[1], c[2], nz, 'MatchingDecoder', r): i for i, (c, nz, r) in enumerate(ENTRIES)}
FOREIGN_BASE = 1000000


def entry_run(e):
    c, nz, r = ENTRIES[e]
    return {'code': {'name': c[0], 'parameters': {'L_x': c[1], 'L_y': c[2]}},
            'error_model': {'name': 'PauliErrorModel', 'parameters': {'r_x': nz[0], 'r_y': nz[1], 'r_z': nz[2]}},
            'decoder': {'name': 'MatchingDecoder', 'parameters': {}},
            'error_rate': r}


def spec_dict(spec, via='runs'):
    """input dictionary for read_input_dict; `ranges` only for specs that are a full product"""
    if via == 'ranges':
        cs = sorted({ENTRIES[e][0] for e in spec}, key=CODES.index)
        nzs = sorted({ENTRIES[e][1] for e in spec}, key=NOISES.index)
        rs = sorted({ENTRIES[e][2] for e in spec}, key=RATES.index)
        prod = [ENTRIES.index((c, nz, r)) for c in cs for nz in nzs for r in rs]
        if prod == list(spec):
            return {'ranges': {
                'label': 'c12',
                'code': {'name': 'Toric2DCode', 'parameters': [{'L_x': c[1], 'L_y': c[2]} for c in cs]},
                'error_model': {'name': 'PauliErrorModel',
                                'parameters': [{'r_x': z[0], 'r_y': z[1], 'r_z': z[2]} for z in nzs]},
                'decoder': {'name': 'MatchingDecoder', 'parameters': {}},
                'error_rate': rs}}
    return {'runs': [entry_run(e) for e in spec]}


def ident(inp):
    """identity number of an `inputs` dict as found in a file / in memory (harness' own reading)"""
    try:
        c = inp['code']
        p = c['parameters']
        z = inp['error_model']['parameters']
        key = (c['name'], p['L_x'], p['L_y'], (z['r_x'], z['r_y'], z['r_z']), inp['decoder']['name'],
               inp['error_rate'])
        # same class names but other parameter values / another method = another simulation
        if any(v is not None for v in inp['decoder'].get('parameters', {}).values()):
            return 999
        if z.get('deformation_name') is not None or z.get('deformation_kwargs') not in (None, {}):
            return 999
        if inp.get('method', {'name': 'direct'}).get('name') != 'direct':
            return 999
        return KEY2ID.get(key, 999)
    except Exception:  # noqa: BLE001
        return 998


def foreign_inputs(e, variant):
    """inputs dict of entry e as panqec writes it, modified in one component (a different simulation)"""
    c, nz, r = ENTRIES[e]
    inp = {'code': {'name': c[0], 'parameters': {'L_x': c[1], 'L_y': c[2], 'L_z': None},
                    'n': 2 * c[1] * c[2], 'k': 2, 'd': min(c[1], c[2])},
           'error_model': {'name': 'PauliErrorModel',
                           'parameters': {'r_x': nz[0], 'r_y': nz[1], 'r_z': nz[2], 'deformation_name': None,
                                          'deformation_kwargs': {}}},
           'decoder': {'name': 'MatchingDecoder', 'parameters': {'error_type': None, 'weights': None}},
           'error_rate': r, 'method': {'name': 'direct', 'parameters': {}}}
    if variant == 'rate':
        inp['error_rate'] = 0.15
    elif variant == 'size':
        inp['code']['parameters']['L_x'] = 4
        inp['code']['n'] = 2 * 4 * c[2]
    elif variant == 'noise':
        inp['error_model']['parameters'].update({'r_x': 0.25, 'r_y': 0.25, 'r_z': 0.5})
    elif variant == 'decoder':
        inp['decoder']['name'] = 'BeliefPropagationOSDDecoder'
    elif variant == 'code':
        inp['code']['name'] = 'Planar2DCode'
    elif variant == 'decoder_params':       # same decoder class, another parameter value
        inp['decoder']['parameters']['error_type'] = 'X'
    elif variant == 'noise_params':         # same direction, deformed noise
        inp['error_model']['parameters']['deformation_name'] = 'XZZX'
    elif variant == 'method':
        inp['method'] = {'name': 'splitting', 'parameters': {'n_init_runs': 20}}
    return inp


# --------------------------------------------------------------------- fault injection

class Kill(BaseException):
    """the process is killed here (nothing in panqec catches it)"""


class Env:
    """state shared by the patched boundary functions during one process"""

    def __init__(self, sc):
        self.sc = sc
        self.dir = sc['dir']
        self.out = sc['out']
        self.plan = []
        self.count = 0
        self.dead = False
        self.events = []
        self.trace = []
        self.tagged = sc.get('tagged', True)
        self.fired = []
        self.on_replace = lambda: None

    # a hook operation is about to be performed; returns the action that fires here (or None)
    def hook(self, kind):
        if self.dead:
            raise Kill()
        while self.plan and self.plan[0][0] < self.count:
            self.plan.pop(0)            # stale (cannot happen with sorted plans)
        act = None
        if self.plan and self.plan[0][0] == self.count:
            act = self.plan.pop(0)[1]
        k = self.count
        if act in ('kill', 'ki') or (act is not None and not self.applicable(act, kind)):
            entry = 'ki' if act in ('ki', 'kiw') else 'kill'
            self.fired.append({'hook': k, 'type': kind, 'action': entry})
            if entry == 'ki':
                self.events += [f'A{k}', 'K']
                raise KeyboardInterrupt()
            self.events += [f'A{k}', 'X']
            self.dead = True
            raise Kill()
        self.count += 1
        self.trace.append(kind)
        if act is not None:
            self.fired.append({'hook': k, 'type': kind, 'action': act})
        return act, k

    def applicable(self, act, kind):
        if act == 'kiw':
            # a KeyboardInterrupt inside gzip.open's header write would leak the half-built
            # GzipFile; only the plain text writer is interrupted in the middle of a write
            return kind == 'o' and self.sc['fmt'] == 'json'
        if act.startswith('killw:'):
            return kind == 'o'
        if act == 'killafter':
            return kind == 'r'
        return True


class RawCutter(io.RawIOBase):
    """file object standing for the file being written.  Like a buffered Python file, written
    bytes reach the disk only at flush() / close() (the adversarial end of what buffering allows),
    so a rename or a kill before the close finds the file without them."""

    def __init__(self, env, path, act, k):
        super().__init__()
        self.env = env
        self.path = path
        self.act = act
        self.k = k
        self.fd = os.open(path, os.O_WRONLY | os.O_CREAT | os.O_TRUNC, 0o644)
        self.buf = bytearray()
        self.cut_mode = (act or '').startswith('killw:')
        self.ki_pending = (act == 'kiw')

    def writable(self):
        return True

    def write(self, b):
        b = bytes(b)
        if self.env.dead:
            return len(b)
        self.buf += b
        if self.ki_pending and b:
            self.ki_pending = False
            self.env.events += [f'A{self.k}', 'T', 'T', 'K']
            raise KeyboardInterrupt()
        return len(b)

    def flush(self):
        if self.closed or self.env.dead or self.cut_mode:
            return
        if self.buf:
            os.write(self.fd, bytes(self.buf))
            self.buf.clear()

    def close(self):
        if self.closed:
            return
        try:
            if self.cut_mode and not self.env.dead:
                data = bytes(self.buf)
                L = len(data)
                cls = self.act.split(':')[1]
                cut = {'zero': 0, 'header': min(3, max(L - 1, 0)), 'middle': L // 2, 'last': max(L - 1, 0),
                       'all': L}[cls]
                os.write(self.fd, data[:cut])
                steps = 1 if cut == 0 else (3 if cut == L else 2)
                self.env.events += [f'A{self.k}'] + ['T'] * steps + ['X']
                self.env.dead = True
                raise Kill()
            self.flush()
        finally:
            try:
                os.close(self.fd)
            except OSError:
                pass
            super().close()


@contextlib.contextmanager
def patched(env):
    import panqec.simulation._direct_simulation as ds
    real_open = builtins.open
    real_replace = os.replace
    real_run_once = ds.run_once

    def in_dir(p):
        try:
            p = os.fspath(p)
        except TypeError:
            return False
        return isinstance(p, str) and os.path.dirname(os.path.abspath(p)) == env.dir

    def my_open(file, mode='r', *a, **kw):
        if in_dir(file) and ('w' in mode or 'a' in mode or '+' in mode):
            act, k = env.hook('o')
            raw = RawCutter(env, os.fspath(file), act, k)
            if 'b' in mode:
                return raw
            return io.TextIOWrapper(raw, encoding='utf-8', write_through=True)
        return real_open(file, mode, *a, **kw)

    def my_replace(src, dst, *a, **kw):
        if in_dir(dst):
            if env.dead:
                raise Kill()
            act, k = env.hook('r')
            real_replace(src, dst, *a, **kw)
            env.on_replace()
            if act == 'killafter':
                env.events += [f'A{k}', 'T', 'X']
                env.dead = True
                raise Kill()
            return None
        return real_replace(src, dst, *a, **kw)

    def my_run_once(code, error_model, decoder, error_rate, rng=None):
        import numpy as np
        env.hook('t')
        res = real_run_once(code, error_model, decoder, error_rate, rng=rng)
        st = env.sc['state']
        tid = st['next_id']
        st['next_id'] += 1
        try:
            key = (code.id, code.size[0], code.size[1], tuple(float(x) for x in error_model.direction),
                   decoder.id, error_rate)
        except Exception:  # noqa: BLE001
            key = None
        st['log'][tid] = {'entry': KEY2ID.get(key, 999), 'ee': [int(x) for x in res['effective_error']],
                          'su': bool(res['success']), 'cs': bool(res['codespace'])}
        if env.tagged:
            res = dict(res)
            res['effective_error'] = np.append(np.asarray(res['effective_error']).astype('int64'), tid)
        return res

    builtins.open = my_open
    os.replace = my_replace
    ds.run_once = my_run_once
    try:
        yield
    finally:
        builtins.open = real_open
        os.replace = real_replace
        ds.run_once = real_run_once


# ----------------------------------------------------------------- reading the disk

def read_doc(path):
    """('A'|'E'|'T'|'C', parsed list or None) by the harness' own reader"""
    if not os.path.isfile(path):
        return 'A', None
    raw = open(path, 'rb').read()
    if len(raw) == 0:
        return 'E', None
    try:
        if raw[:2] == b'\x1f\x8b' or path.endswith('.gz'):
            raw = gzip.decompress(raw)
        data = json.loads(raw.decode('utf-8'))
    except Exception:  # noqa: BLE001
        return 'T', None
    if not isinstance(data, list):
        return 'T', None
    return 'C', data


def rec_ids(res, tagged=True):
    ee = res.get('effective_error', [])
    if tagged:
        return [int(list(x)[-1]) for x in ee]
    return list(range(len(ee)))


def show_ids(ids):
    return '.'.join(map(str, ids)) if ids else '-'


def show_rec(idn, res, tagged=True):
    try:
        return (f"{idn}/{int(res.get('n_runs', -1))}/{show_ids(rec_ids(res, tagged))}/"
                f"{len(res.get('success', []))}/{len(res.get('codespace', []))}")
    except Exception as e:  # noqa: BLE001
        return f'{idn}/?{type(e).__name__}'


def show_doc(data, tagged=True):
    if not data:
        return '_'
    return '|'.join(show_rec(ident(r.get('inputs', {})), r.get('results', {}), tagged) for r in data)


def show_file(path, tagged=True):
    cls, data = read_doc(path)
    return f'C[{show_doc(data, tagged)}]' if cls == 'C' else cls


def tmp_paths(sc):
    return sorted(os.path.join(sc['dir'], f) for f in os.listdir(sc['dir'])
                  if os.path.join(sc['dir'], f) != sc['out'])


def show_tmp(sc, tagged=True):
    ps = tmp_paths(sc)
    if not ps:
        return 'A'
    if len(ps) > 1:
        return 'MANY'
    return show_file(ps[0], tagged)


# -------------------------------------------------------------------------- legacy protocol

def legacy_save_json(data, file):
    """save_json of the tree before commit e1e140d (in-place truncate-then-write), kept as the
    regression example that the model of the old protocol is compared with"""
    import numpy as np
    from panqec.utils import NumpyEncoder
    if os.path.splitext(file)[-1] not in ['.json', '.gz']:
        raise ValueError('extension')
    if isinstance(data, np.ndarray):
        data = data.tolist()
    if os.path.splitext(file)[-1] == '.json':
        with open(file, 'w') as f:
            json.dump(data, f, cls=NumpyEncoder)
    else:
        with gzip.open(file, 'wb') as gz:
            gz.write(json.dumps(data, cls=NumpyEncoder).encode('utf-8'))


# ------------------------------------------------------------------------------ scenarios

OUTCOME_EXC = {'EOFError': 'failed:eof', 'BadGzipFile': 'failed:eof', 'ZeroDivisionError': 'failed:zeroDiv'}


def new_scenario_state(sc):
    d = tempfile.mkdtemp(prefix='c12_')
    sc['dir'] = d
    sc['out'] = os.path.join(d, 'results.json' + ('.gz' if sc['fmt'] == 'gz' else ''))
    sc['state'] = {'next_id': 0, 'log': {}, 'saves': [], 'round': 0}


def write_put(sc, put):
    """external change of the results file; returns the model token"""
    out = sc['out']
    kind = put['kind']
    if kind == 'absent':
        if os.path.exists(out):
            os.remove(out)
        return 'P:a'
    if kind == 'empty':
        open(out, 'wb').close()
        return 'P:e'
    if kind == 'torn':
        cls, data = read_doc(out)
        raw = open(out, 'rb').read() if cls == 'C' else b''
        if len(raw) < 4:
            raw = json.dumps([{'results': {'n_runs': 1}, 'inputs': {}}]).encode()
            if sc['fmt'] == 'gz':
                raw = gzip.compress(raw)
        cut = max(1, int(len(raw) * put.get('frac', 0.5)))
        cut = min(cut, len(raw) - 1)
        open(out, 'wb').write(raw[:cut])
        return 'P:t'
    if kind == 'doc':
        recs = []
        toks = []
        for r in put['records']:
            ids = list(r['ids'])
            inputs = foreign_inputs(r['entry'], r.get('variant'))
            ls = r.get('len_su', len(ids))
            lc = r.get('len_cs', len(ids))
            recs.append({'results': {'n_runs': r.get('n_runs', len(ids)), 'wall_time': 0.5,
                                     'effective_error': [[0, 0, 0, 0, i] for i in ids],
                                     'success': [True] * ls, 'codespace': [True] * lc},
                         'inputs': inputs})
            for i in ids:
                sc['state']['log'].setdefault(i, {'entry': ident(inputs), 'ee': [0, 0, 0, 0], 'su': True,
                                                  'cs': True})
            toks.append(f"{ident(inputs)}/{r.get('n_runs', len(ids))}/{show_ids(ids)}/{ls}/{lc}")
        raw = json.dumps(recs).encode()
        if sc['fmt'] == 'gz':
            raw = gzip.compress(raw)
        open(out, 'wb').write(raw)
        return 'P:c:' + ('|'.join(toks) if toks else '_')
    raise ValueError(kind)


def run_process(sc, rnd):
    """one process: build the BatchSimulation from the specification and run it under the plan.
    Returns (model tokens, snapshot text, info for the oracle)."""
    import numpy as np
    from panqec.simulation import read_input_dict
    import panqec.simulation._batch_simulation as bsm

    tagged = sc.get('tagged', True)
    st = sc['state']
    st['round'] += 1
    tokens = []
    for put in rnd.get('puts', []):
        tokens.append(write_put(sc, put))
    if rnd.get('puts'):
        st['after_puts'] = read_doc(sc['out'])
    spec = list(rnd['spec'])
    n, sf = int(rnd['n']), int(rnd['sf'])
    tokens.append(f"S:{n}:{sf}:{','.join(map(str, spec)) if spec else '-'}")
    env = Env(sc)
    env.plan = sorted([list(a) for a in rnd.get('plan', [])], key=lambda a: a[0])
    env.fired = []
    seen_saves = st['saves']

    def on_replace():
        cls, data = read_doc(sc['out'])
        seen_saves.append({'round': st['round'], 'cls': cls, 'data': data})
    env.on_replace = on_replace

    outcome = None
    mem = '_'
    buf = io.StringIO()
    bs = None
    exc_text = ''
    legacy = sc.get('legacy', False)
    real_save = bsm.save_json
    try:
        with contextlib.redirect_stdout(buf):
            bs = read_input_dict(copy.deepcopy(spec_dict(spec, rnd.get('via', 'runs'))), sc['out'],
                                 verbose=False, save_frequency=sf)
            for j, sim in enumerate(bs._simulations):
                sim.rng = np.random.default_rng([sc.get('seed', 0), st['round'], j])
            if legacy:
                bsm.save_json = legacy_save_json
            with patched(env):
                try:
                    bs.run(n)
                    outcome = 'paused' if 'Simulation paused' in buf.getvalue() else 'done'
                except Kill:
                    outcome = 'killed'
                except KeyboardInterrupt:
                    outcome = 'EXC:KeyboardInterrupt'
                except Exception as e:  # noqa: BLE001
                    name = type(e).__name__
                    exc_text = f'{name}: {e}'
                    if name == 'ValueError' and not spec:
                        outcome = 'failed:emptySpec'
                    else:
                        outcome = OUTCOME_EXC.get(name, f'EXC:{name}')
    finally:
        bsm.save_json = real_save
    tokens += env.events
    if outcome != 'killed':
        tokens.append('R')
    if outcome == 'killed':
        mem = '-'
    elif outcome in ('failed:eof', 'failed:emptySpec'):
        mem = '_'       # failed while loading: nothing was run
    elif bs is not None:
        mem = '|'.join(show_rec(ident(s._inputs), s._results, tagged) for s in bs._simulations) or '_'
    tokens.append('O')
    snap = f"file={show_file(sc['out'], tagged)} tmp={show_tmp(sc, tagged)} pc={outcome} mem={mem}"
    info = {'outcome': outcome, 'exc': exc_text, 'fired': env.fired, 'trace': ''.join(env.trace),
            'spec': spec, 'n': n, 'sf': sf}
    return tokens, snap, info


def run_scenario(sc, judge=None):
    """runs all processes of a scenario; returns (op line, implementation text, infos)"""
    sc = dict(sc)
    new_scenario_state(sc)
    try:
        tokens, snaps, infos = [], [], []
        for rnd in sc['rounds']:
            t, s, info = run_process(sc, rnd)
            tokens += t
            snaps.append(s)
            infos.append(info)
            if judge is not None:
                judge(sc, rnd, info)
        op = f"batch {'g' if sc['fmt'] == 'gz' else 'j'} {0 if sc.get('legacy') else 1} " + ' '.join(tokens)
        return op, ' ; '.join(snaps), infos
    finally:
        shutil.rmtree(sc['dir'], ignore_errors=True)


def public(sc):
    return {k: v for k, v in sc.items() if k in ('fmt', 'rounds', 'legacy', 'tagged', 'seed', 'hyp')}


# ------------------------------------------------------------------------ running many

def _worker(sc):
    try:
        viol = []
        op, impl, infos = run_scenario(sc, judge=Judge(viol) if sc.get('judge') else None)
        return {'op': op, 'impl': impl, 'infos': infos, 'viol': viol, 'err': None}
    except BaseException as e:  # noqa: BLE001
        import traceback
        return {'op': 'batch j 1 O', 'impl': f'HARNESS-EXC {type(e).__name__}: {e}', 'infos': [], 'viol': [],
                'err': traceback.format_exc()[-1500:]}


def run_many(scs, workers=None):
    scs = list(scs)
    if not scs:
        return []
    workers = workers or min(8, os.cpu_count() or 1)
    if workers <= 1 or len(scs) < 8:
        return [_worker(sc) for sc in scs]
    import multiprocessing as mp
    import panqec.simulation  # noqa: F401  (imported before the fork)
    ctxm = mp.get_context('fork')
    with ctxm.Pool(workers) as pool:
        return pool.map(_worker, scs, chunksize=max(1, len(scs) // (workers * 8)))


# ------------------------------------------------------------------------------ generators

ACTIONS = {'t': ['kill', 'ki'],
           'o': ['kill', 'ki', 'killw:zero', 'killw:header', 'killw:middle', 'killw:last', 'killw:all', 'kiw'],
           'r': ['kill', 'ki', 'killafter']}
SFS = [1, 2, 3, 5]


def dry_trace(fmt, rnd, legacy=False, pre=None):
    sc = {'fmt': fmt, 'rounds': (pre or []) + [dict(rnd, plan=[])], 'legacy': legacy}
    _, _, infos = run_scenario(sc)
    return infos[-1]['trace']


def grow(rng, spec, k):
    rest = [e for e in range(len(ENTRIES)) if e not in spec]
    add = [rest[i] for i in rng.permutation(len(rest))[:k]]
    return list(spec) + [int(a) for a in add]


def systematic(rng, fmt, base, restarts, legacy=False, pre=None, subsample=None):
    """every hook of the process `base` x every action applicable there, followed by each restart"""
    trace = dry_trace(fmt, base, legacy, pre)
    out = []
    for k, kind in enumerate(trace):
        for act in ACTIONS[kind]:
            if legacy and act == 'killafter':
                continue
            if act == 'kiw' and fmt != 'json':
                continue
            plans = [[[k, act]]]
            if act in ('ki', 'kiw'):
                # the interrupted save is retried: stop the retry as well
                plans.append([[k, act], [k + 1, 'killw:middle']])
                plans.append([[k, act], [k + 2, 'ki']])
            for plan in plans:
                for rs in restarts:
                    out.append({'fmt': fmt, 'legacy': legacy,
                                'rounds': (pre or []) + [dict(base, plan=plan)] + [dict(r, plan=[]) for r in rs],
                                'tag': f'{kind}:{act}', 'hyp': not legacy})
    if subsample is not None and len(out) > subsample:
        idx = sorted(rng.permutation(len(out))[:subsample])
        out = [out[i] for i in idx]
    return out


def random_scenarios(rng, count, within=True):
    """several stop/restart rounds on one file; `within` = inside the hypotheses of the theorems
    (grown specifications without duplicates, non-decreasing targets, save frequency >= 1)"""
    out = []
    for _ in range(count):
        fmt = 'gz' if rng.random() < 0.5 else 'json'
        nr = int(rng.integers(2, 6))
        spec = grow(rng, [], int(rng.integers(1, 4)))
        n = int(rng.integers(1, 5))
        rounds = []
        for r in range(nr):
            if r > 0:
                if rng.random() < 0.5:
                    spec = grow(rng, spec, int(rng.integers(1, 3)))
                if rng.random() < 0.6:
                    n += int(rng.integers(0, 4))
            sf = int(rng.choice(SFS + [n + 1, n + 4]))
            plan = []
            if r < nr - 1 or rng.random() < 0.3:
                h = int(rng.integers(0, 3 + 2 * len(spec) * max(n, 1)))
                for _ in range(int(rng.integers(1, 3))):
                    acts = ['kill', 'ki', 'killw:zero', 'killw:header', 'killw:middle', 'killw:last', 'killw:all',
                            'kiw', 'killafter']
                    plan.append([h, str(rng.choice(acts))])
                    h += int(rng.integers(1, 6))
            via = 'ranges' if rng.random() < 0.3 else 'runs'
            rounds.append({'spec': list(spec), 'n': n, 'sf': sf, 'plan': plan, 'via': via})
        out.append({'fmt': fmt, 'rounds': rounds, 'tag': 'random-rounds', 'hyp': True})
    return out


def outside_scenarios(rng, count):
    """outside the hypotheses of the theorems (compared with the model only): decreasing targets,
    shrunk / reordered / duplicated specifications, empty specification, save frequency 0, n = 0"""
    out = []
    kinds = ['decrease', 'shrink', 'reorder', 'dup', 'empty', 'sf0', 'n0']
    for c in range(count):
        kind = kinds[c % len(kinds)]
        fmt = 'gz' if rng.random() < 0.5 else 'json'
        spec = grow(rng, [], int(rng.integers(2, 4)))
        n = int(rng.integers(2, 5))
        r1 = {'spec': spec, 'n': n, 'sf': int(rng.choice(SFS)), 'plan': []}
        if rng.random() < 0.4:
            r1['plan'] = [[int(rng.integers(0, 12)), 'kill']]
        r2 = {'spec': list(spec), 'n': n + 1, 'sf': int(rng.choice(SFS)), 'plan': []}
        if kind == 'decrease':
            r2['n'] = max(0, n - int(rng.integers(1, 3)))
        elif kind == 'shrink':
            r2['spec'] = spec[1:]
        elif kind == 'reorder':
            r2['spec'] = spec[::-1]
        elif kind == 'dup':
            r1['spec'] = spec + [spec[0]]
            r2['spec'] = spec + [spec[0]]
        elif kind == 'empty':
            r2['spec'] = []
        elif kind == 'sf0':
            r2['sf'] = 0
        elif kind == 'n0':
            r1['n'] = 0
        r3 = {'spec': grow(rng, r2['spec'], 1), 'n': n + 2, 'sf': 2, 'plan': []}
        out.append({'fmt': fmt, 'rounds': [r1, r2, r3], 'tag': f'outside:{kind}'})
    return out


def foreign_scenarios(rng, count, wellformed_only=False):
    """results files that exist before the run: torn / empty files, records of other simulations
    (differing in one component), records of requested simulations, malformed records"""
    out = []
    variants = ['rate', 'size', 'noise', 'decoder', 'code', 'decoder_params', 'noise_params', 'method']
    for c in range(count):
        fmt = 'gz' if rng.random() < 0.5 else 'json'
        spec = grow(rng, [], int(rng.integers(1, 4)))
        n = int(rng.integers(2, 5))
        base = FOREIGN_BASE + 1000 * c
        mode = c % 4
        puts = []
        if mode == 0 and not wellformed_only:
            kind = ['torn', 'empty', 'torn', 'absent'][(c // 4) % 4]
            puts = [{'kind': kind, 'frac': float(rng.choice([0.01, 0.3, 0.6, 0.99]))}]
            tag = f'put:{kind}'
        else:
            recs = []
            nid = base
            # other simulations, each differing from a requested one in exactly one component
            for e in spec:
                if rng.random() < 0.7:
                    k = int(rng.integers(1, 6))
                    recs.append({'entry': e, 'variant': str(rng.choice(variants)),
                                 'ids': list(range(nid, nid + k))})
                    nid += k
            # an entry of the universe that is not requested
            others = [e for e in range(len(ENTRIES)) if e not in spec]
            e = int(rng.choice(others))
            recs.append({'entry': e, 'ids': list(range(nid, nid + 3))})
            nid += 3
            # requested simulations that already have results
            for e in spec:
                if rng.random() < 0.5:
                    k = int(rng.integers(0, n + 1))
                    recs.append({'entry': e, 'ids': list(range(nid, nid + k))})
                    nid += k
            if mode == 3 and not wellformed_only:
                r = recs[-1]
                r['n_runs'] = len(r['ids']) + 1
                r['len_su'] = max(0, len(r['ids']) - 1)
                tag = 'put:malformed-doc'
            else:
                tag = 'put:foreign-doc'
            order = rng.permutation(len(recs))
            puts = [{'kind': 'doc', 'records': [recs[i] for i in order]}]
        r1 = {'spec': spec, 'n': n, 'sf': int(rng.choice(SFS)), 'plan': [], 'puts': puts}
        if rng.random() < 0.5:
            r1['plan'] = [[int(rng.integers(0, 10)), str(rng.choice(['kill', 'killw:middle', 'ki']))]]
        r2 = {'spec': grow(rng, spec, int(rng.integers(0, 2))), 'n': n + int(rng.integers(0, 3)),
              'sf': int(rng.choice(SFS)), 'plan': []}
        out.append({'fmt': fmt, 'rounds': [r1, r2], 'tag': tag, 'hyp': tag == 'put:foreign-doc'})
    return out


def restart_variants(rng, base, how_many):
    """restart configurations after `base`: same / grown specification, same / larger target"""
    spec, n = base['spec'], base['n']
    cands = [
        [{'spec': list(spec), 'n': n, 'sf': base['sf']}],
        [{'spec': grow(rng, spec, 1), 'n': n + 1, 'sf': int(rng.choice(SFS))}],
        [{'spec': list(spec), 'n': n + 2, 'sf': n + 5}],
        [{'spec': grow(rng, spec, 2), 'n': n, 'sf': 1},
         {'spec': grow(rng, spec, 2), 'n': n + 1, 'sf': 2}],
    ]
    # the second element of the last candidate must extend the first
    cands[3][1]['spec'] = grow(rng, cands[3][0]['spec'], 1)
    return cands[:how_many]


def systematic_set(ctx, rng, oracle=False):
    thorough = ctx.thorough
    bases = [{'spec': [0, 1], 'n': 3, 'sf': 1, 'via': 'ranges'}, {'spec': [2, 6], 'n': 3, 'sf': 2},
             {'spec': [4], 'n': 2, 'sf': 5}, {'spec': [1, 3, 8], 'n': 4, 'sf': 3}]
    if thorough:
        bases += [{'spec': [0, 5, 7, 10], 'n': 5, 'sf': 2}, {'spec': [9], 'n': 6, 'sf': 1},
                  {'spec': [2, 3], 'n': 5, 'sf': 5}, {'spec': [11, 0], 'n': 1, 'sf': 1}]
    scs = []
    for fmt in ('json', 'gz'):
        for bi, base in enumerate(bases):
            nrest = 4 if thorough else (2 if bi < 2 else 1)
            rs = restart_variants(rng, base, 4)
            rs = [rs[i] for i in rng.permutation(4)[:nrest]]
            sub = None if thorough else (70 if oracle else 110)
            scs += systematic(rng, fmt, base, rs, subsample=sub)
            # crash points of a *restarted* process (file already present: one save_json per save)
            if bi in (0, 3) or thorough:
                pre = [dict(base, plan=[])]
                b2 = {'spec': grow(rng, base['spec'], 1), 'n': base['n'] + 2, 'sf': int(rng.choice(SFS))}
                rs2 = [[{'spec': list(b2['spec']), 'n': b2['n'], 'sf': 1}]]
                scs += systematic(rng, fmt, b2, rs2, pre=pre, subsample=None if thorough else 40)
    return scs


# -------------------------------------------------------------------------- correspondence

def correspondence(ctx):
    import panqec.simulation  # noqa: F401
    rng = ctx.np_rng(12)
    streams = []

    def stream(name, scs):
        s = Stream(name)
        res = run_many(scs)
        for sc, r in zip(scs, res):
            if r['err']:
                ctx.notes.append(f'harness exception in {name}: {r["err"][-300:]}')
            s.add(r['op'], r['impl'], public(sc), nontrivial=True, tag=sc.get('tag'))
            for info in r['infos']:
                for f in info['fired']:
                    t = f"fired:{f['type']}:{f['action']}"
                    s.hist[t] = s.hist.get(t, 0) + 1
                o = 'outcome:' + info['outcome']
                s.hist[o] = s.hist.get(o, 0) + 1
        streams.append(s.run())

    stream('crash-points-systematic', systematic_set(ctx, rng))
    stream('random-stop-restart-rounds', random_scenarios(rng, 400 if ctx.thorough else 90))
    stream('pre-existing-files', foreign_scenarios(rng, 200 if ctx.thorough else 48))
    stream('outside-hypotheses', outside_scenarios(rng, 140 if ctx.thorough else 35))
    # the old in-place protocol (regression example): the same machine with atomic := false,
    # compared with BatchSimulation running the pre-fix save_json
    leg = []
    for fmt in ('json', 'gz'):
        base = {'spec': [0, 1], 'n': 3, 'sf': 1}
        leg += systematic(rng, fmt, base, [[{'spec': [0, 1], 'n': 3, 'sf': 1}]], legacy=True,
                          subsample=None if ctx.thorough else 40)
    stream('legacy-inplace-protocol', leg)
    if ctx.thorough:
        streams.append(subprocess_stream(ctx, rng))
    return streams


# ---------------------------------------------------------------------------------- oracle

def _is_prefix(a, b):
    return len(a) <= len(b) and list(b[:len(a)]) == list(a)


class Judge:
    """The property as stated, evaluated on what the implementation left on disk (independent of
    the Lean model).  Called after every process of a scenario."""

    def __init__(self, viol):
        self.viol = viol
        self.base = None        # content of the last completed save observed so far

    def bad(self, sc, kind, msg):
        self.viol.append({'kind': kind, 'round': sc['state']['round'], 'msg': msg[:400]})

    def check_step(self, sc, prev, cur, spec, where):
        """every record of a completed save must stay an unchanged prefix"""
        for p in prev:
            i = ident(p.get('inputs', {}))
            if i not in spec:
                continue
            cands = [c for c in cur if ident(c.get('inputs', {})) == i]
            if not cands:
                self.bad(sc, 'save-lost', f'{where}: record of simulation {i} of the last completed save is gone')
                continue
            c = cands[0]['results']
            pr = p['results']
            for key in ('effective_error', 'success', 'codespace'):
                a = [list(x) if isinstance(x, list) else x for x in pr.get(key, [])]
                b = [list(x) if isinstance(x, list) else x for x in c.get(key, [])]
                if not _is_prefix(a, b):
                    self.bad(sc, 'prefix-changed',
                             f'{where}: {key} of simulation {i}: saved {len(a)} entries are not a prefix of the '
                             f'later {len(b)} entries')
                    break

    def check_ids(self, sc, data, spec, where):
        log = sc['state']['log']
        seen = {}
        for pos, r in enumerate(data):
            i = ident(r.get('inputs', {}))
            res = r.get('results', {})
            for j, x in enumerate(res.get('effective_error', [])):
                tid = int(list(x)[-1])
                if tid in seen:
                    self.bad(sc, 'trial-twice', f'{where}: trial {tid} occurs in record {seen[tid]} and again in '
                                                f'record {pos}')
                    return
                seen[tid] = pos
                lg = log.get(tid)
                if lg is None:
                    self.bad(sc, 'unknown-trial', f'{where}: trial {tid} was never run')
                    return
                if lg['entry'] != i:
                    self.bad(sc, 'foreign-adopted', f'{where}: record of simulation {i} contains trial {tid} that '
                                                    f'was run for simulation {lg["entry"]}')
                    return
                if list(x)[:-1] != lg['ee']:
                    self.bad(sc, 'trial-changed', f'{where}: effective_error of trial {tid} differs from the run')
                    return
                su, cs = res.get('success', []), res.get('codespace', [])
                if j < len(su) and bool(su[j]) != lg['su'] or j < len(cs) and bool(cs[j]) != lg['cs']:
                    self.bad(sc, 'trial-changed', f'{where}: success/codespace of trial {tid} differ from the run')
                    return

    def __call__(self, sc, rnd, info):
        st = sc['state']
        tagged = sc.get('tagged', True)
        spec, n = info['spec'], info['n']
        out = info['outcome']
        if rnd.get('puts'):
            cls0, data0 = st.get('after_puts', ('A', None))
            self.base = data0 if cls0 == 'C' else None
        if out.startswith('failed') or out.startswith('EXC'):
            self.bad(sc, 'restart-raised', f'process {st["round"]} ended with {out} {info["exc"]}')
        cls, data = read_doc(sc['out'])
        # chain of completed saves: each must extend the previous one
        chain = [s['data'] for s in st['saves'] if s['round'] == st['round'] and s['cls'] == 'C']
        if any(s['round'] == st['round'] and s['cls'] != 'C' for s in st['saves']):
            self.bad(sc, 'save-lost', 'results file unreadable right after a completed save')
        if cls == 'C':
            chain.append(data)
        elif self.base is not None or chain:
            self.bad(sc, 'save-lost', f'results file is {cls} although a save had completed')
        prev = self.base
        for k, cur in enumerate(chain):
            if prev is not None:
                self.check_step(sc, prev, cur, spec, f'process {st["round"]} save {k}')
            prev = cur
        if chain:
            self.base = chain[-1]
        if cls == 'C' and tagged:
            self.check_ids(sc, [r for r in data if ident(r.get('inputs', {})) in spec], spec,
                           f'file after process {st["round"]}')
        if out == 'done' and n >= 1:
            if cls != 'C':
                self.bad(sc, 'wrong-count', f'completed run left the results file {cls}')
                return
            ids = [ident(r.get('inputs', {})) for r in data]
            if sorted(i for i in ids if i in spec) != sorted(spec):
                self.bad(sc, 'wrong-records', f'completed run: records {ids} for specification {list(spec)}')
            for r in data:
                if ident(r.get('inputs', {})) not in spec:
                    continue
                res = r.get('results', {})
                lens = [len(res.get(k, [])) for k in ('effective_error', 'success', 'codespace')]
                if res.get('n_runs') != n or lens != [n, n, n]:
                    self.bad(sc, 'wrong-count',
                             f'completed run with n_trials={n}: simulation {ident(r.get("inputs", {}))} has '
                             f'n_runs={res.get("n_runs")} list lengths={lens}')
                    break


def check_scenario(sc):
    sc = dict(sc)
    sc['judge'] = True
    r = _worker(sc)
    return r['viol']


def oracle_scenarios(ctx, rng, deep):
    scs = systematic_set(ctx, rng, oracle=True) if deep else []
    if not deep:
        # crash points of one small configuration, all actions, both formats
        for fmt in ('json', 'gz'):
            base = {'spec': [0, 7], 'n': 3, 'sf': 2}
            rs = [[{'spec': [0, 7, 2], 'n': 4, 'sf': 1}]]
            scs += systematic(rng, fmt, base, rs, subsample=60)
            pre = [dict(base, plan=[])]
            b2 = {'spec': [0, 7, 2], 'n': 5, 'sf': 3}
            scs += systematic(rng, fmt, b2, [[{'spec': [0, 7, 2], 'n': 5, 'sf': 1}]], pre=pre, subsample=30)
    scs += random_scenarios(rng, 300 if deep else 60)
    scs += foreign_scenarios(rng, 120 if deep else 32, wellformed_only=True)
    # untagged runs: the recorded values themselves (seeded generators) must stay a prefix
    for sc in random_scenarios(rng, 40 if deep else 10):
        sc['tagged'] = False
        sc['tag'] = 'untagged'
        scs.append(sc)
    return scs


def oracle(ctx, deep=False, broken=None):
    import panqec.simulation  # noqa: F401
    rng = ctx.np_rng(112)
    scs = []
    # inputs on which the correspondence differed are judged first
    for b in broken or []:
        if b.get('kind') == 'correspondence' and isinstance(b.get('detail'), list):
            for m in b['detail']:
                inp = m.get('input') if isinstance(m, dict) else None
                if isinstance(inp, dict) and 'rounds' in inp and inp.get('hyp') and not inp.get('legacy'):
                    scs.append(copy.deepcopy(inp))
    scs += oracle_scenarios(ctx, rng, deep)
    for sc in scs:
        sc['judge'] = True
    res = run_many(scs)
    best = {}
    nerr = 0
    for sc, r in zip(scs, res):
        if r['err']:
            nerr += 1
            ctx.notes.append('oracle harness exception: ' + r['err'][-300:])
        for v in r['viol']:
            key = {'kind': v['kind'], 'fmt': sc['fmt']}
            ks = json.dumps(key, sort_keys=True)
            inp = public(sc)
            size = len(json.dumps(inp))
            if ks not in best or size < best[ks][0]:
                best[ks] = (size, {'input': inp, 'observed': f"{v['kind']}: {v['msg']}", 'match': key})
    # violations seen by the judge during the real-process stream of the thorough tier
    for sc, v in getattr(ctx, 'c12_sub_viol', []):
        key = {'kind': v['kind'], 'fmt': sc['fmt'], 'real_process': True}
        ks = json.dumps(key, sort_keys=True)
        if ks not in best:
            best[ks] = (10 ** 9, {'input': dict(public(sc), real_process=True),
                                  'observed': f"{v['kind']}: {v['msg']}", 'match': key})
    fails = [best[k][1] for k in sorted(best, key=lambda k: best[k][0])]
    return fails, {'evaluations': len(scs), 'harness_exceptions': nerr,
                   'processes': sum(len(sc['rounds']) for sc in scs)}


def replay(ctx, payload):
    import panqec.simulation  # noqa: F401
    sc = copy.deepcopy(payload['input'])
    if sc.pop('real_process', False):
        return bool(_sub_worker(sc)['viol'])
    return bool(check_scenario(sc))


# ------------------------------------------------- real processes, real kills (thorough tier)

class _Proxy:
    """real (buffered) file object with the write/close boundary observed"""

    def __init__(self, real, act, k, child):
        self._real, self._act, self._k, self._child = real, act, k, child
        self._writes = 0

    def __getattr__(self, name):
        return getattr(self._real, name)

    def __enter__(self):
        return self

    def __exit__(self, *a):
        self.close()
        return False

    def write(self, b):
        r = self._real.write(b)
        self._writes += 1
        act = self._act
        if self._writes == 1 and act in ('killw:header', 'killw:middle', 'killw:last'):
            self._real.flush()
            self._child.die([f'A{self._k}', 'T', 'T', 'X'])
        if self._writes == 1 and act == 'kiw':
            self._act = None
            self._child.events += [f'A{self._k}', 'T', 'T', 'K']
            self._child.interrupt()
        return r

    def close(self):
        if self._act == 'killw:all' and not self._real.closed:
            self._real.flush()
            self._child.die([f'A{self._k}', 'T', 'T', 'T', 'X'])
        return self._real.close()


class _Child:
    def __init__(self, args):
        self.args = args
        self.plan = sorted([list(a) for a in args['plan']], key=lambda a: a[0])
        self.count = 0
        self.events = []
        self.fired = []
        self.trace = []
        self.log = {}
        self.next_id = args['next_id']
        self.real_open = builtins.open
        self.dir = args['dir']

    def side(self, outcome, mem='-', exc=''):
        with self.real_open(self.args['side'], 'w') as f:
            json.dump({'events': self.events, 'outcome': outcome, 'mem': mem, 'exc': exc, 'fired': self.fired,
                       'trace': ''.join(self.trace), 'next_id': self.next_id,
                       'log': {str(k): v for k, v in self.log.items()}}, f)

    def die(self, events):
        self.events += events
        self.side('killed')
        os._exit(137)

    def interrupt(self):
        import signal
        # a process started in the background of a non-interactive shell inherits SIGINT = ignored and Python then
        # installs no handler: make the disposition explicit, whatever the check was started from
        signal.signal(signal.SIGINT, signal.default_int_handler)
        signal.raise_signal(signal.SIGINT)      # a real SIGINT: KeyboardInterrupt is raised here

    def applicable(self, act, kind):
        if act == 'kiw':
            return kind == 'o' and self.args['fmt'] == 'json'
        if act.startswith('killw:'):
            return kind == 'o'
        if act == 'killafter':
            return kind == 'r'
        return True

    def hook(self, kind):
        act = None
        if self.plan and self.plan[0][0] == self.count:
            act = self.plan.pop(0)[1]
        k = self.count
        if act in ('kill', 'ki') or (act is not None and not self.applicable(act, kind)):
            entry = 'ki' if act in ('ki', 'kiw') else 'kill'
            self.fired.append({'hook': k, 'type': kind, 'action': entry})
            if entry == 'ki':
                self.events += [f'A{k}', 'K']
                self.interrupt()
            self.die([f'A{k}', 'X'])
        self.count += 1
        self.trace.append(kind)
        if act is not None:
            self.fired.append({'hook': k, 'type': kind, 'action': act})
        return act, k

    def in_dir(self, p):
        try:
            p = os.fspath(p)
        except TypeError:
            return False
        return isinstance(p, str) and os.path.dirname(os.path.abspath(p)) == self.dir

    def run(self):
        import numpy as np
        from panqec.simulation import read_input_dict
        import panqec.simulation._direct_simulation as ds
        a = self.args
        real_replace = os.replace
        real_run_once = ds.run_once

        def my_open(file, mode='r', *x, **kw):
            if self.in_dir(file) and ('w' in mode or 'a' in mode or '+' in mode):
                act, k = self.hook('o')
                real = self.real_open(file, mode, *x, **kw)
                if act == 'killw:zero':
                    self.die([f'A{k}', 'T', 'X'])
                return _Proxy(real, act, k, self)
            return self.real_open(file, mode, *x, **kw)

        def my_replace(src, dst, *x, **kw):
            if self.in_dir(dst):
                act, k = self.hook('r')
                real_replace(src, dst, *x, **kw)
                if act == 'killafter':
                    self.die([f'A{k}', 'T', 'X'])
                return None
            return real_replace(src, dst, *x, **kw)

        def my_run_once(code, error_model, decoder, error_rate, rng=None):
            self.hook('t')
            res = real_run_once(code, error_model, decoder, error_rate, rng=rng)
            tid = self.next_id
            self.next_id += 1
            key = (code.id, code.size[0], code.size[1], tuple(float(x) for x in error_model.direction),
                   decoder.id, error_rate)
            self.log[tid] = {'entry': KEY2ID.get(key, 999), 'ee': [int(x) for x in res['effective_error']],
                             'su': bool(res['success']), 'cs': bool(res['codespace'])}
            res = dict(res)
            res['effective_error'] = np.append(np.asarray(res['effective_error']).astype('int64'), tid)
            return res

        buf = io.StringIO()
        outcome, exc_text, bs = None, '', None
        with contextlib.redirect_stdout(buf):
            bs = read_input_dict(copy.deepcopy(spec_dict(a['spec'], a.get('via', 'runs'))), a['out'],
                                 verbose=False, save_frequency=a['sf'])
            for j, sim in enumerate(bs._simulations):
                sim.rng = np.random.default_rng([a.get('seed', 0), a['round'], j])
            builtins.open = my_open
            os.replace = my_replace
            ds.run_once = my_run_once
            try:
                bs.run(a['n'])
                outcome = 'paused' if 'Simulation paused' in buf.getvalue() else 'done'
            except KeyboardInterrupt:
                outcome = 'EXC:KeyboardInterrupt'
            except Exception as e:  # noqa: BLE001
                name = type(e).__name__
                exc_text = f'{name}: {e}'
                outcome = 'failed:emptySpec' if (name == 'ValueError' and not a['spec']) else \
                    OUTCOME_EXC.get(name, f'EXC:{name}')
            finally:
                builtins.open = self.real_open
                os.replace = real_replace
                ds.run_once = real_run_once
        if outcome in ('failed:eof', 'failed:emptySpec'):
            mem = '_'
        else:
            mem = '|'.join(show_rec(ident(s._inputs), s._results, True) for s in bs._simulations) or '_'
        self.side(outcome, mem, exc_text)


def run_scenario_subprocess(sc, judge=None):
    """like run_scenario, but every process is a real Python process and a kill is os._exit"""
    sc = dict(sc)
    new_scenario_state(sc)
    side_dir = tempfile.mkdtemp(prefix='c12side_')
    try:
        tokens, snaps, infos = [], [], []
        st = sc['state']
        for rnd in sc['rounds']:
            st['round'] += 1
            for put in rnd.get('puts', []):
                tokens.append(write_put(sc, put))
            if rnd.get('puts'):
                st['after_puts'] = read_doc(sc['out'])
            spec = list(rnd['spec'])
            tokens.append(f"S:{rnd['n']}:{rnd['sf']}:{','.join(map(str, spec)) if spec else '-'}")
            side = os.path.join(side_dir, f'side{st["round"]}.json')
            argf = os.path.join(side_dir, f'args{st["round"]}.json')
            with open(argf, 'w') as f:
                json.dump({'dir': sc['dir'], 'out': sc['out'], 'fmt': sc['fmt'], 'spec': spec, 'n': rnd['n'],
                           'sf': rnd['sf'], 'via': rnd.get('via', 'runs'), 'seed': sc.get('seed', 0),
                           'round': st['round'], 'next_id': st['next_id'], 'plan': rnd.get('plan', []),
                           'side': side}, f)
            p = subprocess.run([sys.executable, '-m', 'harness.props.c12', 'child', argf],
                               capture_output=True, text=True, timeout=300)
            if not os.path.exists(side):
                raise RuntimeError(f'child left no report rc={p.returncode}: {p.stderr[-800:]}')
            rep = json.load(open(side))
            if p.returncode == 137:
                rep['outcome'] = 'killed'
                rep['mem'] = '-'
            st['next_id'] = rep['next_id']
            for k, v in rep['log'].items():
                st['log'][int(k)] = v
            tokens += rep['events']
            if rep['outcome'] != 'killed':
                tokens.append('R')
            tokens.append('o')
            snaps.append(f"file={show_file(sc['out'])} tmp=? pc={rep['outcome']} mem={rep['mem']}")
            info = {'outcome': rep['outcome'], 'exc': rep['exc'], 'fired': rep['fired'], 'trace': rep['trace'],
                    'spec': spec, 'n': rnd['n'], 'sf': rnd['sf']}
            infos.append(info)
            if judge is not None:
                judge(sc, rnd, info)
        op = f"batch {'g' if sc['fmt'] == 'gz' else 'j'} 1 " + ' '.join(tokens)
        return op, ' ; '.join(snaps), infos
    finally:
        shutil.rmtree(sc['dir'], ignore_errors=True)
        shutil.rmtree(side_dir, ignore_errors=True)


def _sub_worker(sc):
    try:
        viol = []
        op, impl, infos = run_scenario_subprocess(sc, judge=Judge(viol))
        return {'op': op, 'impl': impl, 'infos': infos, 'viol': viol, 'err': None}
    except BaseException as e:  # noqa: BLE001
        import traceback
        return {'op': 'batch j 1 o', 'impl': f'HARNESS-EXC {type(e).__name__}: {e}', 'infos': [], 'viol': [],
                'err': traceback.format_exc()[-1500:]}


def subprocess_scenarios(rng, count):
    scs = []
    for fmt in ('json', 'gz'):
        base = {'spec': [0, 4], 'n': 3, 'sf': 2}
        rs = [[{'spec': [0, 4, 2], 'n': 4, 'sf': 1}]]
        scs += systematic(rng, fmt, base, rs, subsample=count // 2)
    for sc in scs:
        sc['tag'] = 'subprocess:' + sc['tag']
    return scs


def subprocess_stream(ctx, rng):
    from concurrent.futures import ThreadPoolExecutor
    scs = subprocess_scenarios(rng, 64)
    with ThreadPoolExecutor(8) as ex:
        res = list(ex.map(_sub_worker, scs))
    s = Stream('subprocess-real-kill')
    for sc, r in zip(scs, res):
        if r['err']:
            ctx.notes.append('subprocess harness exception: ' + r['err'][-300:])
        s.add(r['op'], r['impl'], public(sc), nontrivial=True, tag=sc.get('tag'))
        for info in r['infos']:
            o = 'outcome:' + info['outcome']
            s.hist[o] = s.hist.get(o, 0) + 1
        ctx.c12_sub_viol = getattr(ctx, 'c12_sub_viol', []) + [(sc, v) for v in r['viol']]
    return s.run()


if __name__ == '__main__':
    if len(sys.argv) == 3 and sys.argv[1] == 'child':
        _Child(json.load(open(sys.argv[2]))).run()
