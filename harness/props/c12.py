"""C12 - interrupted batch runs resume without losing or duplicating trials.

The real `BatchSimulation` is run in-process on a cheap configuration (Toric2DCode 2x2 / 3x3,
MatchingDecoder, a few error rates / noise directions) inside a scratch directory, with fault
injection at the boundary of the process:

* `run_once` (one Monte-Carlo trial) is wrapped: hook `t` at entry; the real trial is executed
  and its `effective_error` gets a unique trial id appended (so that "kept unchanged as a prefix"
  and "none counted twice" can be decided on the file); (id -> simulation, values) is logged.
* `builtins.open` for writing inside the scratch directory: hook `o`; the returned file object is
  an unbuffered cutter that can stop the write at a byte offset class.
* `os.replace` onto the results file: hook `r`.

An injected *kill* is a BaseException that nothing in panqec catches, after which every further
write is dropped (the process is dead); an injected KeyboardInterrupt is a real one.  The same
event sequence is given to the Lean model (`batch` op of the driver) and the on-disk state class,
the outcome of every process and the in-memory results are compared.
"""
from __future__ import annotations

import builtins
import contextlib
import copy
import gzip
import io
import json
import os
import shutil
import subprocess
import sys
import tempfile

from harness.core import Stream

ID = 'C12'
LEVEL = 'proof'
LEVEL_TEXT = ('Lean theorems about the save/load/crash/restart state machine of BatchSimulation, proved by '
              'induction over an arbitrary list of events (micro-steps, kills, KeyboardInterrupts, restarts with '
              'grown specifications, non-decreasing targets and any save frequency >= 1): a restart never raises, a '
              'completed run leaves exactly the requested number of trials per simulation with equally long lists, '
              'the last completed save stays an unchanged prefix, no trial id occurs twice, records are adopted only '
              'on identical inputs; the old in-place protocol is refuted on a concrete crash schedule. The model is '
              'tied to the code by differential runs of the real BatchSimulation under fault injection.')
LEVEL_NOTE = ('trusted: Lean kernel + standard axioms; the correspondence harness (fault injection through '
              'builtins.open / os.replace / run_once wrappers, classification of the on-disk state); the file system '
              'model (open(w) truncates, bytes reach the disk in order, os.replace is atomic); json/gzip codecs are '
              'modelled by the classes absent/empty/torn/complete; byte offsets of real writes are sampled per class '
              '(0, header, middle, last byte, all bytes, before/after rename), not enumerated')
TECHNIQUE = ('Lean 4 proof (invariant of a protocol state machine, induction over event lists) + differential '
             'correspondence of the real BatchSimulation under injected kills / KeyboardInterrupts with the compiled '
             'model driver')
TRUSTED = ['file system: open(path, "w") creates/truncates, written bytes reach the file in order, os.replace is '
           'atomic; one process at a time uses the results file',
           'gzip/json codecs: a strict prefix of a JSON list is not valid JSON (JSONDecodeError), a non-empty strict '
           'prefix of a gzip stream raises EOFError/BadGzipFile, an empty file is a JSONDecodeError for both']
ASSUMPTIONS = ['a restarted run uses a specification that contains every simulation already in the results file '
               '(it may have grown), without duplicated entries, a target n_trials not below the recorded counts, and '
               'save_frequency >= 1',
               'restart = new process (BatchSimulation object built again from the specification)']
ANCHOR_FILES = ['panqec/simulation/_batch_simulation.py', 'panqec/simulation/_base_simulation.py',
                'panqec/simulation/_direct_simulation.py', 'panqec/utils.py']
RULE = ('one correspondence case = one scenario (1-5 processes on one results file, each with a plan of injected '
        'kills / KeyboardInterrupts); compared text = file class + records, temp-file class, process outcome and '
        'in-memory results after every process; distinct = distinct model event lines')

# --------------------------------------------------------------- universe of simulations

CODES = [('Toric2DCode', 2, 2), ('Toric2DCode', 3, 3)]
NOISES = [(0.5, 0.25, 0.25), (1.0, 0.0, 0.0)]
RATES = [0.1, 0.2, 0.3]
ENTRIES = [(c, nz, r) for c in CODES for nz in NOISES for r in RATES]   # entry id = index
KEY2ID = {(c[0], c[1], c[2], nz, 'MatchingDecoder', r): i for i, (c, nz, r) in enumerate(ENTRIES)}
FOREIGN_BASE = 1000000


def entry_run(e):
    c, nz, r = ENTRIES[e]
    return {'code': {'name': c[0], 'parameters': {'L_x': c[1], 'L_y': c[2]}},
            'error_model': {'name': 'PauliErrorModel', 'parameters': {'r_x': nz[0], 'r_y': nz[1], 'r_z': nz[2]}},
            'decoder': {'name': 'MatchingDecoder', 'parameters': {}},
            'error_rate': r}


def spec_dict(spec, via='runs'):
    """input dictionary for read_input_dict; `ranges` only for specs that are a full product"""
    if via == 'ranges':
        cs = sorted({ENTRIES[e][0] for e in spec}, key=CODES.index)
        nzs = sorted({ENTRIES[e][1] for e in spec}, key=NOISES.index)
        rs = sorted({ENTRIES[e][2] for e in spec}, key=RATES.index)
        prod = [ENTRIES.index((c, nz, r)) for c in cs for nz in nzs for r in rs]
        if prod == list(spec):
            return {'ranges': {
                'label': 'c12',
                'code': {'name': 'Toric2DCode', 'parameters': [{'L_x': c[1], 'L_y': c[2]} for c in cs]},
                'error_model': {'name': 'PauliErrorModel',
                                'parameters': [{'r_x': z[0], 'r_y': z[1], 'r_z': z[2]} for z in nzs]},
                'decoder': {'name': 'MatchingDecoder', 'parameters': {}},
                'error_rate': rs}}
    return {'runs': [entry_run(e) for e in spec]}


def ident(inp):
    """identity number of an `inputs` dict as found in a file / in memory (harness' own reading)"""
    try:
        c = inp['code']
        p = c['parameters']
        z = inp['error_model']['parameters']
        key = (c['name'], p['L_x'], p['L_y'], (z['r_x'], z['r_y'], z['r_z']), inp['decoder']['name'],
               inp['error_rate'])
        return KEY2ID.get(key, 999)
    except Exception:  # noqa: BLE001
        return 998


def foreign_inputs(e, variant):
    """inputs dict of entry e as panqec writes it, modified in one component (a different simulation)"""
    c, nz, r = ENTRIES[e]
    inp = {'code': {'name': c[0], 'parameters': {'L_x': c[1], 'L_y': c[2], 'L_z': None},
                    'n': 2 * c[1] * c[2], 'k': 2, 'd': min(c[1], c[2])},
           'error_model': {'name': 'PauliErrorModel',
                           'parameters': {'r_x': nz[0], 'r_y': nz[1], 'r_z': nz[2], 'deformation_name': None,
                                          'deformation_kwargs': {}}},
           'decoder': {'name': 'MatchingDecoder', 'parameters': {'error_type': None, 'weights': None}},
           'error_rate': r, 'method': {'name': 'direct', 'parameters': {}}}
    if variant == 'rate':
        inp['error_rate'] = 0.15
    elif variant == 'size':
        inp['code']['parameters']['L_x'] = 4
        inp['code']['n'] = 2 * 4 * c[2]
    elif variant == 'noise':
        inp['error_model']['parameters'].update({'r_x': 0.25, 'r_y': 0.25, 'r_z': 0.5})
    elif variant == 'decoder':
        inp['decoder']['name'] = 'BeliefPropagationOSDDecoder'
    elif variant == 'code':
        inp['code']['name'] = 'Planar2DCode'
    return inp


# --------------------------------------------------------------------- fault injection

class Kill(BaseException):
    """the process is killed here (nothing in panqec catches it)"""


class Env:
    """state shared by the patched boundary functions during one process"""

    def __init__(self, sc):
        self.sc = sc
        self.dir = sc['dir']
        self.out = sc['out']
        self.plan = []
        self.count = 0
        self.dead = False
        self.events = []
        self.trace = []
        self.tagged = sc.get('tagged', True)
        self.fired = []
        self.on_replace = lambda: None

    # a hook operation is about to be performed; returns the action that fires here (or None)
    def hook(self, kind):
        if self.dead:
            raise Kill()
        while self.plan and self.plan[0][0] < self.count:
            self.plan.pop(0)            # stale (cannot happen with sorted plans)
        act = None
        if self.plan and self.plan[0][0] == self.count:
            act = self.plan.pop(0)[1]
        k = self.count
        if act in ('kill', 'ki') or (act is not None and not self.applicable(act, kind)):
            entry = 'ki' if act in ('ki', 'kiw') else 'kill'
            self.fired.append({'hook': k, 'type': kind, 'action': entry})
            if entry == 'ki':
                self.events += [f'A{k}', 'K']
                raise KeyboardInterrupt()
            self.events += [f'A{k}', 'X']
            self.dead = True
            raise Kill()
        self.count += 1
        self.trace.append(kind)
        if act is not None:
            self.fired.append({'hook': k, 'type': kind, 'action': act})
        return act, k

    def applicable(self, act, kind):
        if act == 'kiw':
            # a KeyboardInterrupt inside gzip.open's header write would leak the half-built
            # GzipFile; only the plain text writer is interrupted in the middle of a write
            return kind == 'o' and self.sc['fmt'] == 'json'
        if act.startswith('killw:'):
            return kind == 'o'
        if act == 'killafter':
            return kind == 'r'
        return True


class RawCutter(io.RawIOBase):
    """unbuffered file object standing for the file being written"""

    def __init__(self, env, path, act, k):
        super().__init__()
        self.env = env
        self.path = path
        self.act = act
        self.k = k
        self.fd = os.open(path, os.O_WRONLY | os.O_CREAT | os.O_TRUNC, 0o644)
        self.buf = bytearray() if (act or '').startswith('killw:') else None
        self.ki_pending = (act == 'kiw')

    def writable(self):
        return True

    def write(self, b):
        b = bytes(b)
        if self.env.dead:
            return len(b)
        if self.buf is not None:
            self.buf += b
            return len(b)
        os.write(self.fd, b)
        if self.ki_pending and b:
            self.ki_pending = False
            self.env.events += [f'A{self.k}', 'T', 'T', 'K']
            raise KeyboardInterrupt()
        return len(b)

    def close(self):
        if self.closed:
            return
        try:
            if self.buf is not None and not self.env.dead:
                data = bytes(self.buf)
                L = len(data)
                cls = self.act.split(':')[1]
                cut = {'zero': 0, 'header': min(3, max(L - 1, 0)), 'middle': L // 2, 'last': max(L - 1, 0),
                       'all': L}[cls]
                os.write(self.fd, data[:cut])
                steps = 1 if cut == 0 else (3 if cut == L else 2)
                self.env.events += [f'A{self.k}'] + ['T'] * steps + ['X']
                self.env.dead = True
                raise Kill()
        finally:
            try:
                os.close(self.fd)
            except OSError:
                pass
            super().close()


@contextlib.contextmanager
def patched(env):
    import panqec.simulation._direct_simulation as ds
    real_open = builtins.open
    real_replace = os.replace
    real_run_once = ds.run_once

    def in_dir(p):
        try:
            p = os.fspath(p)
        except TypeError:
            return False
        return isinstance(p, str) and os.path.dirname(os.path.abspath(p)) == env.dir

    def my_open(file, mode='r', *a, **kw):
        if in_dir(file) and ('w' in mode or 'a' in mode or '+' in mode):
            act, k = env.hook('o')
            raw = RawCutter(env, os.fspath(file), act, k)
            if 'b' in mode:
                return raw
            return io.TextIOWrapper(raw, encoding='utf-8', write_through=True)
        return real_open(file, mode, *a, **kw)

    def my_replace(src, dst, *a, **kw):
        if in_dir(dst):
            if env.dead:
                raise Kill()
            act, k = env.hook('r')
            real_replace(src, dst, *a, **kw)
            env.on_replace()
            if act == 'killafter':
                env.events += [f'A{k}', 'T', 'X']
                env.dead = True
                raise Kill()
            return None
        return real_replace(src, dst, *a, **kw)

    def my_run_once(code, error_model, decoder, error_rate, rng=None):
        import numpy as np
        env.hook('t')
        res = real_run_once(code, error_model, decoder, error_rate, rng=rng)
        st = env.sc['state']
        tid = st['next_id']
        st['next_id'] += 1
        try:
            key = (code.id, code.size[0], code.size[1], tuple(float(x) for x in error_model.direction),
                   decoder.id, error_rate)
        except Exception:  # noqa: BLE001
            key = None
        st['log'][tid] = {'entry': KEY2ID.get(key, 999), 'ee': [int(x) for x in res['effective_error']],
                          'su': bool(res['success']), 'cs': bool(res['codespace'])}
        if env.tagged:
            res = dict(res)
            res['effective_error'] = np.append(np.asarray(res['effective_error']).astype('int64'), tid)
        return res

    builtins.open = my_open
    os.replace = my_replace
    ds.run_once = my_run_once
    try:
        yield
    finally:
        builtins.open = real_open
        os.replace = real_replace
        ds.run_once = real_run_once


# ----------------------------------------------------------------- reading the disk

def read_doc(path):
    """('A'|'E'|'T'|'C', parsed list or None) by the harness' own reader"""
    if not os.path.isfile(path):
        return 'A', None
    raw = open(path, 'rb').read()
    if len(raw) == 0:
        return 'E', None
    try:
        if path.endswith('.gz'):
            raw = gzip.decompress(raw)
        data = json.loads(raw.decode('utf-8'))
    except Exception:  # noqa: BLE001
        return 'T', None
    if not isinstance(data, list):
        return 'T', None
    return 'C', data


def rec_ids(res, tagged=True):
    ee = res.get('effective_error', [])
    if tagged:
        return [int(list(x)[-1]) for x in ee]
    return list(range(len(ee)))


def show_ids(ids):
    return '.'.join(map(str, ids)) if ids else '-'


def show_rec(idn, res, tagged=True):
    try:
        return (f"{idn}/{int(res.get('n_runs', -1))}/{show_ids(rec_ids(res, tagged))}/"
                f"{len(res.get('success', []))}/{len(res.get('codespace', []))}")
    except Exception as e:  # noqa: BLE001
        return f'{idn}/?{type(e).__name__}'


def show_doc(data, tagged=True):
    if not data:
        return '_'
    return '|'.join(show_rec(ident(r.get('inputs', {})), r.get('results', {}), tagged) for r in data)


def show_file(path, tagged=True):
    cls, data = read_doc(path)
    return f'C[{show_doc(data, tagged)}]' if cls == 'C' else cls


def tmp_paths(sc):
    return sorted(os.path.join(sc['dir'], f) for f in os.listdir(sc['dir'])
                  if os.path.join(sc['dir'], f) != sc['out'])


def show_tmp(sc, tagged=True):
    ps = tmp_paths(sc)
    if not ps:
        return 'A'
    if len(ps) > 1:
        return 'MANY'
    return show_file(ps[0], tagged)


# -------------------------------------------------------------------------- legacy protocol

def legacy_save_json(data, file):
    """save_json of the tree before commit e1e140d (in-place truncate-then-write), kept as the
    regression example that the model of the old protocol is compared with"""
    import numpy as np
    from panqec.utils import NumpyEncoder
    if os.path.splitext(file)[-1] not in ['.json', '.gz']:
        raise ValueError('extension')
    if isinstance(data, np.ndarray):
        data = data.tolist()
    if os.path.splitext(file)[-1] == '.json':
        with open(file, 'w') as f:
            json.dump(data, f, cls=NumpyEncoder)
    else:
        with gzip.open(file, 'wb') as gz:
            gz.write(json.dumps(data, cls=NumpyEncoder).encode('utf-8'))


# ------------------------------------------------------------------------------ scenarios

OUTCOME_EXC = {'EOFError': 'failed:eof', 'BadGzipFile': 'failed:eof', 'ZeroDivisionError': 'failed:zeroDiv'}


def new_scenario_state(sc):
    d = tempfile.mkdtemp(prefix='c12_')
    sc['dir'] = d
    sc['out'] = os.path.join(d, 'results.json' + ('.gz' if sc['fmt'] == 'gz' else ''))
    sc['state'] = {'next_id': 0, 'log': {}, 'saves': [], 'round': 0}


def write_put(sc, put):
    """external change of the results file; returns the model token"""
    out = sc['out']
    kind = put['kind']
    if kind == 'absent':
        if os.path.exists(out):
            os.remove(out)
        return 'P:a'
    if kind == 'empty':
        open(out, 'wb').close()
        return 'P:e'
    if kind == 'torn':
        cls, data = read_doc(out)
        raw = open(out, 'rb').read() if cls == 'C' else b''
        if len(raw) < 4:
            raw = json.dumps([{'results': {'n_runs': 1}, 'inputs': {}}]).encode()
            if sc['fmt'] == 'gz':
                raw = gzip.compress(raw)
        cut = max(1, int(len(raw) * put.get('frac', 0.5)))
        cut = min(cut, len(raw) - 1)
        open(out, 'wb').write(raw[:cut])
        return 'P:t'
    if kind == 'doc':
        recs = []
        toks = []
        for r in put['records']:
            ids = list(r['ids'])
            inputs = foreign_inputs(r['entry'], r.get('variant'))
            ls = r.get('len_su', len(ids))
            lc = r.get('len_cs', len(ids))
            recs.append({'results': {'n_runs': r.get('n_runs', len(ids)), 'wall_time': 0.5,
                                     'effective_error': [[0, 0, 0, 0, i] for i in ids],
                                     'success': [True] * ls, 'codespace': [True] * lc},
                         'inputs': inputs})
            for i in ids:
                sc['state']['log'].setdefault(i, {'entry': ident(inputs), 'ee': [0, 0, 0, 0], 'su': True,
                                                  'cs': True})
            toks.append(f"{ident(inputs)}/{r.get('n_runs', len(ids))}/{show_ids(ids)}/{ls}/{lc}")
        raw = json.dumps(recs).encode()
        if sc['fmt'] == 'gz':
            raw = gzip.compress(raw)
        open(out, 'wb').write(raw)
        return 'P:c:' + ('|'.join(toks) if toks else '_')
    raise ValueError(kind)


def run_process(sc, rnd):
    """one process: build the BatchSimulation from the specification and run it under the plan.
    Returns (model tokens, snapshot text, info for the oracle)."""
    import numpy as np
    from panqec.simulation import read_input_dict
    import panqec.simulation._batch_simulation as bsm

    tagged = sc.get('tagged', True)
    st = sc['state']
    st['round'] += 1
    tokens = []
    for put in rnd.get('puts', []):
        tokens.append(write_put(sc, put))
    spec = list(rnd['spec'])
    n, sf = int(rnd['n']), int(rnd['sf'])
    tokens.append(f"S:{n}:{sf}:{','.join(map(str, spec)) if spec else '-'}")
    env = Env(sc)
    env.plan = sorted([list(a) for a in rnd.get('plan', [])], key=lambda a: a[0])
    env.fired = []
    seen_saves = st['saves']

    def on_replace():
        cls, data = read_doc(sc['out'])
        seen_saves.append({'round': st['round'], 'cls': cls, 'data': data})
    env.on_replace = on_replace

    outcome = None
    mem = '_'
    buf = io.StringIO()
    bs = None
    exc_text = ''
    legacy = sc.get('legacy', False)
    real_save = bsm.save_json
    try:
        with contextlib.redirect_stdout(buf):
            bs = read_input_dict(copy.deepcopy(spec_dict(spec, rnd.get('via', 'runs'))), sc['out'],
                                 verbose=False, save_frequency=sf)
            for j, sim in enumerate(bs._simulations):
                sim.rng = np.random.default_rng([sc.get('seed', 0), st['round'], j])
            if legacy:
                bsm.save_json = legacy_save_json
            with patched(env):
                try:
                    bs.run(n)
                    outcome = 'paused' if 'Simulation paused' in buf.getvalue() else 'done'
                except Kill:
                    outcome = 'killed'
                except KeyboardInterrupt:
                    outcome = 'EXC:KeyboardInterrupt'
                except Exception as e:  # noqa: BLE001
                    name = type(e).__name__
                    exc_text = f'{name}: {e}'
                    if name == 'ValueError' and not spec:
                        outcome = 'failed:emptySpec'
                    else:
                        outcome = OUTCOME_EXC.get(name, f'EXC:{name}')
    finally:
        bsm.save_json = real_save
    tokens += env.events
    if outcome != 'killed':
        tokens.append('R')
    if outcome == 'killed':
        mem = '-'
    elif outcome.startswith('failed'):
        mem = '_'
    elif bs is not None:
        mem = '|'.join(show_rec(ident(s._inputs), s._results, tagged) for s in bs._simulations) or '_'
    tokens.append('O')
    snap = f"file={show_file(sc['out'], tagged)} tmp={show_tmp(sc, tagged)} pc={outcome} mem={mem}"
    info = {'outcome': outcome, 'exc': exc_text, 'fired': env.fired, 'trace': ''.join(env.trace),
            'spec': spec, 'n': n, 'sf': sf}
    return tokens, snap, info


def run_scenario(sc, judge=None):
    """runs all processes of a scenario; returns (op line, implementation text, infos)"""
    sc = dict(sc)
    new_scenario_state(sc)
    try:
        tokens, snaps, infos = [], [], []
        for rnd in sc['rounds']:
            t, s, info = run_process(sc, rnd)
            tokens += t
            snaps.append(s)
            infos.append(info)
            if judge is not None:
                judge(sc, rnd, info)
        op = f"batch {'g' if sc['fmt'] == 'gz' else 'j'} {0 if sc.get('legacy') else 1} " + ' '.join(tokens)
        return op, ' ; '.join(snaps), infos
    finally:
        shutil.rmtree(sc['dir'], ignore_errors=True)


def public(sc):
    return {k: v for k, v in sc.items() if k in ('fmt', 'rounds', 'legacy', 'tagged', 'seed')}
