"""C11 - Monte-Carlo trials are self-consistent, reproducible and calibrated."""
from __future__ import annotations

import itertools
import json
import math
import warnings
from fractions import Fraction

from harness.core import Stream
from harness.util import vec, stack, guarded, first_failures

ID = 'C11'
LEVEL = 'proof'
LEVEL_TEXT = ('Lean theorems for every code (any H, Lx, Lz), every decoder output, every error rate, every '
              'variate stream and every history of run(k) calls: each recorded trial satisfies the four field '
              'relations; all result lists have length n_runs and p_est = n_fail/n_runs; the run is a function '
              'of the first n*N uniform variates; the expectation of n_fail/N over N i.i.d. draws of any '
              'normalised finite channel equals the exact failure probability summed over all 4^n errors. '
              'The model is tied to _direct_simulation.py / fast_choice by differential runs with real decoders, '
              'including a tolerance-free calibration on a variate grid that realises dyadic channels exactly.')
LEVEL_NOTE = ('trusted: Lean kernel + standard axioms; correspondence harness; decoders are a parameter of the '
              'model (their recorded answers are replayed); probability_distribution is read from the '
              'implementation in the correspondence and recomputed independently in the oracle; bit-for-bit '
              'reproducibility of the Python program under a fixed numpy seed is a runtime test, not a theorem')
TECHNIQUE = ('Lean 4 proof (induction over run histories and over the number of trials, linearity of finite '
             'expectations over Rat) + differential correspondence with the compiled model driver + '
             'deterministic calibration by exhaustive variate grids')
TRUSTED = ['numpy Generator.random() yields independent uniform variates (the theorem is about the product '
           'channel; the link seed -> variates is numpy\'s)',
           'third-party decoders (PyMatching, ldpc) are deterministic functions of their inputs (tested by the '
           'same-seed double run)']
ASSUMPTIONS = ['0 <= error_rate <= 1 for a trial to be produced (otherwise run_once raises, modelled)',
               'calibration instances use dyadic (p, r_x, r_y, r_z) so that float arithmetic is exact']
ANCHOR_FILES = ['panqec/simulation/_direct_simulation.py', 'panqec/simulation/_base_simulation.py',
                'panqec/error_models/_pauli_error_model.py']

warnings.filterwarnings('ignore')


# ------------------------------------------------------------------ helpers

def frac(x) -> str:
    f = Fraction(x)
    return f'{f.numerator}/{f.denominator}'


def bools(l) -> str:
    l = list(l)
    return ''.join('1' if b else '0' for b in l) if l else '-'


class StubMismatch(Exception):
    """the implementation asked the scripted generator for something other than one `.random()` per
    qubit: another sampling mechanism.  Not a violation by itself (the distribution is what C11 fixes)."""


class StubRng:
    """Generator stub: `.random()` returns the next prepared variate (`.random(k)` the next k)."""

    def __init__(self, us):
        self.us = us
        self.i = 0

    def random(self, size=None, *a, **kw):
        import numpy as np
        m = 1 if size is None else int(np.prod(size))
        if self.i + m > len(self.us):
            raise StubMismatch('more variates requested than scripted')
        xs = self.us[self.i:self.i + m]
        self.i += m
        return xs[0] if size is None else np.array(xs, dtype=float).reshape(size)

    def __getattr__(self, name):
        raise StubMismatch(f'Generator.{name} requested')


class GridRng:
    """Enumerates the grid {0, 1/M, …, (M-1)/M}^n: trial t uses the base-M digits of t."""

    def __init__(self, M, n):
        self.M, self.n, self.i = M, n, 0

    def _next(self):
        t, q = divmod(self.i, self.n)
        self.i += 1
        d = (t // (self.M ** (self.n - 1 - q))) % self.M
        return d / self.M

    def random(self, size=None, *a, **kw):
        import numpy as np
        if size is None:
            return self._next()
        if int(np.prod(size)) != self.n or self.i % self.n != 0:
            raise StubMismatch('variates are not drawn one block of n per trial')
        return np.array([self._next() for _ in range(self.n)], dtype=float).reshape(size)

    def __getattr__(self, name):
        raise StubMismatch(f'Generator.{name} requested')


class DecoderFailure(Exception):
    """The third-party / library decoder itself raised: not an input of C11 (decoders are a
    parameter of the property; their own validity is C05)."""


class SpyDecoder:
    """Wraps a decoder, records (syndrome, correction) of every decode call."""

    def __init__(self, inner):
        self._inner = inner
        self.calls = []

    interrupt_at = None      # index of the decode call during which the user presses Ctrl-C (once)

    def decode(self, syndrome, **kw):
        s = [int(x) for x in syndrome]
        if self.interrupt_at is not None and len(self.calls) == self.interrupt_at:
            self.interrupt_at = None
            raise KeyboardInterrupt()
        try:
            c = self._inner.decode(syndrome, **kw)
        except Exception as e:  # noqa
            raise DecoderFailure(f'{type(e).__name__}: {e}') from e
        self.calls.append((s, [int(x) for x in c]))
        return c

    def __getattr__(self, name):
        return getattr(self._inner, name)


class ArbitraryDecoder:
    """Stand-in for "any decoder output": a fixed pseudo-random function of the syndrome, mostly
    NOT a valid correction (the field relations are claimed for every decoder output)."""
    id = 'ArbitraryDecoder'
    label = 'arbitrary'
    params: dict = {}

    def __init__(self, code, error_model, error_rate, salt=0):
        self.n = code.n
        self.salt = salt

    def decode(self, syndrome, **kw):
        import hashlib
        import numpy as np
        h = hashlib.sha256(bytes([self.salt % 256]) + bytes(int(x) for x in syndrome)).digest()
        bits = np.unpackbits(np.frombuffer(h * (1 + 2 * self.n // 256), dtype=np.uint8))[:2 * self.n]
        keep = np.unpackbits(np.frombuffer(hashlib.sha256(h).digest() * (1 + 2 * self.n // 256),
                                           dtype=np.uint8))[:2 * self.n]
        return (bits & keep).astype(np.uint8)       # density 1/4


_SHARED_EM = {}     # error-model objects shared by the members of one 'calibration-sequence' case


def build(combo):
    """combo -> (code, error_model, decoder) from the repo's own classes."""
    from panqec.config import CODES, DECODERS
    from panqec.error_models import PauliErrorModel
    DECODERS = dict(DECODERS)
    DECODERS['ArbitraryDecoder'] = ArbitraryDecoder
    code = CODES[combo['code']](*combo['size'])
    if combo.get('deform'):
        code.deform(combo['deform'])
    r = [float(Fraction(x)) for x in combo['r']]
    em = PauliErrorModel(*r, deformation_name=combo.get('ndeform'))
    if combo.get('_share') is not None:
        # one error-model OBJECT for several codes, as BatchSimulation's itertools.product(codes, error_models) does
        em = _SHARED_EM.setdefault(combo['_share'], em)
    p = float(Fraction(combo['p']))
    dec = SpyDecoder(DECODERS[combo['decoder']](code, em, p, **combo.get('dparams', {})))
    return code, em, dec, p


def mats(code):
    H = code.stabilizer_matrix.toarray().tolist()
    Lx = code.logicals_x.tolist()
    Lz = code.logicals_z.tolist()
    return H, Lx, Lz


def mats_op(code):
    H, Lx, Lz = mats(code)
    return f'{stack(H)} {stack(Lx)} {stack(Lz)}'


def probs_of(code, em, p):
    pi, px, py, pz = em.probability_distribution(code, p)
    return [(Fraction(float(pi[i])), Fraction(float(px[i])), Fraction(float(py[i])), Fraction(float(pz[i])))
            for i in range(code.n)]


def probs_op(pr):
    return ';'.join(','.join(frac(x) for x in q) for q in pr) if pr else '-'


def canon_pest(p_est, n) -> str:
    p = float(p_est)
    if math.isnan(p):
        return 'nan'
    fr = Fraction(p).limit_denominator(max(int(n), 1))
    if float(fr) != p:
        return f'float:{p!r}'
    return frac(fr)


def canon_radicand(p_se, n) -> str:
    """p_se = sqrt(R) with R a fraction of denominator dividing n^2 (n+1): recover R as the
    nearest such fraction (distinct candidates differ by >= 1/D^2 >> float error)."""
    s = float(p_se)
    if math.isnan(s):
        return 'nan'
    D = max(int(n), 1) ** 2 * (int(n) + 1)
    fr = Fraction(s * s).limit_denominator(D)
    if not math.isclose(math.sqrt(fr), s, rel_tol=1e-9, abs_tol=1e-12):
        return f'float:{s!r}'
    return frac(fr)


def canon_summary(r) -> str:
    n = int(r['n_runs'])
    return f"{int(r['n_success'])},{int(r['n_fail'])},{n},{canon_pest(r['p_est'], n)},{canon_radicand(r['p_se'], n)}"


def canon_state(sim, rng) -> str:
    res = sim._results
    eff = [[int(x) for x in e] for e in res['effective_error']]
    return (f"nruns={int(res['n_runs'])} eff={stack(eff)} succ={bools(res['success'])} "
            f"code={bools(res['codespace'])} pos={rng.i}")


def canon_trial(rec) -> str:
    return (f"{vec(rec['syndrome'])},{vec(rec['effective_error'])},"
            f"{1 if rec['success'] else 0},{1 if rec['codespace'] else 0}")


EIGHTHS = [(a, b, 8 - a - b) for a in range(9) for b in range(9 - a)]

# (code, sizes quick, sizes thorough, code deformation names, decoders)
FAMILIES = [
    ('Toric2DCode', [(2, 2), (3, 2), (3, 3)], [(4, 3), (4, 4), (5, 5)], ['XZZX', 'XY'],
     ['MatchingDecoder', 'BeliefPropagationOSDDecoder', 'UnionFindDecoder']),
    ('Planar2DCode', [(2, 2), (2, 3), (3, 3)], [(4, 3), (4, 4)], ['XZZX', 'XY'],
     ['MatchingDecoder', 'BeliefPropagationOSDDecoder']),
    ('RotatedPlanar2DCode', [(2, 2), (3, 3), (2, 3)], [(4, 4), (5, 5), (3, 5)], ['XZZX', 'XY'],
     ['MatchingDecoder', 'BeliefPropagationOSDDecoder']),
    ('Toric3DCode', [(2, 2, 2)], [(3, 2, 2), (3, 3, 3)], ['XZZX'],
     ['SweepMatchDecoder', 'BeliefPropagationOSDDecoder']),
    ('Planar3DCode', [(2, 2, 2)], [(3, 2, 2), (3, 3, 3)], ['XZZX'],
     ['SweepMatchDecoder', 'BeliefPropagationOSDDecoder']),
    ('RotatedPlanar3DCode', [(2, 2, 2)], [(3, 3, 2)], ['XZZX'],
     ['RotatedSweepMatchDecoder', 'BeliefPropagationOSDDecoder']),
    ('XCubeCode', [(2, 2, 2)], [(3, 2, 2)], ['XZZX'],
     ['XCubeMatchingDecoder', 'BeliefPropagationOSDDecoder']),
    ('Color488Code', [(2, 2)], [(4, 4)], ['XXZZ'], ['BeliefPropagationOSDDecoder']),
    ('Color666PlanarCode', [(2, 2)], [(3, 3)], [], ['BeliefPropagationOSDDecoder']),
    ('RhombicPlanarCode', [(2, 2, 2)], [(3, 2, 2)], ['Checkerboard XZZX'], ['BeliefPropagationOSDDecoder']),
    ('RhombicToricCode', [(2, 2, 2)], [(4, 2, 2)], ['Checkerboard XZZX'], ['BeliefPropagationOSDDecoder']),
]
CSS_ONLY = {'MatchingDecoder', 'UnionFindDecoder', 'SweepMatchDecoder', 'RotatedSweepMatchDecoder'}


def gen_combos(rng, thorough, per_family):
    """Random (code, size, deformation, noise, decoder, p) combinations, dyadic noise."""
    out = []
    for name, sq, st, defs, decs in FAMILIES:
        sizes = sq + (st if thorough else [])
        for _ in range(per_family):
            size = sizes[int(rng.integers(len(sizes)))]
            dec = decs[int(rng.integers(len(decs)))]
            deform = None
            ndeform = None
            if defs and rng.random() < 0.5:
                dn = defs[int(rng.integers(len(defs)))]
                w = rng.random()
                if dec not in CSS_ONLY and w < 0.5:
                    deform = dn               # deformed code (non-CSS)
                    if w < 0.25:
                        ndeform = dn
                else:
                    ndeform = dn              # deformed noise on the CSS code
            a, b, c = EIGHTHS[int(rng.integers(len(EIGHTHS)))]
            p = Fraction(int(rng.integers(1, 5)), 8)
            dparams = {}
            if dec == 'BeliefPropagationOSDDecoder':
                dparams = {'max_bp_iter': 10, 'osd_order': 0}
            out.append({'code': name, 'size': list(size), 'deform': deform, 'ndeform': ndeform,
                        'r': [frac(Fraction(a, 8)), frac(Fraction(b, 8)), frac(Fraction(c, 8))],
                        'p': frac(p), 'decoder': dec, 'dparams': dparams})
        # the same family with an arbitrary (mostly invalid) decoder output
        size = sizes[int(rng.integers(len(sizes)))]
        a, b, c = EIGHTHS[int(rng.integers(len(EIGHTHS)))]
        dn = defs[int(rng.integers(len(defs)))] if defs and rng.random() < 0.5 else None
        out.append({'code': name, 'size': list(size), 'deform': dn if rng.random() < 0.5 else None,
                    'ndeform': dn, 'r': [frac(Fraction(a, 8)), frac(Fraction(b, 8)), frac(Fraction(c, 8))],
                    'p': frac(Fraction(int(rng.integers(1, 3)), 8)), 'decoder': 'ArbitraryDecoder',
                    'dparams': {'salt': int(rng.integers(0, 256))}})
    return out


def tag_of(combo):
    return (f"{combo['code']}/{combo['decoder']}"
            f"{'/deformed' if combo.get('deform') else ''}{'/noise-deformed' if combo.get('ndeform') else ''}")


# ---------------------------------------------------------- correspondence

def correspondence(ctx):
    import numpy as np
    from panqec.simulation import DirectSimulation
    from panqec.simulation._direct_simulation import run_once
    from panqec.error_models._pauli_error_model import fast_choice
    rng = ctx.np_rng(11)
    streams = []

    # --- 1. run_once records, field by field
    s = Stream('run_once-records')
    combos = gen_combos(rng, ctx.thorough, 6 if ctx.thorough else 2)
    built = []
    for combo in combos:
        try:
            code, em, dec, p = build(combo)
        except Exception as e:  # a combination the library itself refuses is not a C11 input
            ctx.notes.append(f'skipped {tag_of(combo)} {combo["size"]}: {type(e).__name__}')
            continue
        built.append((combo, code, em, dec, p))
        mo = mats_op(code)
        pairs, answers = [], []
        seeds = [int(x) for x in rng.integers(0, 2 ** 31, 6 if ctx.thorough else 3)]
        ok = True
        for sd in seeds:
            try:
                rec = run_once(code, em, dec, p, rng=np.random.default_rng(sd))
            except DecoderFailure as e:
                ctx.notes.append(f'decoder raised, trial not used: {tag_of(combo)} {combo["size"]} seed {sd}: {e}')
                continue
            except Exception as e:
                answers = f'EXC:{type(e).__name__}'
                ok = False
                break
            pairs.append(f"{vec(rec['error'])}~{vec(rec['correction'])}")
            answers.append(canon_trial(rec))
        ans = ';'.join(answers) if ok else answers
        s.add(f"trials u8 {mo} {combo['p']} {';'.join(pairs) if pairs else '-'}", ans,
              {'combo': combo, 'seeds': seeds}, tag=tag_of(combo))
    streams.append(s.run())

    # --- 2. DirectSimulation state machine on a prepared variate stream
    s = Stream('direct-simulation-histories')
    for combo, code, em, dec, p in built:
        if code.n > 40 and not ctx.thorough:
            continue
        spy = SpyDecoder(dec._inner)
        n_ops = int(rng.integers(3, 7))
        ops = []
        total = 0
        for _ in range(n_ops):
            if rng.random() < 0.35:
                ops.append('g')
            else:
                k = int(rng.integers(0, 4))
                ops.append(f'r{k}')
                total += k
        ops.append('g')
        # variates on the grid of 1/64 (hits the cumulative boundaries k/64 exactly)
        us = [int(x) for x in rng.integers(0, 64, total * code.n)]
        stub = StubRng([u / 64 for u in us])
        sim = DirectSimulation(code, em, spy, p, verbose=False, rng=stub)
        outs = []
        for op in ops:
            if op == 'g':
                outs.append(guarded(lambda: canon_summary(sim.get_results())))
            else:
                outs.append(guarded(lambda: (sim.run(int(op[1:])), 'ok')[1],
                                    {'ValueError': 'ERR rate', 'DecoderFailure': 'DECODER-RAISED'}))
        if 'DECODER-RAISED' in outs:
            ctx.notes.append(f'decoder raised, history not used: {tag_of(combo)} {combo["size"]}')
            continue
        outs.append(guarded(lambda: canon_state(sim, stub)))
        pr = probs_of(code, em, p)
        pairs = ';'.join(f'{vec(a)}~{vec(b)}' for a, b in spy.calls) or '-'
        us_op = ','.join(frac(Fraction(u, 64)) for u in us) or '-'
        s.add(f"dsim u8 {mats_op(code)} {combo['p']} {probs_op(pr)} {us_op} {pairs} {','.join(ops)}",
              ' '.join(outs), {'combo': combo, 'ops': ops, 'variates_64ths': us}, tag=tag_of(combo))
    streams.append(s.run())

    # --- 3. invalid error rates and empty runs
    s = Stream('rate-guard')
    from panqec.codes import RotatedPlanar2DCode
    from panqec.error_models import PauliErrorModel
    from panqec.decoders import MatchingDecoder
    code = RotatedPlanar2DCode(2, 2)
    em = PauliErrorModel(0.5, 0.25, 0.25)
    dec = MatchingDecoder(code, em, 0.25)
    for rate in ('-1/8', '9/8', '2', '-1', '0', '1', '1/2'):
        p = float(Fraction(rate))
        for ops in (['r0', 'g', 'r2', 'g'], ['r1', 'r0', 'g'], ['g']):
            total = sum(int(o[1:]) for o in ops if o[0] == 'r')
            us = [int(x) for x in rng.integers(0, 8, total * code.n)]
            stub = StubRng([u / 8 for u in us])
            spy = SpyDecoder(dec)
            sim = DirectSimulation(code, em, spy, p, verbose=False, rng=stub)
            outs = []
            for op in ops:
                if op == 'g':
                    outs.append(guarded(lambda: canon_summary(sim.get_results())))
                else:
                    outs.append(guarded(lambda: (sim.run(int(op[1:])), 'ok')[1], {'ValueError': 'ERR rate'}))
            outs.append(guarded(lambda: canon_state(sim, stub)))
            # probability_distribution is only meaningful for valid rates; the model never reads it otherwise
            pr = probs_of(code, em, p) if 0 <= p <= 1 else [(Fraction(1), Fraction(0), Fraction(0), Fraction(0))] * code.n
            pairs = ';'.join(f'{vec(a)}~{vec(b)}' for a, b in spy.calls) or '-'
            us_op = ','.join(frac(Fraction(u, 8)) for u in us) or '-'
            s.add(f"dsim u8 {mats_op(code)} {rate} {probs_op(pr)} {us_op} {pairs} {','.join(ops)}",
                  ' '.join(outs), {'rate': rate, 'ops': ops}, tag='valid' if 0 <= p <= 1 else 'invalid',
                  nontrivial=True)
        ans = guarded(lambda: canon_trial(run_once(code, em, dec, p, rng=StubRng([0.0] * code.n))),
                      {'ValueError': 'ERR rate'})
        s.add(f"trials u8 {mats_op(code)} {rate} {vec([0] * (2 * code.n))}~{vec([0] * (2 * code.n))}", ans,
              {'rate': rate, 'fn': 'run_once'}, tag='run_once')
    streams.append(s.run())

    # --- 4. fast_choice on the boundary grid
    s = Stream('fast_choice-grid')
    for (a, b, c) in (EIGHTHS if ctx.thorough else [EIGHTHS[i] for i in rng.choice(len(EIGHTHS), 12, replace=False)]):
        for pn in (1, 2, 4, 8):
            p = Fraction(pn, 8)
            q = [1 - p, p * Fraction(a, 8), p * Fraction(b, 8), p * Fraction(c, 8)]
            for j in range(0, 65, 4 if not ctx.thorough else 1):
                u = Fraction(j, 64)
                ans = guarded(lambda: fast_choice(('I', 'X', 'Y', 'Z'), [float(x) for x in q], rng=StubRng([float(u)])))
                s.add(f"sample {','.join(frac(x) for x in q)} {frac(u)}", ans,
                      {'probs': [frac(x) for x in q], 'u': frac(u)}, tag=f'p={pn}/8')
    streams.append(s.run())

    # --- 5. deterministic calibration: grid run of DirectSimulation vs exact failure probability
    s = Stream('calibration-grid')
    for case in calibration_cases(ctx.thorough, deep=False, heavy=ctx.thorough):
        res = run_grid(case)
        if res is None:
            ctx.notes.append(f'calibration case skipped (decoder not a function of the syndrome): {case}')
            continue
        code, pr, table, n_fail, n_runs = res
        tbl = ';'.join(f'{vec(a)}~{vec(b)}' for a, b in table)
        s.add(f"exactfail u8 {mats_op(code)} {probs_op(pr)} {tbl}", frac(Fraction(n_fail, n_runs)),
              case, tag=f"{case['code']}{tuple(case['size'])}/{case['decoder']}/M={case['M']}")
    streams.append(s.run())
    return streams


# ------------------------------------------------------------- calibration

def calibration_cases(thorough, deep, heavy=False):
    """(code, size, decoder, channel on a grid of M points). Probabilities are multiples of 1/M."""
    cases = []

    def add(code, size, decoder, r, p, M, ndeform=None, dparams=None):
        cases.append({'code': code, 'size': list(size), 'decoder': decoder, 'r': r, 'p': p, 'M': M,
                      'ndeform': ndeform, 'deform': None, 'dparams': dparams or {}})
    bp = {'max_bp_iter': 10, 'osd_order': 0}
    # quick: n <= 4 (at most 8^3 / 4^4 / 2^5 trials each)
    add('RotatedPlanar2DCode', (2, 2), 'MatchingDecoder', ['1/2', '1/2', '0'], '1/2', 4)
    add('RotatedPlanar2DCode', (2, 2), 'MatchingDecoder', ['1/2', '1/4', '1/4'], '1', 4, ndeform='XZZX')
    add('RotatedPlanar2DCode', (2, 2), 'BeliefPropagationOSDDecoder', ['0', '1/2', '1/2'], '1/2', 4, dparams=bp)
    add('Planar2DCode', (1, 3), 'MatchingDecoder', ['1/2', '1/4', '1/4'], '1/2', 8)
    add('RotatedPlanar3DCode', (2, 2, 1), 'BeliefPropagationOSDDecoder', ['1', '0', '0'], '1/4', 4, dparams=bp)
    add('Planar2DCode', (2, 2), 'MatchingDecoder', ['0', '0', '1'], '1/2', 2, ndeform='XY')
    if thorough or deep:
        add('RotatedPlanar2DCode', (2, 2), 'MatchingDecoder', ['1/2', '1/4', '1/4'], '1/2', 8, ndeform='XY')
        add('Planar2DCode', (2, 2), 'MatchingDecoder', ['1/2', '1/2', '0'], '1/2', 4, ndeform='XZZX')
        add('Planar2DCode', (2, 2), 'BeliefPropagationOSDDecoder', ['1/4', '1/4', '1/2'], '1', 4, dparams=bp)
        add('RotatedPlanar2DCode', (2, 3), 'MatchingDecoder', ['1/2', '1/2', '0'], '1/2', 4)
        add('RotatedPlanar2DCode', (3, 2), 'MatchingDecoder', ['0', '1/2', '1/2'], '1/2', 4, ndeform='XZZX')
        add('Toric2DCode', (2, 2), 'MatchingDecoder', ['1', '0', '0'], '1/2', 2)
        add('Toric2DCode', (2, 2), 'UnionFindDecoder', ['0', '0', '1'], '1/2', 2)
        add('RotatedPlanar2DCode', (3, 3), 'MatchingDecoder', ['1/2', '0', '1/2'], '1', 2)
        add('RotatedPlanar2DCode', (3, 3), 'MatchingDecoder', ['0', '1', '0'], '1/2', 2, ndeform='XZZX')
    if heavy:        # 4^8 = 65536 trials (n = 8), about 2 minutes
        add('Toric2DCode', (2, 2), 'MatchingDecoder', ['1/2', '1/2', '0'], '1/2', 4, ndeform='XZZX')
    return cases


def run_grid(case):
    """DirectSimulation over the complete variate grid; returns (code, probs, decode table,
    n_fail, n_runs) or None when the decoder answered one syndrome in two ways."""
    from panqec.simulation import DirectSimulation
    code, em, dec, p = build(case)
    M, n = case['M'], code.n
    spy = dec
    sim = DirectSimulation(code, em, spy, p, verbose=False, rng=GridRng(M, n))
    sim.run(M ** n)
    r = sim.get_results()
    table = {}
    for syn, corr in spy.calls:
        if table.setdefault(tuple(syn), corr) != corr:
            return None
    return code, probs_of(code, em, p), sorted(table.items()), int(r['n_fail']), int(r['n_runs'])


# ------------------------------------------------------------------ oracle

def symp_ref(a, b):
    n = len(a) // 2
    return (sum(a[i] * b[n + i] for i in range(n)) + sum(a[n + i] * b[i] for i in range(n))) % 2


def reference_channel(code, combo):
    """(1-p, p r_X, p r_Y, p r_Z) per qubit, relabelled by the noise deformation - written from the
    statement of the channel, independent of probability_distribution."""
    p = Fraction(combo['p'])
    r = dict(zip('XYZ', (Fraction(x) for x in combo['r'])))
    out = []
    for i in range(code.n):
        q = {'I': 1 - p, 'X': p * r['X'], 'Y': p * r['Y'], 'Z': p * r['Z']}
        if combo.get('ndeform'):
            d = code.get_deformation(code.qubit_coordinates[i], combo['ndeform'])
            q = {'I': q['I'], **{s: q[d[s]] for s in 'XYZ'}}
        out.append(q)
    return out


def record_violation(code, rec):
    """The four field relations of the statement, in plain GF(2) arithmetic."""
    H, Lx, Lz = mats(code)
    e = [int(x) for x in rec['error']]
    c = [int(x) for x in rec['correction']]
    if len(c) != len(e):
        return f'correction has length {len(c)}, error {len(e)}'
    syn = [symp_ref(r, e) for r in H]
    if [int(x) for x in rec['syndrome']] != syn:
        return f"syndrome field {vec(rec['syndrome'])} != syndrome(error) {vec(syn)}"
    tot = [(a + b) % 2 for a, b in zip(e, c)]
    eff = [symp_ref(r, tot) for r in Lz] + [symp_ref(r, tot) for r in Lx]
    if [int(x) for x in rec['effective_error']] != eff:
        return f"effective_error {vec(rec['effective_error'])} != logical effect of error+correction {vec(eff)}"
    cs = all(symp_ref(r, tot) == 0 for r in H)
    if bool(rec['codespace']) != cs:
        return f"codespace={rec['codespace']} but residual syndrome zero is {cs}"
    if bool(rec['success']) != (cs and not any(eff)):
        return f"success={rec['success']} but codespace={cs}, effective_error={vec(eff)}"
    return None


def check_case(case):
    import numpy as np
    from panqec.simulation import DirectSimulation
    from panqec.simulation._direct_simulation import run_once
    kind = case['kind']
    try:
        if kind == 'record':
            code, em, dec, p = build(case['combo'])
            rec = run_once(code, em, dec, p, rng=np.random.default_rng(case['seed']))
            return record_violation(code, rec)
        if kind == 'history':
            code, em, dec, p = build(case['combo'])
            spy = dec
            sim = DirectSimulation(code, em, spy, p, verbose=False, rng=np.random.default_rng(case['seed']))
            total = 0
            if case.get('interrupt_at') is not None:
                spy.interrupt_at = int(case['interrupt_at'])
            for k in case['runs']:
                before = len(spy.calls)
                try:
                    sim.run(k)
                    total += k
                except KeyboardInterrupt:
                    # a run interrupted inside a trial: the finished trials stay, the unfinished one leaves
                    # no trace; the object must be consistent and resumable
                    total += len(spy.calls) - before
                res = sim.results
                lens = (len(res['effective_error']), len(res['success']), len(res['codespace']))
                if res['n_runs'] != total or lens != (total,) * 3:
                    return f"after run({k}): n_runs={res['n_runs']} list lengths={lens} trials requested={total}"
                if len(spy.calls) != total:
                    return f'{len(spy.calls)} decode calls for {total} trials'
                r = sim.get_results()
                n_fail = sum(1 for x in res['success'] if not x)
                if int(r['n_runs']) != total or int(r['n_fail']) != n_fail or \
                        int(r['n_success']) != total - n_fail:
                    return f"get_results {dict((k2, str(v)) for k2, v in r.items())} but {n_fail} failures in {total} trials"
                if total == 0:
                    if not math.isnan(float(r['p_est'])):
                        return f"p_est={r['p_est']} with no trials"
                elif Fraction(float(r['p_est'])) != Fraction(n_fail / total):
                    return f"p_est={r['p_est']} != n_fail/n_runs={n_fail}/{total}"
            # every stored trial is the classification of a recorded decode call
            H, Lx, Lz = mats(code)
            for i, (syn, corr) in enumerate(spy.calls):
                if len(corr) != 2 * code.n:
                    return f'trial {i}: correction length {len(corr)}'
            return None
        if kind == 'same-seed':
            outs = []
            for _ in range(2):
                code, em, dec, p = build(case['combo'])
                sim = DirectSimulation(code, em, dec, p, verbose=False, rng=np.random.default_rng(case['seed']))
                for k in case['runs']:
                    sim.run(k)
                res = sim.results
                recs = [run_once(code, em, dec, p, rng=np.random.default_rng(case['seed'] + 1)) for _ in range(1)]
                outs.append((res['n_runs'],
                             b''.join(np.asarray(x).tobytes() for x in res['effective_error']),
                             list(res['success']), list(res['codespace']),
                             [(r['error'].tobytes(), r['syndrome'].tobytes(), np.asarray(r['correction']).tobytes())
                              for r in recs]))
            if outs[0] != outs[1]:
                return 'two runs with the same seed differ'
            return None
        if kind == 'seeded-resume':
            # reproducibility across save / load / resume: the same seeded history, with the results written out and
            # read back by a new seeded simulation object in the middle, run twice, gives the same records; the
            # trials after the load are drawn from the generator handed to the resuming object
            from panqec.utils import NumpyEncoder
            outs = []
            k1, k2 = case['runs']
            for _ in range(2):
                code, em, dec, p = build(case['combo'])
                sim = DirectSimulation(code, em, dec, p, verbose=False, rng=np.random.default_rng(case['seed']))
                sim.run(k1)
                data = json.loads(json.dumps(sim.get_results_to_save(), cls=NumpyEncoder))
                code2, em2, dec2, p = build(case['combo'])
                g = np.random.default_rng(case['seed'] + 1)
                sim2 = DirectSimulation(code2, em2, dec2, p, verbose=False, rng=g)
                sim2.load_results_from_dict(data)
                sim2.run(k2)
                res = sim2.results
                lens = (len(res['effective_error']), len(res['success']), len(res['codespace']))
                if res['n_runs'] != k1 + k2 or lens != (k1 + k2,) * 3:
                    return f"run({k1}), save, load, run({k2}): n_runs={res['n_runs']} list lengths={lens}"
                outs.append((b''.join(np.asarray(x).tobytes() for x in res['effective_error']),
                             list(res['success']), list(res['codespace']),
                             [np.asarray(c_[0]).tobytes() for c_ in dec2.calls]))
            if outs[0] != outs[1]:
                return (f'the seeded history run({k1}), save, load into a new seeded simulation, run({k2}) gives '
                        f'different records when repeated')
            return None
        if kind == 'seed-used':
            # the generator handed to the simulation is the ONLY source of randomness: two runs with equal
            # generators give equal records whatever state the global numpy / random generators are in, and
            # the generator is consumed (mechanism-free: nothing is assumed about how many variates are drawn)
            import random as _random
            outs = []
            for glob_seed in (1, 2):
                np.random.seed(glob_seed)
                _random.seed(glob_seed)
                code, em, dec, p = build(case['combo'])
                g = np.random.default_rng(12345)
                before = str(g.bit_generator.state)
                sim = DirectSimulation(code, em, dec, p, verbose=False, rng=g)
                sim.run(3)
                res = sim.results
                outs.append((b''.join(np.asarray(x).tobytes() for x in res['effective_error']),
                             list(res['success']), list(res['codespace']), [c_[0] for c_ in dec.calls]))
                if 0 < float(p) and str(g.bit_generator.state) == before:
                    return 'the generator handed to the simulation was not consumed by 3 trials'
            if outs[0] != outs[1]:
                return 'two runs with equal generators differ when the global numpy/random state differs'
            return None
        if kind == 'calibration':
            return calibration_violation(case['case'])
        if kind == 'calibration-sequence':
            # the same error-model object serves several codes of one class with equal n, one after the other
            token = object()
            try:
                for j, c_ in enumerate(case['cases']):
                    msg = calibration_violation(dict(c_, _share=id(token)))
                    if msg:
                        return f"member {j} ({c_['code']}{tuple(c_['size'])}) of a sequence sharing one error model: {msg}"
            finally:
                _SHARED_EM.pop(id(token), None)
            return None
    except DecoderFailure:
        return None          # the decoder itself raised: outside C11
    except StubMismatch:
        return None          # another sampling mechanism: the scripted variates say nothing
    except Exception as e:  # noqa
        return f'raised {type(e).__name__}: {e}'
    return None


def calibration_violation(case):
    """n_fail/n_runs of DirectSimulation over the complete grid must equal the exact failure
    probability: sum over all errors of P(e) * [decoder fails on e]."""
    import numpy as np
    code, em, dec, p = build(case)
    H, Lx, Lz = mats(code)
    chan = reference_channel(code, case)
    M, n = case['M'], code.n
    for q in chan:
        for v in q.values():
            if (v * M).denominator != 1:
                raise ValueError('calibration case is not on the grid')
    # exact failure probability by enumeration of every error with non-zero probability
    import numpy as np
    letters = [[s for s in 'IXYZ' if q[s] > 0] for q in chan]
    cache = {}
    exact = Fraction(0)
    n_err = 0
    for ps in itertools.product(*letters):
        w = Fraction(1)
        for i, s in enumerate(ps):
            w *= chan[i][s]
        e = [1 if s in 'XY' else 0 for s in ps] + [1 if s in 'ZY' else 0 for s in ps]
        syn = tuple(symp_ref(r, e) for r in H)
        if syn not in cache:
            cache[syn] = [int(x) for x in dec.decode(np.array(syn, dtype='uint8'))]
        tot = [(a + b) % 2 for a, b in zip(e, cache[syn])]
        ok = all(symp_ref(r, tot) == 0 for r in H) and not any(symp_ref(r, tot) for r in Lz + Lx)
        if not ok:
            exact += w
        n_err += 1
    try:
        res = run_grid(case)
    except StubMismatch:
        # another sampling mechanism: no exact grid; compare the failure frequency of real sampling with
        # the exact failure probability (exact binomial tail, same threshold as the C07 sampling oracle)
        from scipy.stats import binom
        from panqec.simulation import DirectSimulation
        code2, em2, dec2, p2 = build(case)
        N = 20000
        sim = DirectSimulation(code2, em2, dec2, p2, verbose=False, rng=np.random.default_rng(2718))
        sim.run(N)
        r = sim.get_results()
        k = int(r['n_fail'])
        q = float(exact)
        t = 1.0 if (q <= 0 and k == 0) or (q >= 1 and k == N) else 0.0 if q <= 0 or q >= 1 else \
            min(1.0, 2 * min(binom.cdf(k, N, q), binom.sf(k - 1, N, q)))
        if t < 1e-10:
            return (f'n_fail/n_runs = {k}/{N} with a real generator, exact failure probability {q:.6f} '
                    f'(binomial tail {t:.1e})')
        return None
    if res is None:
        return None   # decoder not a function of the syndrome: not a calibration instance
    _, _, _, n_fail, n_runs = res
    if n_runs != M ** n:
        return f'{n_runs} trials recorded for a grid of {M}^{n}'
    if Fraction(n_fail, n_runs) != exact:
        return (f'n_fail/n_runs = {n_fail}/{n_runs} = {Fraction(n_fail, n_runs)} on the exact variate grid, '
                f'exact failure probability over {n_err} errors = {exact}')
    return None


def oracle_cases(ctx, deep):
    rng = ctx.np_rng(23)
    cases = []
    combos = gen_combos(rng, deep, 3 if deep else 1)
    usable = []
    for combo in combos:
        try:
            build(combo)
            usable.append(combo)
        except Exception:
            continue
    for combo in usable:
        for _ in range(4 if deep else 2):
            cases.append({'kind': 'record', 'combo': combo, 'seed': int(rng.integers(0, 2 ** 31))})
        runs = [int(x) for x in rng.integers(0, 4, int(rng.integers(1, 5)))]
        cases.append({'kind': 'history', 'combo': combo, 'seed': int(rng.integers(0, 2 ** 31)), 'runs': runs})
        runs2 = [int(x) for x in rng.integers(1, 5, 3)]
        cases.append({'kind': 'history', 'combo': combo, 'seed': int(rng.integers(0, 2 ** 31)), 'runs': runs2,
                      'interrupt_at': int(rng.integers(0, sum(runs2[:2])))})
        cases.append({'kind': 'same-seed', 'combo': combo, 'seed': int(rng.integers(0, 2 ** 31)),
                      'runs': [2, 1]})
        cases.append({'kind': 'seeded-resume', 'combo': combo, 'seed': int(rng.integers(0, 2 ** 31)),
                      'runs': [2, 6]})
    for combo in usable[:4]:
        cases.append({'kind': 'seed-used', 'combo': combo})
    cases.append({'kind': 'history', 'combo': usable[0], 'seed': 1, 'runs': [0]})
    for case in calibration_cases(ctx.thorough, deep):
        cases.append({'kind': 'calibration', 'case': case})
    # one deformed, biased error-model object used for lattices of one class with equal n and another shape
    seqs = [[('RotatedPlanar2DCode', (2, 3)), ('RotatedPlanar2DCode', (3, 2))]]
    if deep:
        seqs += [[('RotatedPlanar2DCode', (3, 2)), ('RotatedPlanar2DCode', (2, 3))],
                 [('Planar2DCode', (1, 3)), ('Planar2DCode', (3, 1))]]
    for seq in seqs:
        cases.append({'kind': 'calibration-sequence', 'cases': [
            {'code': c_, 'size': list(sz), 'decoder': 'MatchingDecoder', 'r': ['1/2', '1/4', '1/4'], 'p': '1', 'M': 4,
             'ndeform': 'XZZX', 'deform': None, 'dparams': {}} for (c_, sz) in seq]})
    return cases


def oracle(ctx, deep=False, broken=None):
    cases = oracle_cases(ctx, deep)

    def key(c):
        combo = c.get('combo') or c.get('case') or c['cases'][-1]
        return {'kind': c['kind'], 'code': combo['code'], 'decoder': combo['decoder']}
    fails = first_failures(cases, check_case, key=key)
    return fails, {'evaluations': len(cases)}


def replay(ctx, payload):
    return check_case(payload['input']) is not None
